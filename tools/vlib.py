"""Shared machinery of every check: build /repo with hooks, translators, Coq
build, extraction, correspondence runs, search, known findings, evidence.

Nothing here decides a property; it runs the steps of DESIGN.md section 2.2 and
records what happened.
"""
import fcntl
import glob
import hashlib
import json
import os
import random
import re
import shutil
import subprocess
import sys
import time

VERIF = os.path.dirname(os.path.dirname(os.path.abspath(__file__)))
REPO = os.environ.get("VERIF_REPO", "/repo")
BUILD = os.environ.get("VERIF_BUILD", os.path.join(VERIF, "build"))
REPO_BUILD = os.path.join(BUILD, "repo")
COQ = os.path.join(VERIF, "coq")
GUARD = "DANMAR_CPPCHECK_VERIF"
CPPCHECK = os.environ.get("VERIF_CPPCHECK", os.path.join(REPO_BUILD, "bin", "cppcheck"))
NPROC = os.cpu_count() or 4


def log(*a):
    print(*a, file=sys.stderr, flush=True)


def sh(cmd, cwd=None, timeout=3600, env=None, input=None, check=False):
    e = dict(os.environ)
    if env:
        e.update(env)
    t0 = time.time()
    try:
        p = subprocess.run(cmd, cwd=cwd, shell=isinstance(cmd, str), env=e, input=input,
                           stdout=subprocess.PIPE, stderr=subprocess.STDOUT, timeout=timeout)
        out = p.stdout if isinstance(p.stdout, str) else p.stdout.decode("utf-8", "replace")
        rc = p.returncode
    except subprocess.TimeoutExpired as ex:
        out = (ex.stdout or b"").decode("utf-8", "replace") + "\n[timeout after %ss]" % timeout
        rc = 124
    if check and rc != 0:
        raise RuntimeError("command failed (%s): %s\n%s" % (rc, cmd, out[-4000:]))
    return rc, out, time.time() - t0


class Lock:
    def __init__(self, name):
        os.makedirs(BUILD, exist_ok=True)
        self.path = os.path.join(BUILD, "." + name + ".lock")

    def __enter__(self):
        self.f = open(self.path, "w")
        fcntl.flock(self.f, fcntl.LOCK_EX)
        return self

    def __exit__(self, *a):
        fcntl.flock(self.f, fcntl.LOCK_UN)
        self.f.close()


# ---------------------------------------------------------------- repo build
def ensure_repo_build(targets=("cppcheck",)):
    """Build /repo's *current working tree* with the hook guard on (incremental)."""
    with Lock("repo"):
        if not os.path.exists(os.path.join(REPO_BUILD, "build.ninja")):
            sh(["cmake", "-G", "Ninja", "-S", REPO, "-B", REPO_BUILD, "-DCMAKE_BUILD_TYPE=Release",
                "-DBUILD_TESTS=OFF", "-DCMAKE_CXX_FLAGS=-D%s -Wno-error" % GUARD,
                "-DCMAKE_DISABLE_PRECOMPILE_HEADERS=ON"], check=True)
        rc, out, dt = sh(["ninja", "-C", REPO_BUILD] + list(targets), timeout=3000)
        if rc != 0:
            raise BuildError("repo build failed:\n" + out[-6000:])
        return dt


class BuildError(Exception):
    pass


def _newest(paths):
    m = 0
    for p in paths:
        try:
            m = max(m, os.path.getmtime(p))
        except OSError:
            pass
    return m


def build_harness(pid, extra_srcs=(), defines=()):
    """Compile harness/vh_<pid>.cpp against the objects of the current build."""
    src = os.path.join(VERIF, "harness", "vh_%s.cpp" % pid.lower())
    out = os.path.join(BUILD, "harness", "vh_%s" % pid.lower())
    os.makedirs(os.path.dirname(out), exist_ok=True)
    libs = [os.path.join(REPO_BUILD, "lib", n) for n in
            ("libcli.a", "libfrontend.a", "libtinyxml2.a", "libsimplecpp.a")]
    deps = [src, os.path.join(VERIF, "harness", "vh_common.h")] + libs + list(extra_srcs)
    with Lock("harness_" + pid):
        if os.path.exists(out) and os.path.getmtime(out) >= _newest(deps):
            return out
        incs = ["-I" + os.path.join(REPO, d) for d in
                ("lib", "cli", "frontend", "externals", "externals/simplecpp", "externals/tinyxml2", "externals/picojson")]
        incs.append("-I" + os.path.join(VERIF, "harness"))
        cmd = ["g++", "-std=c++11", "-O1", "-w", "-D" + GUARD] + ["-D" + d for d in defines] + incs + \
              [src] + list(extra_srcs) + ["-Wl,--whole-archive", libs[0], "-Wl,--no-whole-archive", libs[1], libs[2], libs[3],
                                          "-lpthread", "-o", out + ".tmp"]
        rc, o, dt = sh(cmd, timeout=900)
        if rc != 0:
            raise BuildError("harness build failed for %s:\n%s" % (pid, o[-6000:]))
        os.replace(out + ".tmp", out)
        return out


# ---------------------------------------------------------------- Coq
def coq_project():
    files = sorted(glob.glob(os.path.join(COQ, "theories", "**", "*.v"), recursive=True))
    rel = [os.path.relpath(f, COQ) for f in files]
    head = open(os.path.join(COQ, "_CoqProject.head")).read()
    txt = head + "\n".join(rel) + "\n"
    p = os.path.join(COQ, "_CoqProject")
    old = open(p).read() if os.path.exists(p) else None
    if old != txt or not os.path.exists(os.path.join(COQ, "Makefile")):
        open(p, "w").write(txt)
        sh(["coq_makefile", "-f", "_CoqProject", "-o", "Makefile"], cwd=COQ, check=True)


def coq_make(targets, timeout=1500):
    """Full .vo build (never -vos) of the given targets. Returns (ok, log)."""
    with Lock("coq"):
        coq_project()
        rc, out, dt = sh(["make", "-k", "-j%d" % NPROC] + list(targets), cwd=COQ, timeout=timeout)
        ok = rc == 0 and all(os.path.exists(os.path.join(COQ, t)) for t in targets)
        return ok, out, dt


FORBIDDEN = re.compile(r"\b(Admitted|admit|Axiom|Axioms|Parameter|Parameters|Conjecture|Unset Guard Checking|"
                       r"bypass_check|Admit Obligations|Unset Positivity Checking|Unset Universe Checking)\b|"
                       r"-type-in-type|-impredicative-set")


def strip_coq_comments(s):
    out, depth, i = [], 0, 0
    while i < len(s):
        if s.startswith("(*", i):
            depth += 1
            i += 2
        elif s.startswith("*)", i) and depth:
            depth -= 1
            i += 2
        else:
            if not depth:
                out.append(s[i])
            i += 1
    return "".join(out)


def coq_gate():
    """No admits / axioms / disabled checks anywhere in the development."""
    bad = []
    for f in glob.glob(os.path.join(COQ, "theories", "**", "*.v"), recursive=True):
        txt = strip_coq_comments(open(f).read())
        txt = re.sub(r'"[^"]*"', '""', txt)
        for m in FORBIDDEN.finditer(txt):
            bad.append("%s: %s" % (os.path.relpath(f, COQ), m.group(0)))
    for f in ("_CoqProject.head",):
        if FORBIDDEN.search(open(os.path.join(COQ, f)).read()):
            bad.append(f)
    return bad


def theorems_of(properties_file):
    txt = strip_coq_comments(open(properties_file).read())
    return re.findall(r"^\s*(?:Theorem|Corollary)\s+([A-Za-z0-9_']+)", txt, re.M)


def parse_assumptions(make_log, names):
    """Pick the Print Assumptions output out of the coqc log."""
    res = []
    for blk in re.findall(r"(Closed under the global context|Axioms:\n(?:.+\n?)+?)(?=\n\S|\Z)", make_log):
        res.append(blk.strip())
    return res


def build_model(pid):
    """Extract <pid>'s run function (ExtrOcamlBasic only) and link the generic driver."""
    d = os.path.join(BUILD, "ocaml", pid)
    os.makedirs(d, exist_ok=True)
    exe = os.path.join(d, "run")
    ext = os.path.join(COQ, "extract", "Extract_%s.v" % pid)
    deps = glob.glob(os.path.join(COQ, "theories", "**", "*.vo"), recursive=True) + \
        [ext, os.path.join(VERIF, "ocaml", "driver.ml")]
    with Lock("ocaml_" + pid):
        if os.path.exists(exe) and os.path.getmtime(exe) >= _newest(deps):
            return exe
        shutil.copy(ext, os.path.join(d, "Extract.v"))
        rc, o, _ = sh(["coqc", "-Q", os.path.join(COQ, "theories"), "CV", "Extract.v"], cwd=d, timeout=600)
        if rc != 0:
            raise BuildError("extraction failed for %s:\n%s" % (pid, o[-4000:]))
        shutil.copy(os.path.join(VERIF, "ocaml", "driver.ml"), os.path.join(d, "driver.ml"))
        rc, o, _ = sh(["ocamlfind", "ocamlopt", "-O2" if False else "-inline", "100", "-w", "-a",
                       "model.mli", "model.ml", "driver.ml", "-o", "run.tmp"], cwd=d, timeout=600)
        if rc != 0:
            raise BuildError("ocaml build failed for %s:\n%s" % (pid, o[-4000:]))
        os.replace(os.path.join(d, "run.tmp"), exe)
        return exe


# ---------------------------------------------------------------- protocol
def enc(b):
    if isinstance(b, str):
        b = b.encode("latin-1")
    if isinstance(b, bool):
        b = b"1" if b else b"0"
    if isinstance(b, int):
        b = str(b).encode()
    return b.hex() if b else "-"


def dec(h):
    if h == "-":
        return b""
    return bytes.fromhex(h)


def enc_case(fields):
    return " ".join(enc(f) for f in fields)


def dec_line(line):
    line = line.strip()
    if line == "~" or line == "":
        return []
    if line.startswith("!exc:"):
        return ["!exc", dec(line[5:])]
    return [dec(h) for h in line.split(" ")]


def run_lines(cmd, lines, timeout=1800, cwd=None, env=None):
    data = ("\n".join(lines) + "\n").encode()
    e = dict(os.environ)
    if env:
        e.update(env)
    p = subprocess.run(cmd, input=data, stdout=subprocess.PIPE, stderr=subprocess.PIPE, timeout=timeout, cwd=cwd, env=e)
    out = p.stdout.decode("latin-1").split("\n")
    if out and out[-1] == "":
        out.pop()
    return p.returncode, out, p.stderr.decode("utf-8", "replace")


def show(b):
    """Readable rendering of a byte string for evidence / replay files."""
    if isinstance(b, (list, tuple)):
        return [show(x) for x in b]
    if isinstance(b, bytes):
        try:
            s = b.decode("ascii")
            if all(32 <= ord(c) < 127 for c in s):
                return s
        except UnicodeDecodeError:
            pass
        return "hex:" + b.hex()
    return b


# ---------------------------------------------------------------- known findings
def load_known(pid):
    known, fixed = [], []
    p = os.path.join(VERIF, "known_findings.txt")
    if os.path.exists(p):
        for line in open(p):
            line = line.strip()
            if not line or line.startswith("#"):
                continue
            m = re.match(r"known: property=(\S+) key=(\S+) (.*)", line)
            if m and m.group(1) == pid:
                known.append((m.group(2), m.group(3)))
            m = re.match(r"fixed: property=(\S+) (\S+) (.*)", line)
            if m and m.group(1) == pid:
                fixed.append((m.group(2), m.group(3)))
    return known, fixed


# ---------------------------------------------------------------- the run
class Violation:
    def __init__(self, key, what, replay, found_input=True):
        self.key = key            # stable identity of the failing input / call site / history
        self.what = what          # one line
        self.replay = replay      # json-serialisable dict
        self.found_input = found_input


class Run:
    """One execution of one check. Collects obligations, streams, violations and writes evidence."""

    def __init__(self, pid, tier, seed):
        self.pid, self.tier, self.seed = pid, tier, seed
        self.t0 = time.time()
        self.rng = random.Random("%s-%s" % (pid, seed))
        self.obligations = []
        self.discharged = []
        self.assumptions_text = []
        self.trusted_base = []
        self.assumptions = []
        self.streams = {}
        self.samples = []
        self.violations = []
        self.notes = []
        self.checker_cmd = ""
        self.level = "proof"
        self.extra = {}

    # --- proof leg
    def prove(self, properties_vo=None, extra_targets=()):
        pv = properties_vo or "theories/Properties_%s.vo" % self.pid
        pfile = os.path.join(COQ, pv[:-1])
        self.obligations = theorems_of(pfile)
        self.checker_cmd = "make -C coq -k -j%d %s  (coqc 8.16.1, full .vo)" % (NPROC, pv)
        bad = coq_gate()
        # force re-check of the properties file itself on every run
        for t in [pv] + list(extra_targets):
            try:
                os.remove(os.path.join(COQ, t))
            except OSError:
                pass
        ok, out, dt = coq_make([pv] + list(extra_targets))
        self.extra["coq_wall_s"] = round(dt, 1)
        self.coq_log = out
        if bad:
            ok = False
            out += "\nFORBIDDEN constructs: " + "; ".join(bad)
            self.coq_log = out
        if ok:
            self.discharged = list(self.obligations)
            closed = out.count("Closed under the global context")
            axioms = sorted(set(re.findall(r"^([A-Za-z_][A-Za-z0-9_.']*)\s*:", out.split("Axioms:", 1)[1], re.M))) if "Axioms:" in out else []
            self.assumptions_text = ["Print Assumptions: %d theorem(s) closed under the global context" % closed] + \
                (["axioms reported: " + ", ".join(axioms)] if axioms else [])
        else:
            self.discharged = []
        return ok

    def proof_error(self):
        m = re.search(r'File "([^"]+)", line (\d+)[^\n]*\n((?:.*\n){0,8})', getattr(self, "coq_log", ""))
        if m:
            return {"file": m.group(1), "line": int(m.group(2)), "message": m.group(3).strip()[:1500]}
        return {"log_tail": getattr(self, "coq_log", "")[-2000:]}

    # --- correspondence leg
    def stream(self, name):
        return self.streams.setdefault(name, {"evaluations": 0, "nontrivial": set(), "disagreements": 0, "hist": {}})

    def count(self, stream, key, nontrivial=None, bucket=None):
        s = self.stream(stream)
        s["evaluations"] += 1
        if nontrivial:
            s["nontrivial"].add(nontrivial if isinstance(nontrivial, (str, bytes, int, tuple)) else repr(nontrivial))
        if bucket is not None:
            s["hist"][bucket] = s["hist"].get(bucket, 0) + 1

    def violation(self, key, what, replay, found_input=True):
        self.violations.append(Violation(key, what, replay, found_input))

    # --- finish
    def finish(self):
        known, fixed = load_known(self.pid)
        known_keys = {k: d for k, d in known}
        rdir = os.path.join(BUILD, "replay")
        os.makedirs(rdir, exist_ok=True)
        unlisted, seen_known = [], set()
        for v in self.violations:
            if v.key in known_keys:
                if v.key not in seen_known:
                    seen_known.add(v.key)
                    print("KNOWN-FINDING: property=%s %s [%s]" % (self.pid, known_keys[v.key], v.key))
                continue
            unlisted.append(v)
        # one line per distinct key
        printed = set()
        rc = 0
        for v in unlisted:
            if v.key in printed:
                continue
            printed.add(v.key)
            h = hashlib.sha1(v.key.encode("utf-8", "replace")).hexdigest()[:10]
            path = os.path.join(rdir, "%s-%s.json" % (self.pid, h))
            rep = dict(v.replay)
            rep.update({"property": self.pid, "key": v.key, "what": v.what, "seed": self.seed, "tier": self.tier})
            with open(path, "w") as f:
                json.dump(rep, f, indent=1, default=show)
            print("VIOLATION property=%s replay=%s%s" % (self.pid, path, "" if v.found_input else " no-failing-input-found"))
            log("  " + v.what)
            rc = 1
        ev = {
            "property_id": self.pid, "tier": self.tier, "seed": self.seed, "level": self.level,
            "coverage": {
                "obligations": len(self.obligations), "discharged": len(self.discharged),
                "obligation_names": self.obligations,
                "checker_cmd": self.checker_cmd or "n/a",
                "trusted_base": self.trusted_base + self.assumptions_text,
                "evaluations": sum(s["evaluations"] for s in self.streams.values()),
                "distinct_nontrivial": sum(len(s["nontrivial"]) for s in self.streams.values()),
                "disagreements_checked": sum(s["disagreements"] for s in self.streams.values()),
                "rule": self.extra.pop("rule", ""),
                "samples": self.samples[:12] or ["(none)"],
                "streams": {k: {"evaluations": s["evaluations"], "distinct_nontrivial": len(s["nontrivial"]),
                                "disagreements": s["disagreements"], "distribution": s["hist"]}
                            for k, s in self.streams.items()},
                "known_findings_seen": sorted(seen_known),
            },
            "assumptions": self.assumptions,
            "wall_s": round(time.time() - self.t0, 1),
            "violations": len(printed),
        }
        ev["coverage"].update(self.extra)
        # a run redirected to a scratch tree (mutation / seeded-change test) must not overwrite the evidence of /repo
        evdir = os.path.join(BUILD, "evidence") if os.environ.get("VERIF_BUILD") else os.path.join(VERIF, "evidence")
        os.makedirs(evdir, exist_ok=True)
        with open(os.path.join(evdir, "%s.json" % self.pid), "w") as f:
            json.dump(ev, f, indent=1, default=show)
        log("[%s] %s tier, seed %s: obligations %d/%d, evaluations %d, violations %d, known %d, %.1fs" % (
            self.pid, self.tier, self.seed, len(self.discharged), len(self.obligations),
            ev["coverage"]["evaluations"], len(printed), len(seen_known), ev["wall_s"]))
        return rc


def correspond(run, stream, model_exe, harness_cmd, cases, tag=None, canon=None, nontrivial=None, bucket=None,
               model_tag=None):
    """Run the same cases through the extracted model and the implementation harness.
    cases: list of field lists. Returns list of (case, model_out, impl_out) that differ."""
    if not cases:
        return []
    mt = model_tag or tag
    m_lines = [enc_case(([mt] if mt else []) + list(c)) for c in cases]
    i_lines = [enc_case(c) for c in cases]
    rc1, mo, me = run_lines([model_exe], m_lines)
    rc2, io, ie = run_lines(harness_cmd, i_lines)
    if rc1 != 0 or len(mo) != len(cases):
        raise BuildError("model run failed (%s) rc=%s lines=%d/%d: %s" % (stream, rc1, len(mo), len(cases), me[-2000:]))
    if len(io) != len(cases):
        # the implementation died on a case: find it
        idx = len(io)
        return [(cases[min(idx, len(cases) - 1)], dec_line(mo[min(idx, len(cases) - 1)]), ["!died", ("rc=%s " % rc2).encode() + ie[-500:].encode()])]
    diffs = []
    for c, a, b in zip(cases, mo, io):
        ma, ib = dec_line(a), dec_line(b)
        if canon:
            ma, ib = canon(ma), canon(ib)
        nt = nontrivial(c, ma, ib) if nontrivial else (tuple(c), )
        run.count(stream, None, nontrivial=nt if nt else None, bucket=bucket(c, ma, ib) if bucket else None)
        if ma != ib:
            diffs.append((c, ma, ib))
    run.stream(stream)["disagreements"] += len(diffs)
    if len(run.samples) < 12:
        k = min(2, len(cases))
        for c, a in list(zip(cases, mo))[:k]:
            run.samples.append({"stream": stream, "case": show(list(c)), "model": show(dec_line(a))})
    return diffs


def main(check_fn, pid):
    import argparse
    ap = argparse.ArgumentParser()
    ap.add_argument("--tier", default=os.environ.get("VERIF_TIER", "quick"))
    ap.add_argument("--replay")
    a = ap.parse_args()
    seed = int(os.environ.get("VERIF_SEED", "1"))
    run = Run(pid, a.tier, seed)
    try:
        check_fn(run, a.replay)
    except BuildError as e:
        run.violation("build:" + hashlib.sha1(str(e).encode()).hexdigest()[:8],
                      "build step failed: " + str(e)[:300],
                      {"broken": "build", "detail": str(e)[-4000:]}, found_input=False)
    except Exception as e:  # the machinery itself broke: the property is no longer shown to hold
        import traceback
        tb = traceback.format_exc()
        log(tb)
        run.violation("machinery:" + type(e).__name__, "check machinery failed: %s: %s" % (type(e).__name__, str(e)[:300]),
                      {"broken": "machinery", "detail": tb[-4000:]}, found_input=False)
    sys.exit(run.finish())
