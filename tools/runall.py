#!/usr/bin/env python3
"""Run the quick (or thorough) command of every check in MANIFEST.json; summary table."""
import json, os, subprocess, sys, time
from concurrent.futures import ThreadPoolExecutor
V = os.path.dirname(os.path.dirname(os.path.abspath(__file__)))
m = json.load(open(os.path.join(V, "MANIFEST.json")))
tier = "thorough_cmd" if "--thorough" in sys.argv else "quick_cmd"
only = [a for a in sys.argv[1:] if a.startswith("C")]
jobs = int(os.environ.get("RUNALL_JOBS", "4"))
os.makedirs(os.path.join(V, "build", "runall"), exist_ok=True)
def run(c):
    t0 = time.time()
    p = subprocess.run(c[tier], shell=True, cwd=V, stdout=subprocess.PIPE, stderr=subprocess.STDOUT)
    out = p.stdout.decode("utf-8", "replace")
    open(os.path.join(V, "build", "runall", c["property_id"] + ".log"), "w").write(out)
    viol = [l for l in out.splitlines() if l.startswith("VIOLATION")]
    known = [l for l in out.splitlines() if l.startswith("KNOWN-FINDING")]
    return c["property_id"], p.returncode, len(viol), len(known), time.time() - t0
cs = [c for c in m["checks"] if not only or c["property_id"] in only]
with ThreadPoolExecutor(jobs) as ex:
    for pid, rc, nv, nk, dt in ex.map(run, cs):
        print("%s rc=%d violations=%d known=%d %.0fs" % (pid, rc, nv, nk, dt), flush=True)
