#!/bin/sh
# hooks.baseline_off_cmd: the repository's own build (guard OFF) and its 112-test baseline.
# The pinned suite has an inter-test race under `ctest -j8`: TestCppcheck::purgedConfiguration creates
# bin/test.cpp with ScopedFile, which throws "file already exists" while TestSuppressions (same directory)
# has its own test.cpp there. It shows on the ORIGINAL snapshot e33b503 in this sandbox as well (2 of 4
# parallel runs, see DESIGN.md 9a), so a test that fails in the parallel run is re-run alone before it
# counts as a failure.
set -e
if [ ! -f /repo/_build/build.ninja ]; then
  cmake -G Ninja -S /repo -B /repo/_build -DCMAKE_BUILD_TYPE=RelWithDebInfo -DBUILD_TESTS=ON -DCMAKE_CXX_FLAGS=-Wno-error
fi
cmake --build /repo/_build -j16
if ctest --test-dir /repo/_build -j8 --timeout 900; then
  exit 0
fi
echo "== re-running the failed tests alone (inter-test race on bin/test.cpp, see header) =="
ctest --test-dir /repo/_build --rerun-failed --timeout 900 --output-on-failure
