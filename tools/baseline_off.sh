#!/bin/sh
# hooks.baseline_off_cmd: the repository's own build (guard OFF) and its 112-test baseline
set -e
if [ ! -f /repo/_build/build.ninja ]; then
  cmake -G Ninja -S /repo -B /repo/_build -DCMAKE_BUILD_TYPE=RelWithDebInfo -DBUILD_TESTS=ON -DCMAKE_CXX_FLAGS=-Wno-error
fi
cmake --build /repo/_build -j16
ctest --test-dir /repo/_build -j8 --timeout 900
