#!/usr/bin/env python3
"""C28  Every built-in finding id is discoverable through --errorlist.

translate:  tools/translate/emit_ids.py  T1: C++-token-level scan of lib/ cli/ frontend/ for every place an
            ErrorMessage gets its id (+ reviewed table dynamic_ids.json for computed ids), T2: `cppcheck
            --errorlist` of the binary built from the same tree  ->  coq/theories/Ids/Gen_Ids.v
prove:      coq/theories/Properties_C28.v  (finite: every (id,site) is in errorlist or a recorded known finding;
            getMessageId variants closed; unbounded: the finite check decides the statement, getMessageId shapes)
correspond: extracted model (Ids/Run.v) vs harness/vh_c28.cpp on the real Check::getMessageId;
            validation of the scanner: ids the real binary reports over test/cfg, samples, generated programs and
            the trigger corpus must all be ids of scanned sites
search:     for every id missing from --errorlist: make the real binary report it (trigger corpus, then snippets
            harvested from test/test*.cpp expectations); the replay is an input whose finding id --errorlist lacks
"""
import glob
import hashlib
import json
import os
import shutil
import subprocess
import sys
import xml.etree.ElementTree as ET
from concurrent.futures import ThreadPoolExecutor

sys.path.insert(0, os.path.dirname(os.path.dirname(os.path.abspath(__file__))))
import vlib
from props import gen_programs as GP
from translate import emit_ids as E

PID = "C28"
GEN = os.path.join(vlib.COQ, "theories", "Ids", "Gen_Ids.v")
TRIGGERS = os.path.join(vlib.VERIF, "corpus", "C28", "triggers.json")
WORK = os.path.join(vlib.BUILD, "work", "C28")


def run_cppcheck(args, cwd, timeout=180):
    p = subprocess.run([vlib.CPPCHECK, "--template={id}\t{severity}", "-q"] + list(args), cwd=cwd,
                       stdout=subprocess.PIPE, stderr=subprocess.STDOUT, timeout=timeout)
    out = []
    for l in p.stdout.decode("utf-8", "replace").split("\n"):
        f = l.split("\t")
        if len(f) == 2 and f[0] and " " not in f[0]:
            out.append((f[0], f[1]))
    return p.returncode, out


def fire(name, files, args):
    """run one trigger in a fresh directory -> set of reported ids"""
    d = os.path.join(WORK, "trig", hashlib.sha1(name.encode()).hexdigest()[:10])
    shutil.rmtree(d, ignore_errors=True)
    os.makedirs(d)
    for f, c in files.items():
        with open(os.path.join(d, f), "w") as fh:
            fh.write(c)
    try:
        rc, obs = run_cppcheck(args, d)
    except subprocess.TimeoutExpired:
        return set(), d
    return set(i for i, _ in obs), d


def harvest(idv, limit=25):
    """code snippets of /repo/test/test*.cpp whose expected output mentions [id]"""
    out = []
    for f in sorted(glob.glob(os.path.join(vlib.REPO, "test", "test*.cpp"))):
        txt = open(f, errors="replace").read()
        if "[" + idv + "]" not in txt:
            continue
        toks = E.lex(txt)
        for i, t in enumerate(toks):
            if t[0] == "str" and "[" + idv + "]" in t[1]:
                j = i
                while j > 0 and not (toks[j][0] == "id" and toks[j][1].startswith(("ASSERT", "TODO_ASSERT"))):
                    j -= 1
                k = j - 1
                while k > 0 and toks[k][0] != "str":
                    k -= 1
                e = k
                while k > 0 and toks[k - 1][0] == "str":
                    k -= 1
                out.append((os.path.basename(f) + ":" + str(toks[k][2]), "".join(x[1] for x in toks[k:e + 1])))
                if len(out) >= limit:
                    return out
    return out


def find_trigger(idv, triggers):
    """-> (description dict) of an input on which the real binary reports `idv`, or None"""
    if idv in triggers:
        t = triggers[idv]
        ids, d = fire(idv, t["files"], t["args"])
        if idv in ids:
            return {"source": "corpus/C28/triggers.json", "files": t["files"], "args": t["args"], "reported_ids": sorted(ids)}
    for where, code in harvest(idv):
        for ext in ("cpp", "c"):
            for extra in ([], ["--check-library"]):
                args = ["--enable=all", "--inconclusive"] + extra + ["test." + ext]
                ids, d = fire(idv + where + ext + str(extra), {"test." + ext: code + "\n"}, args)
                if idv in ids:
                    return {"source": "harvested from test/" + where, "files": {"test." + ext: code + "\n"}, "args": args, "reported_ids": sorted(ids)}
    return None


def library_warn_ids():
    """<function>Called ids the shipped library configurations can synthesise (outside the property)"""
    out = set()
    for f in glob.glob(os.path.join(os.path.dirname(vlib.CPPCHECK), "cfg", "*.cfg")):
        try:
            root = ET.parse(f).getroot()
        except ET.ParseError:
            continue
        for fn in root.iter("function"):
            if fn.find("warn") is not None:
                for n in (fn.get("name") or "").split(","):
                    out.add(n.strip().split("::")[-1] + "Called")      # the id is built from the called token's name
    return out


def model_query(model, fields_list):
    rc, out, err = vlib.run_lines([model], [vlib.enc_case(f) for f in fields_list])
    if rc != 0 or len(out) != len(fields_list):
        raise vlib.BuildError("C28 model run failed: " + err[-500:])
    return [vlib.dec_line(l) for l in out]


def check(run, replay):
    quick = run.tier == "quick"
    rng = run.rng
    run.trusted_base += [
        "Coq 8.16.1 kernel (coqc); vm_compute in the two finite checks over the regenerated tables (bound = the tables) and the non-vacuity Examples",
        "tools/translate/emit_ids.py (C++ lexer, site rules, mechanical resolution of literal / ternary / getMessageId / local-constant / forwarded ids) and the reviewed table tools/translate/dynamic_ids.json; validated on every run by the observed-ids stream",
        "`cppcheck --errorlist` XML of the binary built from the same tree (parsed with xml.etree)",
        "extraction: Require Extraction + ExtrOcamlBasic only; ocaml/driver.ml; harness/vh_common.h + vh_c28.cpp (calls Check::getMessageId)",
        "property exclusions (stated in the property / DESIGN): library <warn> ids (*Called), addon ids, clang-tidy ids, user --rule ids, severities internal/debug/none, checkersReport summary; #ifdef CHECK_INTERNAL / HAVE_RULES regions follow the build's -D flags",
    ]
    run.assumptions += ["g++ compiles /repo faithfully", "a finding id can only originate at the scanned construct kinds (reportError/reportErr calls, ErrorMessage constructions, emplace_back of ErrorMessages, fromInternalError, <msg>.id assignments, Preprocessor::error); relayed ids (cache, worker processes, XML) are not origins"]
    run.extra["rule"] = ("sites: every id-giving construct of lib/ cli/ frontend/ (*.cpp, *.h); a site is non-trivial when its id is not a plain literal. "
                         "msgid: cond,safe in {0,1}^2 x base ids of the table + random alphanumeric strings; distinct (cond,safe,base). "
                         "observed: real binary with --enable=all --inconclusive over test/cfg (with its library), samples, seeded generated programs and the trigger corpus; "
                         "one evaluation = one (input, reported id); non-trivial = distinct reported id that is a finding (severity error..information).")

    vlib.ensure_repo_build()
    os.makedirs(WORK, exist_ok=True)

    # ---- T1 / T2
    try:
        defined = E.build_defines(os.path.join(vlib.REPO_BUILD, "build.ninja"))
        sc = E.scan(vlib.REPO, defined=defined)
        el = E.errorlist(vlib.CPPCHECK)
    except (E.TranslateError, OSError, ValueError, KeyError, IndexError) as ex:
        run.violation("translate:" + hashlib.sha1(str(ex).encode()).hexdigest()[:8], "translator emit_ids.py failed: " + str(ex)[:300],
                      {"broken": "translator", "detail": str(ex)}, found_input=False)
        return
    for p in sc["problems"]:
        run.violation("translate:" + hashlib.sha1(json.dumps(p, sort_keys=True).encode()).hexdigest()[:8],
                      "translator: %s (%s)" % (p["problem"], p.get("site") or p.get("key", "")),
                      dict(p, broken="translator", how="review the site in /repo and tools/translate/dynamic_ids.json"), found_input=False)
    known = E.known_missing_ids(os.path.join(vlib.VERIF, "known_findings.txt"))
    el_ids = [e["id"] for e in el]
    header = "repo %s; %d sites (%s); --errorlist: %d ids; feature macros on: %s" % (
        vlib.REPO, sc["sites"], ", ".join("%s %d" % kv for kv in sorted(sc["how"].items())), len(el_ids), sc["defined"])
    E.write_gen(GEN, sc["emitted"], el_ids, known, sc["message_id_sites"], header)
    run.extra.update({"sites": sc["sites"], "site_resolution": sc["how"], "emitted_pairs": len(sc["emitted"]),
                      "emitted_distinct_ids": len(set(i for i, _ in sc["emitted"])), "errorlist_ids": len(set(el_ids)),
                      "excluded_pairs": len(sc["excluded"]),
                      "excluded_reasons": {w: sum(1 for _, _, w2 in sc["excluded"] if w2 == w) for w in sorted(set(w for _, _, w in sc["excluded"]))},
                      "dynamic_table_entries": len(json.load(open(E.TABLE))["entries"]), "exhaustive": True})
    for s in sc["site_list"]:
        run.count("sites", None, nontrivial=(s["site"], s["how"]) if s["how"] != "literal" else None, bucket=s["how"])
    run.samples += [{"stream": "sites", "site": s["site"], "function": s["func"], "how": s["how"], "ids": s["ids"][:6]}
                    for s in sc["site_list"] if s["how"] in ("table", "getMessageId", "ternary")][:4]

    # ---- prove
    ok = run.prove(extra_targets=["theories/Ids/Run.vo"])
    have_model = ok or os.path.exists(os.path.join(vlib.COQ, "theories/Ids/Run.vo"))
    if not have_model:
        run.violation("proof:" + PID, "Properties_C28.vo does not build: " + str(run.proof_error())[:300],
                      {"broken": "proof", "detail": run.proof_error()}, found_input=False)
        return
    model = vlib.build_model(PID)
    vh = vlib.build_harness(PID)

    # ---- the property on the regenerated tables (decided by the extracted model)
    raw, left, stale, counts = model_query(model, [["uncovered0"], ["uncovered"], ["stale"], ["counts"]])
    run.extra["model_counts"] = dict(zip(["emitted", "errorlist", "known_missing", "message_id_sites"], [int(x) for x in counts]))
    missing = {}
    for k in range(0, len(raw), 2):
        missing.setdefault(raw[k].decode("latin-1"), []).append(raw[k + 1].decode("latin-1"))
    unlisted = set(left[k].decode("latin-1") for k in range(0, len(left), 2))
    triggers = json.load(open(TRIGGERS)) if os.path.exists(TRIGGERS) else {}
    run.extra["ids_missing_from_errorlist"] = len(missing)
    if stale:
        run.notes.append("known findings whose id is now in --errorlist (repaired; move to fixed:): " + ", ".join(s.decode() for s in stale))
        run.extra["stale_known"] = [s.decode() for s in stale]
    with ThreadPoolExecutor(max_workers=6) as ex:
        found = dict(zip(sorted(missing), ex.map(lambda i: find_trigger(i, triggers), sorted(missing))))
    # ---- correspondence: getMessageId
    bases = sorted(set(b for b, _ in sc["message_id_sites"]))
    alpha = "abcdefghijklmnopqrstuvwxyzABCDEFGHIJKLMNOPQRSTUVWXYZ0123456789_"
    bases += ["".join(rng.choice(alpha) for _ in range(rng.randint(1, 12))) for _ in range(200 if quick else 20000)]
    cases = [[c, s, b.encode()] for b in bases for c in (b"0", b"1") for s in (b"0", b"1")]
    diffs = vlib.correspond(run, "getMessageId", model, [vh, "msgid"], cases, tag="msgid",
                            nontrivial=lambda c, m, i: (c[0], c[1], c[2]),
                            bucket=lambda c, m, i: "cond" if c[0] == b"1" else ("safe" if c[1] == b"1" else "plain"))
    for c, m, i in diffs[:2]:
        run.violation("msgid:" + vlib.enc_case(c), "Check::getMessageId(cond=%s, safe=%s, %r) = %s but the model (Ids/Defs.v get_message_id) says %s" % (
            c[0].decode(), c[1].decode(), c[2], vlib.show(i), vlib.show(m)),
            {"broken": "correspondence getMessageId", "case": vlib.show(c), "model": vlib.show(m), "impl": vlib.show(i),
             "how": "echo '%s' | build/harness/vh_c28 msgid" % vlib.enc_case(c)}, found_input=False)

    # ---- validation of the scanner: ids the real binary reports
    jobs = []      # (label, cwd, args)
    cfgdir = os.path.join(vlib.REPO, "test", "cfg")
    for f in sorted(os.listdir(cfgdir)):
        if f.endswith((".c", ".cpp")):
            jobs.append(("test/cfg/" + f, cfgdir, ["--enable=all", "--inconclusive", "--library=" + f.rsplit(".", 1)[0], f]))
    for d in sorted(glob.glob(os.path.join(vlib.REPO, "samples", "*"))):
        for f in sorted(os.listdir(d)):
            if f.endswith((".c", ".cpp")):
                jobs.append(("samples/%s/%s" % (os.path.basename(d), f), d, ["--enable=all", "--inconclusive", f]))
    gdir = os.path.join(WORK, "gen")
    shutil.rmtree(gdir, ignore_errors=True)
    os.makedirs(gdir)
    for n in range(40 if quick else 600):
        lang, src, picks = GP.gen_program(rng)
        name = "g%d.%s" % (n, lang)
        with open(os.path.join(gdir, name), "w") as fh:
            fh.write(src)
        extra = rng.choice([[], [], ["--check-level=exhaustive"], ["--check-library"], ["--std=c89"] if lang == "c" else ["--std=c++03"]])
        jobs.append(("generated/" + name, gdir, ["--enable=all", "--inconclusive"] + extra + [name]))
    for idv, t in sorted(triggers.items()):
        d = os.path.join(WORK, "trigobs", idv)
        shutil.rmtree(d, ignore_errors=True)
        os.makedirs(d)
        for f, c in t["files"].items():
            with open(os.path.join(d, f), "w") as fh:
                fh.write(c)
        jobs.append(("corpus/C28/" + idv, d, t["args"]))

    def obs(j):
        try:
            return j, run_cppcheck(j[2], j[1], timeout=300)[1]
        except subprocess.TimeoutExpired:
            return j, None
    with ThreadPoolExecutor(max_workers=8) as ex:
        results = list(ex.map(obs, jobs))
    libwarn = library_warn_ids()
    seen = {}
    for j, o in results:
        if o is None:
            run.count("observed ids", None, bucket="timeout")
            continue
        for idv, sev in set(o):
            seen.setdefault((idv, sev), []).append(j)
    ids = sorted(set(i for i, _ in seen))
    ans = model_query(model, [["emits", i.encode()] for i in ids] + [["listed", i.encode()] for i in ids])
    emits = {i: a == [b"1"] for i, a in zip(ids, ans[:len(ids)])}
    listed = {i: a == [b"1"] for i, a in zip(ids, ans[len(ids):])}
    excluded_ids = set(i for i, _, _ in sc["excluded"])
    for (idv, sev), js in sorted(seen.items()):
        finding = sev in ("error", "warning", "style", "performance", "portability", "information")
        if emits[idv]:
            b = "scanned site, " + ("in errorlist" if listed[idv] else "missing from errorlist")
        elif idv in libwarn or (idv.startswith("prohibited") and idv[10:] in libwarn):
            b = "excluded: library <warn>"
        elif idv in excluded_ids or not finding:
            b = "excluded: " + ("listed exclusion" if idv in excluded_ids else "severity " + sev)
        else:
            b = "NOT A SCANNED SITE"
        for _ in js:
            run.count("observed ids", None, nontrivial=(idv if finding else None), bucket=b)
        if b == "NOT A SCANNED SITE":
            j = js[0]
            run.stream("observed ids")["disagreements"] += 1
            run.violation("scanner:" + idv, "the real binary reports id '%s' (%s) on %s but the scanner found no site for it%s" % (
                idv, sev, j[0], "" if listed[idv] else "; it is also missing from --errorlist"),
                {"broken": "translator coverage", "id": idv, "severity": sev, "input": j[0], "cwd": j[1], "args": j[2], "in_errorlist": listed[idv],
                 "how": "cd <cwd> && cppcheck --template='{id}' -q <args>"}, found_input=not listed[idv])
        elif emits[idv] and finding and not listed[idv] and idv not in missing:
            # cannot happen if the model is consistent; kept as a cross-check of the two model queries
            run.violation("inconsistent:" + idv, "model answers disagree for id " + idv, {"broken": "model"}, found_input=False)
    # ---- report the ids --errorlist lacks (trigger: corpus / harvested test snippet / an observed input)
    for idv in sorted(missing):
        if found[idv] is None:
            hits = [js for (i, sv), js in seen.items() if i == idv]
            if hits:
                j = hits[0][0]
                found[idv] = {"source": "observed input " + j[0], "cwd": j[1], "args": j[2]}
    ntrig = 0
    for idv in sorted(missing):
        t = found[idv]
        ntrig += t is not None
        run.count("missing-id triggers", None, nontrivial=idv if t else None, bucket="trigger fires" if t else "no trigger")
        rep = {"id": idv, "sites": missing[idv], "in_errorlist": False,
               "how": "write the files, run `cppcheck --template='{id}' -q <args>` in that directory: the id is reported; `cppcheck --errorlist | grep 'id=\"%s\"'` prints nothing" % idv}
        if t:
            rep["trigger"] = t
        run.violation(idv, "finding id '%s' (reported at %s) is not listed by --errorlist%s" % (
            idv, ", ".join(missing[idv][:3]), "" if t else " (no triggering input found)"), rep, found_input=t is not None)
    run.extra["missing_ids_with_trigger"] = ntrig
    if not ok and not unlisted:
        run.violation("proof:" + PID, "Properties_C28.vo does not build: " + str(run.proof_error())[:300],
                      {"broken": "proof", "detail": run.proof_error()}, found_input=False)

    run.samples += [{"stream": "observed ids", "input": js[0][0], "args": js[0][2], "id": i, "severity": s} for (i, s), js in list(sorted(seen.items()))[:3]]
    run.extra["observed_inputs"] = len(jobs)
    run.extra["observed_distinct_ids"] = len(ids)


if __name__ == "__main__":
    vlib.main(check, PID)
