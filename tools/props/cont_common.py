"""C02 helpers: generated C++ functions over standard containers, the facts the real binary dumps at
the observation sites, and the sizes an instrumented execution (g++ -D_GLIBCXX_DEBUG
-fsanitize=address,undefined) observes at the same sites."""
import os
import re
import subprocess
import sys

sys.path.insert(0, os.path.dirname(os.path.dirname(os.path.abspath(__file__))))
import vlib
import dumpparse

INPUTS = [0, 1, 2, 5]

KINDS = {
    # name: (type, element literal maker, flags)
    "vector": dict(ty="std::vector<int>", seq=True, front=False, assoc=False, uniq=False, string=False),
    "deque": dict(ty="std::deque<int>", seq=True, front=True, assoc=False, uniq=False, string=False),
    "list": dict(ty="std::list<int>", seq=True, front=True, assoc=False, uniq=False, string=False),
    "string": dict(ty="std::string", seq=True, front=False, assoc=False, uniq=False, string=True),
    "set": dict(ty="std::set<int>", seq=False, front=False, assoc=True, uniq=True, string=False),
    "uset": dict(ty="std::unordered_set<int>", seq=False, front=False, assoc=True, uniq=True, string=False),
    "multiset": dict(ty="std::multiset<int>", seq=False, front=False, assoc=True, uniq=False, string=False),
    "map": dict(ty="std::map<int, int>", seq=False, front=False, assoc=True, uniq=True, string=False, mapk=True),
    "array": dict(ty="std::array<int, 3>", seq=False, front=False, assoc=False, uniq=False, string=False, array=True),
}
KIND_WEIGHTS = [("vector", 5), ("string", 4), ("deque", 2), ("list", 2), ("set", 3), ("uset", 1), ("multiset", 1), ("map", 2), ("array", 1)]

PRELUDE = """#include <vector>
#include <deque>
#include <list>
#include <string>
#include <set>
#include <unordered_set>
#include <map>
#include <array>
#include <utility>
void sink(int id, unsigned long n);
void sinkb(int id, bool b);
"""

MAIN = """#include "%s"
#include <cstdio>
#include <cstdlib>
#include <unistd.h>
#include <sys/wait.h>
void sink(int id, unsigned long n) { std::printf("S %%d %%lu\\n", id, n); }
void sinkb(int id, bool b) { std::printf("B %%d %%d\\n", id, b ? 1 : 0); }
typedef void (*fn_t)(int);
static fn_t fns[] = { %s };
int main() {
    static const int inputs[] = { %s };
    for (unsigned f = 0; f < sizeof(fns) / sizeof(fns[0]); f++)
        for (unsigned k = 0; k < sizeof(inputs) / sizeof(inputs[0]); k++) {
            std::printf("RUN %%u %%d\\n", f, inputs[k]);
            std::fflush(stdout);
            pid_t p = fork();
            if (p == 0) {
                alarm(2);
                fns[f](inputs[k]);
                std::fflush(stdout);
                _exit(0);
            }
            int st = 0;
            waitpid(p, &st, 0);
            std::printf("END %%u %%d %%d\\n", f, inputs[k], (WIFEXITED(st) && WEXITSTATUS(st) == 0) ? 0 : 1);
            std::fflush(stdout);
        }
    return 0;
}
"""


# ------------------------------------------------------------------ statements
class St:
    """kind: 'op' (text, tag), 'obs' (var, what), 'if' (cond, a, b), 'loop' (head, body), 'ret'"""

    def __init__(self, kind, **kw):
        self.kind = kind
        self.__dict__.update(kw)

    def clone(self):
        c = St(self.kind, **{k: v for k, v in self.__dict__.items() if k != "kind"})
        for k in ("a", "b", "body"):
            if hasattr(c, k):
                setattr(c, k, [s.clone() for s in getattr(c, k)])
        return c


def lit(rng, kind):
    return "'%s'" % rng.choice("abc") if KINDS[kind]["string"] else str(rng.choice([1, 1, 2, 3, 7]))


def elem_expr(rng, kind):
    if KINDS[kind]["string"]:
        return lit(rng, kind)
    return rng.choice([lit(rng, kind), lit(rng, kind), "a", "a + 1"])


def gen_decl(rng, kind, name, other=None):
    K = KINDS[kind]
    ty = K["ty"]
    if K.get("array"):
        return St("op", text="%s %s%s;" % (ty, name, rng.choice(["", "{}", " = {1, 2, 3}", "{{1, 2, 3}}"])), tag="decl")
    if K["string"]:
        r = rng.random()
        if r < 0.25:
            return St("op", text="%s %s;" % (ty, name), tag="decl0")
        if r < 0.5:
            return St("op", text='%s %s = "%s";' % (ty, name, rng.choice(["", "a", "abc", "hello"])), tag="declstr")
        if r < 0.7:
            return St("op", text='%s %s("%s");' % (ty, name, rng.choice(["", "xy", "abc"])), tag="declstr")
        if r < 0.85:
            return St("op", text="%s %s(%d, 'x');" % (ty, name, rng.choice([0, 1, 3])), tag="decln")
        return St("op", text='%s %s{"ab"};' % (ty, name), tag="declstr")
    if K.get("mapk"):
        r = rng.random()
        if r < 0.5:
            return St("op", text="%s %s;" % (ty, name), tag="decl0")
        items = [rng.choice([1, 1, 2, 3]) for _ in range(rng.randint(1, 3))]
        return St("op", text="%s %s{%s};" % (ty, name, ", ".join("{%d, 0}" % i for i in items)), tag="declinit")
    r = rng.random()
    if r < 0.35:
        return St("op", text="%s %s;" % (ty, name), tag="decl0")
    if r < 0.7 or K["assoc"]:
        items = [rng.choice([1, 1, 2, 3, 4]) for _ in range(rng.randint(1, 4))]
        return St("op", text="%s %s%s{%s};" % (ty, name, rng.choice(["", " = "]), ", ".join(map(str, items))), tag="declinit")
    if r < 0.85:
        return St("op", text="%s %s(%d);" % (ty, name, rng.choice([0, 1, 2, 4])), tag="decln")
    return St("op", text="%s %s(%d, %s);" % (ty, name, rng.choice([1, 2, 3]), lit(rng, kind)), tag="decln")


def gen_op(rng, kind, c, d):
    """one size-relevant statement on container c (d: a second container of the same kind)"""
    K = KINDS[kind]
    x = elem_expr(rng, kind)
    ops = []
    if K.get("array"):
        ops = [("%s.fill(%s);" % (c, x), "fill"), ("%s[0] = %s;" % (c, x), "index"), ("%s.swap(%s);" % (c, d), "swap"),
               ("%s = %s;" % (c, d), "assign=")]
        return St("op", text=rng.choice(ops)[0], tag="arrayop")
    if K["seq"]:
        ops += [("%s.push_back(%s);" % (c, x), "push_back")] * 4
        ops += [("%s.pop_back();" % c, "pop_back")] * 2
        ops += [("%s.clear();" % c, "clear"), ("%s.resize(%d);" % (c, rng.choice([0, 1, 2, 5])), "resize"),
                ("%s.insert(%s.begin(), %s);" % (c, c, x), "insert"), ("%s.erase(%s.begin());" % (c, c), "erase"),
                ("%s.assign(%d, %s);" % (c, rng.choice([0, 2, 3]), lit(rng, kind)), "assign"),
                ("%s.swap(%s);" % (c, d), "swap"), ("std::swap(%s, %s);" % (c, d), "stdswap"),
                ("%s = %s;" % (c, d), "copyassign"), ("%s = std::move(%s);" % (c, d), "moveassign"),
                ("%s.insert(%s.end(), %s.begin(), %s.end());" % (c, c, d, d), "insertrange")]
        # the other overloads of the size-changing members
        k2 = rng.choice([0, 1, 2, 3])
        ops += [("%s.insert(%s.begin(), %d, %s);" % (c, c, k2, lit(rng, kind)), "insertn"), ("%s.erase(%s.begin(), %s.end());" % (c, c, c), "eraserange"),
                ("%s.assign(%s.begin(), %s.end());" % (c, d, d), "assignrange"), ("%s.resize(%d, %s);" % (c, k2, lit(rng, kind)), "resizefill"),
                ("%s.assign({%s, %s});" % (c, lit(rng, kind), lit(rng, kind)), "assigninitlist"), ("%s.insert(%s.begin(), {%s, %s});" % (c, c, lit(rng, kind), lit(rng, kind)), "insertinit")]
        if K["string"]:
            p0, l0 = rng.choice([0, 0, 1, 2]), rng.choice([0, 1, 2, 9])
            lits = rng.choice(["", "a", "xy", "abc", "hello"])
            ops += [("%s.append(%s, %d);" % (c, d, p0), "append_str_pos")] * 2
            ops += [("%s.append(%s, %d, %d);" % (c, d, p0, l0), "append_str_pos_len"), ('%s.append("%s", %d);' % (c, lits, min(len(lits), l0)), "append_ptr_count"),
                    ("%s.append(%d, 'z');" % (c, k2), "append_count_ch"), ("%s.append(%s.begin(), %s.end());" % (c, d, d), "append_range"),
                    ("%s.append({'p', 'q'});" % c, "append_init"),
                    ("%s.assign(%s, %d);" % (c, d, p0), "assign_str_pos"), ("%s.assign(%s, %d, %d);" % (c, d, p0, l0), "assign_str_pos_len"),
                    ('%s.assign("%s", %d);' % (c, lits, min(len(lits), l0)), "assign_ptr_count"), ('%s.assign("%s");' % (c, lits), "assign_ptr"),
                    ("%s.insert(0, %s);" % (c, d), "insert_idx_str"), ('%s.insert(0, "%s");' % (c, lits), "insert_idx_ptr"), ("%s.insert(0, %d, 'z');" % (c, k2), "insert_idx_count_ch"),
                    ("%s.insert(0, %s, %d, %d);" % (c, d, p0, l0), "insert_idx_str_pos_len"), ('%s.insert(0, "%s", %d);' % (c, lits, min(len(lits), l0)), "insert_idx_ptr_count"),
                    ("%s.erase(0);" % c, "erase_idx"), ("%s.erase(0, %d);" % (c, l0), "erase_idx_len"), ("%s.erase();" % c, "erase_all"),
                    ('%s.replace(0, %d, "%s");' % (c, l0, lits), "replace_ptr"), ("%s.replace(0, %d, %s);" % (c, l0, d), "replace_str"),
                    ("%s.replace(0, %d, %d, 'z');" % (c, l0, k2), "replace_count_ch"), ("%s.replace(0, %d, %s, %d, %d);" % (c, l0, d, p0, l0), "replace_str_pos_len"),
                    ("%s.replace(%s.begin(), %s.begin(), %s);" % (c, c, c, d), "replace_iter_str")]
        if not K["string"]:
            ops += [("%s.emplace_back(%s);" % (c, x), "emplace_back")] * 2
            ops += [("%s.emplace(%s.begin(), %s);" % (c, c, x), "emplace"), ("%s = {%s, %s};" % (c, x, lit(rng, kind)), "assigninit"),
                    ("%s.insert(%s.begin(), 2, %s);" % (c, c, lit(rng, kind)), "insertn")]
        if K["front"]:
            ops += [("%s.push_front(%s);" % (c, x), "push_front"), ("%s.pop_front();" % c, "pop_front"),
                    ("%s.emplace_front(%s);" % (c, x), "emplace_front")]
        if kind == "list":
            ops += [("%s.remove(%s);" % (c, lit(rng, kind)), "remove"), ("%s.unique();" % c, "unique"), ("%s.sort();" % c, "sort"),
                    ("%s.reverse();" % c, "reverse"), ("%s.splice(%s.begin(), %s);" % (c, c, d), "splice")]
        if kind == "vector":
            ops += [("%s.reserve(10);" % c, "reserve"), ("%s.shrink_to_fit();" % c, "shrink_to_fit")]
        if K["string"]:
            s = rng.choice(["", "a", "xy", "abc"])
            ops += [('%s += "%s";' % (c, s), "+=lit")] * 2
            ops += [('%s.append("%s");' % (c, s), "appendlit")] * 2
            ops += [("%s += %s;" % (c, d), "+=str"), ("%s.append(%s);" % (c, d), "appendstr"), ("%s += %s;" % (c, lit(rng, kind)), "+=char"),
                    ('%s = "%s";' % (c, s), "assignlit"), ("%s = %s + %s;" % (c, c, d), "concat"), ('%s = %s + "%s";' % (c, d, s), "concatlit"),
                    ('%s.append(2, \'z\');' % c, "appendn"), ('%s.replace(0, 0, "q");' % c, "replace"), ("%s.erase(0, 1);" % c, "erasepos")]
    if K["assoc"]:
        if K.get("mapk"):
            ops += [("%s.insert({%s, 0});" % (c, x), "insert")] * 3
            ops += [("%s.emplace(%s, 1);" % (c, x), "emplace2"), ("%s[%s] = 1;" % (c, x), "index"), ("%s.insert(std::make_pair(%s, 2));" % (c, x), "insert"),
                    ("%s.try_emplace(%s);" % (c, x), "try_emplace"), ("%s.erase(%s);" % (c, x), "erasekey"), ("%s.clear();" % c, "clear"),
                    ("%s.swap(%s);" % (c, d), "swap"), ("%s = %s;" % (c, d), "copyassign"), ("%s.count(%s);" % (c, x), "count"),
                    ("%s.find(%s);" % (c, x), "find"), ("%s.insert(%s.begin(), %s.end());" % (c, d, d), "insertrange")]
        else:
            ops += [("%s.insert(%s);" % (c, x), "insert")] * 4
            ops += [("%s.emplace(%s);" % (c, x), "emplace")] * 2
            ops += [("%s.erase(%s);" % (c, x), "erasekey"), ("%s.erase(%s.begin());" % (c, c), "erase"), ("%s.clear();" % c, "clear"),
                    ("%s.swap(%s);" % (c, d), "swap"), ("%s = %s;" % (c, d), "copyassign"), ("%s = std::move(%s);" % (c, d), "moveassign"),
                    ("%s.count(%s);" % (c, x), "count"), ("%s.find(%s);" % (c, x), "find"),
                    ("%s.insert(%s.begin(), %s.end());" % (c, d, d), "insertrange"), ("%s.emplace_hint(%s.begin(), %s);" % (c, c, x), "emplace_hint"),
                    ("%s = {%s, %s};" % (c, x, lit(rng, kind)), "assigninit")]
    # by-reference callees (defined per kind in the prelude of the program)
    ops += [("grow_%s(%s);" % (kind, c), "callgrow"), ("peek_%s(%s);" % (kind, c), "callpeek"), ("shrink_%s(%s);" % (kind, c), "callshrink")]
    t, tag = rng.choice(ops)
    return St("op", text=t, tag=tag)


def gen_cond(rng, kind, c):
    K = KINDS[kind]
    cs = ["a > %d" % rng.choice([0, 1, 3]), "a == %d" % rng.choice([0, 1, 2]),
          "%s.empty()" % c, "!%s.empty()" % c,
          "%s.size() == %d" % (c, rng.choice([0, 1, 2, 3])), "%s.size() != %d" % (c, rng.choice([0, 1, 2])),
          "%s.size() > %d" % (c, rng.choice([0, 1, 2])), "%s.size() < %d" % (c, rng.choice([1, 2, 3])),
          "%s.size() >= %d" % (c, rng.choice([1, 2, 3])), "%d < %s.size()" % (rng.choice([0, 1]), c)]
    if K["string"]:
        cs += ['%s == "ab"' % c, '%s == ""' % c, "%s.length() == %d" % (c, rng.choice([0, 2]))]
    return rng.choice(cs)


class Gen:
    def __init__(self, rng):
        self.rng = rng
        self.site = 0

    def obs(self, kind, c):
        self.site += 1
        if KINDS[kind].get("array") or self.rng.random() < 0.7:
            return St("obs", var=c, what="size", id=self.site)
        return St("obs", var=c, what="empty", id=self.site)

    def block(self, kind, depth, n):
        rng = self.rng
        out = []
        for _ in range(n):
            r = rng.random()
            c, d = ("c", "d") if rng.random() < 0.8 else ("d", "c")
            if depth > 0 and r < 0.16:
                out.append(St("if", cond=gen_cond(rng, kind, c), a=self.block(kind, depth - 1, rng.randint(1, 3)),
                              b=self.block(kind, depth - 1, rng.randint(0, 2)) if rng.random() < 0.4 else []))
            elif depth > 0 and r < 0.24:
                head = rng.choice(["for (int i = 0; i < a; i++)", "for (int i = 0; i < %d; i++)" % rng.choice([1, 2, 3]),
                                   "for (int i = 0, m = (int)%s.size(); i < m; i++)" % d])
                out.append(St("loop", head=head, body=self.block(kind, depth - 1, rng.randint(1, 2))))
            elif depth > 0 and r < 0.28 and KINDS[kind]["seq"]:
                out.append(St("loop", head="while (!%s.empty())" % c, body=[St("op", text="%s.pop_back();" % c, tag="pop_back")]))
            elif r < 0.32:
                out.append(St("if", cond=rng.choice(["%s.empty()" % c, "%s.size() > 2" % c, "a > 2"]), a=[St("ret")], b=[]))
            elif r < 0.40 and KINDS[kind]["seq"]:
                # a guarded pop: never undefined
                pop = rng.choice(["pop_back"] + (["pop_front"] if KINDS[kind]["front"] else []))
                out.append(St("if", cond="!%s.empty()" % c, a=[St("op", text="%s.%s();" % (c, pop), tag=pop)], b=[]))
            elif r < 0.45:
                self.site += 1
                out.append(St("op", text="%s e%d = %s;" % (KINDS[kind]["ty"], self.site, c), tag="copyctor"))
                out.append(St("obs", var="e%d" % self.site, what="size", id=self.site))
            else:
                out.append(gen_op(rng, kind, c, d))
            if rng.random() < 0.6:
                out.append(self.obs(kind, rng.choice(["c", "c", "d"])))
        return out

    def function(self, kind):
        rng = self.rng
        body = [gen_decl(rng, kind, "c"), gen_decl(rng, kind, "d")]
        if rng.random() < 0.5:
            body.append(self.obs(kind, "c"))
        body += self.block(kind, 2, rng.randint(2, 6))
        body.append(self.obs(kind, "c"))
        body.append(self.obs(kind, "d"))
        return body


def callees(kind):
    K = KINDS[kind]
    ty = K["ty"]
    if K.get("array"):
        return ("static void grow_%s(%s& r) { r[0] = 1; }\nstatic void peek_%s(const %s& r) { sink(0, r.size()); }\n"
                "static void shrink_%s(%s& r) { r.fill(0); }\n") % (kind, ty, kind, ty, kind, ty)
    if K.get("mapk"):
        g = "r[7] = 1;"
    elif K["assoc"]:
        g = "r.insert(7);"
    elif K["string"]:
        g = "r.push_back('g');"
    else:
        g = "r.push_back(7);"
    return ("static void grow_%s(%s& r) { %s }\nstatic void peek_%s(const %s& r) { sink(0, r.size()); }\n"
            "static void shrink_%s(%s& r) { r.clear(); }\n") % (kind, ty, g, kind, ty, kind, ty)


def pick_kind(rng):
    tot = sum(w for _, w in KIND_WEIGHTS)
    r = rng.random() * tot
    for k, w in KIND_WEIGHTS:
        r -= w
        if r < 0:
            return k
    return "vector"


# ------------------------------------------------------------------ rendering
def render(functions):
    """functions: list of (kind, body). Returns (text, sites) with sites[id] = (line, var, what, fn index)."""
    lines = PRELUDE.rstrip("\n").split("\n")
    for k in sorted(set(k for k, _ in functions)):
        lines += callees(k).rstrip("\n").split("\n")
    sites = {}

    def emit(stmts, ind, fi):
        for s in stmts:
            pad = "  " * ind
            if s.kind == "op":
                lines.append(pad + s.text)
            elif s.kind == "ret":
                lines.append(pad + "return;")
            elif s.kind == "obs":
                if s.what == "size":
                    lines.append(pad + "sink(%d, %s.size());" % (s.id, s.var))
                else:
                    lines.append(pad + "sinkb(%d, %s.empty());" % (s.id, s.var))
                sites[s.id] = (len(lines), s.var, s.what, fi)
            elif s.kind == "if":
                lines.append(pad + "if (%s) {" % s.cond)
                emit(s.a, ind + 1, fi)
                if s.b:
                    lines.append(pad + "} else {")
                    emit(s.b, ind + 1, fi)
                lines.append(pad + "}")
            elif s.kind == "loop":
                lines.append(pad + s.head + " {")
                emit(s.body, ind + 1, fi)
                lines.append(pad + "}")

    for fi, (kind, body) in enumerate(functions):
        lines.append("void f%d(int a) {" % fi)
        emit(body, 1, fi)
        lines.append("}")
    return "\n".join(lines) + "\n", sites


def renumber(body, start=1):
    """fresh site ids for a (cloned) body"""
    n = [start]

    def go(stmts):
        for s in stmts:
            if s.kind == "obs":
                s.id = n[0]
                n[0] += 1
            for k in ("a", "b", "body"):
                if hasattr(s, k):
                    go(getattr(s, k))
    go(body)
    return n[0]


# ------------------------------------------------------------------ the real binary
def dump_facts(path, sites, extra_args=()):
    """run the real binary with --dump; returns facts[site id] = list of (kind, bound, int, where) with kind in K/I"""
    try:
        os.remove(path + ".dump")
    except OSError:
        pass
    rc, o, _ = vlib.sh([vlib.CPPCHECK, "--dump", "--quiet", "--library=std", "--std=c++17"] + list(extra_args) + [path], timeout=1800)
    if not os.path.exists(path + ".dump"):
        raise vlib.BuildError("cppcheck --dump produced no dump: " + o[-500:])
    cfgs = dumpparse.parse_dump(path + ".dump")
    if not cfgs:
        raise vlib.BuildError("dump without configuration: " + o[-300:])
    toks = cfgs[0]["tokens"]
    byline = {}
    for i, t in enumerate(toks):
        byline.setdefault(t.line, []).append(i)
    facts = {}
    stats = {"known_nonpoint": 0, "values": 0}
    for sid, (line, var, what, fi) in sites.items():
        fl = []
        idx = byline.get(line, [])
        for i in idx:
            t = toks[i]
            if t.str == var and i + 3 < len(toks) and toks[i + 1].str == "." and toks[i + 2].str in ("size", "empty") and toks[i + 3].str == "(":
                for where, tok, attr in (("container", t, "container-size"), ("call", toks[i + 3], "intvalue")):
                    for v in tok.values:
                        if attr not in v or v.get("path", "0") != "0":
                            continue
                        k = "K" if v.get("known") == "true" else "I" if v.get("impossible") == "true" else None
                        if k is None or v.get("inconclusive"):
                            continue
                        b = {"Point": "P", "Upper": "U", "Lower": "L"}[v.get("bound", "Point")]
                        stats["values"] += 1
                        if k == "K" and b != "P":
                            stats["known_nonpoint"] += 1
                        fl.append((k, b, int(v[attr]), where))
        facts[sid] = fl
    return facts, stats


def compile_and_run(workdir, prog_name, nfun, inputs=INPUTS, sanitize=True):
    """compile prog with the tracing main and run every (function, input) in a forked child.
    returns obs[(fn, input)] = None if the execution was not clean else list of (site, what, value)"""
    main = os.path.join(workdir, "main_" + prog_name)
    open(main, "w").write(MAIN % (prog_name, ", ".join("f%d" % i for i in range(nfun)), ", ".join(map(str, inputs))))
    exe = os.path.join(workdir, "run_" + prog_name + ".exe")
    flags = ["-std=c++17", "-O0", "-w", "-D_GLIBCXX_DEBUG"] + (["-fsanitize=address,undefined", "-fno-sanitize-recover=all"] if sanitize else [])
    rc, o, dt = vlib.sh(["g++"] + flags + [main, "-o", exe], timeout=1800)
    if rc != 0:
        raise CompileError(o)
    p = subprocess.run([exe], stdout=subprocess.PIPE, stderr=subprocess.DEVNULL, timeout=1800,
                       env=dict(os.environ, ASAN_OPTIONS="detect_leaks=0:abort_on_error=0", UBSAN_OPTIONS="print_stacktrace=0"))
    obs, cur, key = {}, None, None
    for ln in p.stdout.decode("latin-1").split("\n"):
        f = ln.split()
        if not f:
            continue
        if f[0] == "RUN":
            key, cur = (int(f[1]), int(f[2])), []
        elif f[0] in ("S", "B") and cur is not None and len(f) == 3:
            cur.append((int(f[1]), "size" if f[0] == "S" else "empty", int(f[2])))
        elif f[0] == "END":
            obs[(int(f[1]), int(f[2]))] = cur if f[3] == "0" else None
            cur = None
    return obs, dt


class CompileError(Exception):
    pass


def contradictions(facts, sites, obs, holds):
    """holds(n, kind, bound, i) -> bool (the model's `holds`). Returns list of (site, fact, fn, input, observed)."""
    bad = []
    for (fn, inp), tr in obs.items():
        if tr is None:
            continue
        for sid, what, val in tr:
            if sid == 0 or sid not in sites:
                continue
            for (k, b, i, where) in facts.get(sid, []):
                # the container token carries the size; the call token carries size() or empty()
                if where == "container":
                    if what == "size":
                        x = val
                    else:
                        # only emptiness was observed: decide what can be decided
                        if val == 1:
                            x = 0
                        else:
                            if k == "K" and b == "P" and i == 0:
                                bad.append((sid, (k, b, i, where), fn, inp, "non-empty"))
                            continue
                else:
                    x = val
                if not holds(x, k, b, i):
                    bad.append((sid, (k, b, i, where), fn, inp, val))
    return bad


def body_text(kind, body):
    return render([(kind, body)])[0]


# ------------------------------------------------------------------ one call per table row
# index = kind_idx of Cont/Defs.v
ROW_KINDS = [
    dict(name="vector", cid="stdVector", ty="std::vector<int>", grow="c.push_back(%d);", size="c.size()"),
    dict(name="deque", cid="stdDeque", ty="std::deque<int>", grow="c.push_back(%d);", size="c.size()"),
    dict(name="list", cid="stdList", ty="std::list<int>", grow="c.push_back(%d);", size="c.size()"),
    dict(name="forward_list", cid="stdList", ty="std::forward_list<int>", grow="c.push_front(10 - %d);", size="(unsigned long)std::distance(c.begin(), c.end())"),
    dict(name="string", cid="stdString", ty="std::string", grow="c.push_back('a' + %d);", size="c.size()"),
    dict(name="array", cid="stdArray", ty="std::array<int, 3>", grow=None, size="c.size()"),
    dict(name="set", cid="stdSet", ty="std::set<int>", grow="c.insert(%d);", size="c.size()"),
    dict(name="multiset", cid="stdMultiSet", ty="std::multiset<int>", grow="c.insert(%d);", size="c.size()"),
    dict(name="map", cid="stdMap", ty="std::map<int, int>", grow="c.insert(std::make_pair(%d, 0));", size="c.size()"),
    dict(name="multimap", cid="stdMultiMap", ty="std::multimap<int, int>", grow="c.insert(std::make_pair(%d, 0));", size="c.size()"),
    dict(name="queue", cid="stdQueue", ty="std::queue<int>", grow="c.push(%d);", size="c.size()"),
    dict(name="stack", cid="stdStack", ty="std::stack<int>", grow="c.push(%d);", size="c.size()"),
]

_SEQ = {
    "resize": ["5", "1", "0", "4, 9"], "clear": [""], "size": [""], "empty": [""], "erase": ["c.begin()", "c.begin(), c.end()"],
    "insert": ["c.begin(), 9", "c.begin(), 2, 9", "c.end(), d.begin(), d.end()"], "emplace": ["c.begin(), 9", "c.begin()"],
    "swap": ["d"], "assign": ["2, 9", "d.begin(), d.end()"], "begin": [""], "cbegin": [""], "rbegin": [""], "crbegin": [""],
    "end": [""], "cend": [""], "rend": [""], "crend": [""], "push_back": ["9"], "emplace_back": ["9", ""], "pop_back": [""],
    "front": [""], "back": [""], "max_size": [""],
}
_E = "'q'"
ROW_TEMPLATES = {
    "vector": dict(_SEQ, at=["0"], data=[""], shrink_to_fit=[""], reserve=["10"]),
    "deque": dict(_SEQ, at=["0"], shrink_to_fit=[""], push_front=["9"], emplace_front=["9", ""], pop_front=[""]),
    "list": dict(_SEQ, push_front=["9"], emplace_front=["9"], pop_front=[""], remove=["1"], remove_if=["[](int x) { return x > 1; }"],
                 unique=[""], merge=["d"], splice=["c.begin(), d", "c.begin(), d, d.begin()"], reverse=[""], sort=[""]),
    "forward_list": {"resize": ["5", "0"], "clear": [""], "empty": [""], "swap": ["d"], "assign": ["2, 9"], "begin": [""], "cbegin": [""],
                     "end": [""], "cend": [""], "push_front": ["9"], "emplace_front": ["9", ""], "pop_front": [""], "front": [""],
                     "max_size": [""], "emplace_after": ["c.before_begin(), 9", "c.before_begin()"], "erase_after": ["c.before_begin()"],
                     "insert_after": ["c.before_begin(), 9", "c.before_begin(), 2, 9"], "remove": ["1"],
                     "remove_if": ["[](int x) { return x > 1; }"], "unique": [""], "merge": ["d"], "splice_after": ["c.before_begin(), d"],
                     "before_begin": [""], "cbefore_begin": [""], "reverse": [""], "sort": [""]},
    "string": {"resize": ["5", "1", "4, 'z'"], "clear": [""], "size": [""], "empty": [""], "erase": ["", "0", "0, 1"],
               "insert": ["0, \"zz\"", "0, 2, 'z'", "c.begin(), 'z'"], "swap": ["d"], "assign": ["\"zz\"", "2, 'z'"], "begin": [""], "cbegin": [""],
               "rbegin": [""], "crbegin": [""], "end": [""], "cend": [""], "rend": [""], "crend": [""], "push_back": [_E], "pop_back": [""],
               "append": ["\"xyz\"", "\"\"", "d", "2, 'z'", "\"xyz\", 2", "\"ab\\0cd\""], "replace": ["0, 0, \"zz\"", "0, 0, 2, 'z'"], "reserve": ["10"],
               "shrink_to_fit": [""], "length": [""], "at": ["0"], "front": [""], "back": [""], "data": [""], "c_str": [""],
               "find": ["\"a\"", "'a'", "\"a\", 0"], "rfind": ["\"a\""], "find_last_of": ["\"a\""], "find_last_not_of": ["\"a\""],
               "find_first_of": ["\"a\""], "find_first_not_of": ["\"a\""], "max_size": [""]},
    "array": {"size": [""], "empty": [""], "swap": ["d"], "begin": [""], "cbegin": [""], "rbegin": [""], "crbegin": [""], "end": [""], "cend": [""],
              "rend": [""], "crend": [""], "max_size": [""], "at": ["0"], "front": [""], "back": [""], "data": [""], "fill": ["9"]},
}
_ASSOC = {"clear": [""], "size": [""], "empty": [""], "erase": ["1", "c.begin()"], "swap": ["d"], "begin": [""], "cbegin": [""], "rbegin": [""],
          "crbegin": [""], "end": [""], "cend": [""], "rend": [""], "crend": [""], "max_size": [""], "find": ["1"], "count": ["1"],
          "lower_bound": ["1"], "upper_bound": ["1"]}
ROW_TEMPLATES["set"] = dict(_ASSOC, insert=["1", "9", "c.begin(), 1", "d.begin(), d.end()"], emplace=["1", "9", ""], emplace_hint=["c.begin(), 1", "c.begin(), 9", "c.begin()"])
ROW_TEMPLATES["multiset"] = dict(ROW_TEMPLATES["set"])
ROW_TEMPLATES["map"] = dict(_ASSOC, insert=["std::make_pair(1, 5)", "std::make_pair(9, 5)", "c.begin(), std::make_pair(1, 5)", "d.begin(), d.end()"],
                            emplace=["1, 5", "9, 5", "std::make_pair(1, 5)", ""], emplace_hint=["c.begin(), 1, 5", "c.begin(), 9, 5", "c.begin(), std::make_pair(1, 5)"],
                            try_emplace=["1", "9", "1, 5", "9, 5"], insert_or_assign=["1, 5", "9, 5", "c.begin(), 1, 5"], at=["1"])
ROW_TEMPLATES["multimap"] = dict(_ASSOC, insert=["std::make_pair(1, 5)", "c.begin(), std::make_pair(1, 5)", "d.begin(), d.end()"],
                                 emplace=["1, 5", "std::make_pair(1, 5)", ""], emplace_hint=["c.begin(), 1, 5", "c.begin(), std::make_pair(1, 5)"])
ROW_TEMPLATES["queue"] = {"size": [""], "empty": [""], "swap": ["d"], "push": ["9"], "emplace": ["9", ""], "pop": [""], "front": [""], "back": [""]}
ROW_TEMPLATES["stack"] = {"size": [""], "empty": [""], "swap": ["d"], "push": ["9"], "emplace": ["9", ""], "pop": [""], "top": [""]}


# overload sets of the size-changing members (C++17), with the model's descriptor:
# lead: ("n",) | ("i", pos) | ("l", pos, len) | ("t",) | ("p", dist)   ("N" stands for the initial size)
# src:  ("n",) | ("c", count) | ("k", count) | ("e",) | ("s", strlen) | ("q", count) | ("S", m) | ("P", m, pos) | ("L", m, pos, len) | ("r", m) | ("I", m)
# d always holds 3 elements
_N, _T = ("n",), ("t",)
_STR_SRC = [('d', ("S", 3)), ('"xyz"', ("s", 3)), ('"ab\\0cd"', ("s", 2)), ("2, 'z'", ("k", 2)), ("0, 'z'", ("k", 0)), ('"xyz", 2', ("q", 2)),
            ("d, 1", ("P", 3, 1)), ("d, 0", ("P", 3, 0)), ("d, 3", ("P", 3, 3)), ("d, 1, 1", ("L", 3, 1, 1)), ("d, 0, 9", ("L", 3, 0, 9)), ("d, 2, 0", ("L", 3, 2, 0))]
_STR_SRC_NOIDX = [("d.begin(), d.end()", ("r", 3)), ("{'p', 'q'}", ("I", 2))]
OV_TEMPLATES = {"string": []}
for a, sdesc in _STR_SRC + _STR_SRC_NOIDX:
    OV_TEMPLATES["string"].append(("append", a, _N, sdesc))
    OV_TEMPLATES["string"].append(("assign", a, _N, sdesc))
for a, sdesc in _STR_SRC:
    OV_TEMPLATES["string"].append(("insert", "0, " + a, ("i", 0), sdesc))
    OV_TEMPLATES["string"].append(("replace", "0, 0, " + a, ("l", 0, 0), sdesc))
    if sdesc[0] in "SsqkP" and not (sdesc[0] == "P"):
        OV_TEMPLATES["string"].append(("replace", "c.begin(), c.begin(), " + a, ("p", 0), sdesc))
OV_TEMPLATES["string"] += [
    ("insert", "c.begin(), 'z'", _T, ("e",)), ("insert", "c.begin(), 2, 'z'", _T, ("k", 2)), ("insert", "c.end(), d.begin(), d.end()", _T, ("r", 3)),
    ("insert", "c.begin(), {'p', 'q'}", _T, ("I", 2)),
    ("replace", "c.begin(), c.begin(), d.begin(), d.end()", ("p", 0), ("r", 3)), ("replace", "c.begin(), c.end(), {'p'}", ("p", "N"), ("I", 1)),
    ("replace", "0, 1, d", ("l", 0, 1), ("S", 3)),
    ("erase", "", _N, _N), ("erase", "0", ("i", 0), _N), ("erase", "0, 1", ("l", 0, 1), _N), ("erase", "c.begin()", _T, _N),
    ("erase", "c.begin(), c.end()", ("p", "N"), _N), ("erase", "c.begin(), c.begin()", ("p", 0), _N),
    ("resize", "5", _N, ("c", 5)), ("resize", "0", _N, ("c", 0)), ("resize", "4, 'z'", _N, ("k", 4)),
    ("push_back", "'q'", _N, ("e",)), ("pop_back", "", _N, _N), ("clear", "", _N, _N),
]
for _k in ("vector", "deque", "list"):
    OV_TEMPLATES[_k] = [
        ("assign", "2, 9", _N, ("k", 2)), ("assign", "0, 9", _N, ("k", 0)), ("assign", "d.begin(), d.end()", _N, ("r", 3)), ("assign", "{7, 8}", _N, ("I", 2)),
        ("insert", "c.begin(), 9", _T, ("e",)), ("insert", "c.begin(), 2, 9", _T, ("k", 2)), ("insert", "c.begin(), 0, 9", _T, ("k", 0)),
        ("insert", "c.end(), d.begin(), d.end()", _T, ("r", 3)), ("insert", "c.begin(), {7, 8}", _T, ("I", 2)),
        ("erase", "c.begin()", _T, _N), ("erase", "c.begin(), c.end()", ("p", "N"), _N), ("erase", "c.begin(), c.begin()", ("p", 0), _N),
        ("resize", "5", _N, ("c", 5)), ("resize", "0", _N, ("c", 0)), ("resize", "4, 9", _N, ("k", 4)),
        ("push_back", "9", _N, ("e",)), ("pop_back", "", _N, _N), ("clear", "", _N, _N),
    ]
OV_TEMPLATES["deque"] += [("push_front", "9", _N, ("e",)), ("pop_front", "", _N, _N)]
OV_TEMPLATES["list"] += [("push_front", "9", _N, ("e",)), ("pop_front", "", _N, _N)]


def ov_fields(ov, n0):
    """the nine fields of the model's `effov` after kind and member"""
    lead, src = ov
    num = lambda x: str(n0 if x == "N" else x)
    l = [lead[0]] + [num(x) for x in lead[1:]] + ["0"] * (3 - len(lead))
    s = [src[0]] + [num(x) for x in src[1:]] + ["0"] * (4 - len(src))
    return l + s

ROW_PRELUDE = PRELUDE + "#include <forward_list>\n#include <queue>\n#include <stack>\n#include <iterator>\n"


def count_args(s):
    s = s.strip()
    if not s:
        return 0
    depth, n, instr = 0, 1, None
    i = 0
    while i < len(s):
        ch = s[i]
        if instr:
            if ch == "\\":
                i += 1
            elif ch == instr:
                instr = None
        elif ch in "\"'":
            instr = ch
        elif ch in "([{":
            depth += 1
        elif ch in ")]}":
            depth -= 1
        elif ch == "," and depth == 0:
            n += 1
        i += 1
    return n


def c_strlen(arg):
    """length of the appended argument when it is a string literal (C semantics: up to the first NUL)"""
    m = re.match(r'^"((?:[^"\\]|\\.)*)"$', arg.strip())
    if not m:
        return None
    body = m.group(1)
    out, i = 0, 0
    while i < len(body):
        if body[i] == "\\":
            if body[i + 1] == "0":
                return out
            i += 2
        else:
            i += 1
        out += 1
    return out


def row_programs(n0s=(0, 1, 3)):
    """every (kind, member, argument template, initial size): returns (text, rows) where
    rows[k] = dict(kind index, member, args, nargs, n0, before site, after site, fn index)"""
    lines = ROW_PRELUDE.rstrip("\n").split("\n")
    rows, sites = [], {}
    sid = 0
    for ki, K in enumerate(ROW_KINDS):
        tl = [(meth, args, None) for meth, tmpls in sorted(ROW_TEMPLATES[K["name"]].items()) for args in tmpls]
        tl += [(meth, args, (lead, src)) for (meth, args, lead, src) in OV_TEMPLATES.get(K["name"], [])]
        for meth, args, ov in tl:
            if True:
                for n0 in (n0s if K["grow"] else (3,)):
                    fi = len(rows)
                    lines.append("void f%d(int a) {" % fi)
                    lines.append("  %s c%s;" % (K["ty"], "" if K["grow"] else "{}"))
                    lines.append("  %s d%s;" % (K["ty"], "" if K["grow"] else "{}"))
                    if K["grow"]:
                        for j in range(n0):
                            lines.append("  " + K["grow"] % (j + 1))
                        for j in (4, 5, 6):
                            lines.append("  " + (K["grow"] % j).replace("c.", "d."))
                    sid += 1
                    lines.append("  sinkb(%d, c.empty());" % sid)
                    before = sid
                    sites[sid] = (len(lines), "c", "empty", fi)
                    lines.append("  sink(%d, %s);" % (sid, K["size"]))
                    lines.append("  c.%s(%s);" % (meth, args))
                    sid += 1
                    lines.append("  sinkb(%d, c.empty());" % sid)
                    sites[sid] = (len(lines), "c", "empty", fi)
                    lines.append("  sink(%d, %s);" % (sid, K["size"]))
                    lines.append("}")
                    rows.append(dict(kind=ki, kname=K["name"], cid=K["cid"], meth=meth, args=args, nargs=count_args(args), n0=n0,
                                     before=before, after=sid, fn=fi, ov=ov))
    return "\n".join(lines) + "\n", rows, sites


def variadic_functions(repo):
    """names of the <function> entries of cfg/std.cfg that have <arg nr="variadic">"""
    import xml.etree.ElementTree as ET
    out = set()
    for fn in ET.parse(os.path.join(repo, "cfg", "std.cfg")).getroot().iter("function"):
        if fn.get("name") and any(a.get("nr") == "variadic" for a in fn.findall("arg")):
            out.update(x.strip() for x in fn.get("name").split(","))
    return out


# ------------------------------------------------------------------ fixed corpus (shapes the generator has no kind for)
CORPUS = [
    ("nested-brace-init:vector-of-aggregates", "std::vector<std::pair<int, int>> c{{1, 0}};"),
    ("nested-brace-init:vector-of-aggregates", "std::vector<std::vector<int>> c{{1, 0}};"),
    ("nested-brace-init:stdMap", "std::map<int, int> c{{1, 0}};"),
    ("initlist-duplicate-keys:stdSet", "std::set<int> c{1, 1};"),
    ("initlist-duplicate-keys:stdSet", "std::set<int> c{a, 1};"),
    ("initlist-duplicate-keys:stdSet", "std::set<int> c; c = {a, 1};"),
    ("corpus:vector-nested-int", "std::vector<int> c{{1, 0}};"),
    ("corpus:vector-init", "std::vector<int> c{1, 1, 2};"),
    ("corpus:multiset-init", "std::multiset<int> c{1, 1};"),
]


def corpus_program():
    lines = PRELUDE.rstrip("\n").split("\n")
    sites, keys = {}, {}
    for i, (key, decl) in enumerate(CORPUS):
        lines.append("void f%d(int a) {" % i)
        lines.append("  " + decl)
        lines.append("  sink(%d, c.size());" % (i + 1))
        sites[i + 1] = (len(lines), "c", "size", i)
        keys[i] = (key, decl)
        lines.append("}")
    return "\n".join(lines) + "\n", sites, keys
