"""Shared by C03/C04: run the real binary on a generated C file (XML findings), compile and run the
same program with gcc + sanitizers.  No decisions here."""
import os
import re
import subprocess
import time
import sys
import xml.etree.ElementTree as ET

sys.path.insert(0, os.path.dirname(os.path.dirname(os.path.abspath(__file__))))
import vlib


class Finding:
    __slots__ = ("id", "severity", "msg", "inconclusive", "locs")

    def __init__(self, id, severity, msg, inconclusive, locs):
        self.id, self.severity, self.msg, self.inconclusive, self.locs = id, severity, msg, inconclusive, locs

    @property
    def line(self):
        return self.locs[0][0] if self.locs else 0

    @property
    def col(self):
        return self.locs[0][1] if self.locs else 0

    def show(self):
        return "%s:%s:%s%s:%s" % (self.line, self.col, self.severity, "(inconclusive)" if self.inconclusive else "", self.id) + ": " + self.msg


def cppcheck_findings(path, platform="unix64", enable="style,warning", inconclusive=True, extra=(), timeout=1800):
    """findings of the real binary on one file; locations = [(line, column, info)], primary first"""
    cmd = [vlib.CPPCHECK, "--enable=" + enable, "--platform=" + platform, "--xml", "--quiet",
           "--suppress=missingIncludeSystem", "--suppress=unusedFunction", "--suppress=checkersReport"]
    if inconclusive:
        cmd.append("--inconclusive")
    cmd += list(extra) + [path]
    txt, i, p = "", -1, None
    for attempt in range(40):
        # the shared binary may be relinked by a concurrent check: retry while it is missing / busy / half written
        try:
            p = subprocess.run(cmd, stdout=subprocess.PIPE, stderr=subprocess.PIPE, timeout=timeout)
        except (PermissionError, FileNotFoundError, OSError):
            time.sleep(3)
            continue
        txt = p.stderr.decode("utf-8", "replace")
        i = txt.find("<?xml")
        if i >= 0 and p.returncode in (0, 1):
            break
        time.sleep(3)
    if i < 0:
        raise vlib.BuildError("cppcheck produced no XML (rc=%s): %s" % (p.returncode, txt[-600:]))
    try:
        root = ET.fromstring(txt[i:])
    except ET.ParseError as e:
        raise vlib.BuildError("cppcheck XML unreadable: %s: %s" % (e, txt[-600:]))
    res = []
    for e in root.iter("error"):
        locs = [(int(l.get("line", "0")), int(l.get("column", "0")), l.get("info") or "") for l in e.findall("location")]
        res.append(Finding(e.get("id"), e.get("severity"), e.get("msg") or "", e.get("inconclusive") == "true", locs))
    return res


def verdict_of_msg(msg):
    m = re.search(r"always (?:evaluates to )?(true|false)", msg)
    if m:
        return m.group(1) == "true"
    return None


def gcc_build(src, exe, flags=("-fsanitize=undefined",), opt="-O1", timeout=600):
    cmd = ["gcc", "-std=gnu11", "-w", opt, "-g0"] + list(flags) + [src, "-o", exe]
    rc, out, dt = vlib.sh(cmd, timeout=timeout)
    if rc != 0:
        raise vlib.BuildError("gcc failed on generated program %s:\n%s" % (src, out[-3000:]))
    return dt


def run_exe(exe, args=(), timeout=600, env=None):
    e = dict(os.environ)
    e.update({"UBSAN_OPTIONS": "print_stacktrace=0:halt_on_error=0", "ASAN_OPTIONS": "detect_leaks=1:halt_on_error=1:exitcode=99",
              "LSAN_OPTIONS": "exitcode=98"})
    if env:
        e.update(env)
    try:
        p = subprocess.run([exe] + list(args), stdout=subprocess.PIPE, stderr=subprocess.PIPE, timeout=timeout, env=e)
        return p.returncode, p.stdout.decode("latin-1"), p.stderr.decode("latin-1")
    except subprocess.TimeoutExpired as ex:
        return 124, (ex.stdout or b"").decode("latin-1"), "[timeout]"
