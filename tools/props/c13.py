#!/usr/bin/env python3
"""C13  Any input is handled without crash, memory error or hang -- the part that is logic.

translate:  tools/translate/funnel.py (catch clauses of CppCheck::checkInternal / checkClang,
            bases of InternalError / TerminateException -> Robust/Gen_Funnel.v)
prove:      coq/theories/Properties_C13.v (createLinks: no top() of an empty stack, = one-stack
            algorithm, accepts exactly the well-bracketed lists, links every bracket once,
            rejects at a token of the list; documented exception classes end as findings)
correspond: extracted model (Robust/Run.v) vs harness/vh_c13.cpp calling the real
            Tokenizer::createLinks on the token list built by the real lexer
search:     the same token lists through the whole front end (Tokenizer::simplifyTokens1) and
            through the cppcheck binary with the documented option sets; the shipped
            fuzz-crash / fuzz-timeout corpora and a fixed family of byte-level mutants of them.
            A crash (signal), a hang (CPU limit) or an unbalanced input not reported as a
            finding is the failing input.  These runs are tests: they support the search and
            the validation of the model, the claim is the theorems.
"""
import hashlib
import os
import random
import resource
import shutil
import subprocess
import sys
import tempfile
from concurrent.futures import ThreadPoolExecutor

sys.path.insert(0, os.path.dirname(os.path.dirname(os.path.abspath(__file__))))
import vlib
from translate import funnel as T_funnel

PID = "C13"
FAMILY_SEED = "C13-family-v1"          # fixed: see DESIGN.md 9a (streams where no theorem rules out a failure)
OPEN = {b"(": b")", b"{": b"}", b"[": b"]"}
BR = [b"(", b")", b"{", b"}", b"[", b"]"]
OTHER = [b"x", b";", b"1", b",", b"=", b'"("', b"'}'", b"if", b"y", b"+", b"int", b"f", b"return"]
SMALL = BR + [b"x"]
CPU_LIMIT = 60                           # seconds of CPU time for one run of the binary on a small file


# ------------------------------------------------------------------ generators
def gen_bal(rng, depth, budget):
    out = []
    n = rng.randint(0, 4)
    for _ in range(n):
        if budget[0] <= 0:
            break
        if depth > 0 and rng.random() < 0.45:
            o = rng.choice(list(OPEN))
            budget[0] -= 2
            out += [o] + gen_bal(rng, depth - 1, budget) + [OPEN[o]]
        else:
            budget[0] -= 1
            out.append(rng.choice(OTHER))
    return out


def mutate(rng, toks):
    toks = list(toks)
    k = rng.choice(["del", "ins", "kind", "swap", "trunc", "none"])
    if not toks or k == "none":
        return toks
    i = rng.randrange(len(toks))
    if k == "del":
        br = [j for j, t in enumerate(toks) if t in BR]
        if br:
            del toks[rng.choice(br)]
    elif k == "ins":
        toks.insert(i, rng.choice(BR))
    elif k == "kind":
        br = [j for j, t in enumerate(toks) if t in BR]
        if br:
            j = rng.choice(br)
            toks[j] = rng.choice([b for b in BR if (b in OPEN) == (toks[j] in OPEN)])
    elif k == "swap" and len(toks) > 1:
        i = rng.randrange(len(toks) - 1)
        toks[i], toks[i + 1] = toks[i + 1], toks[i]
    elif k == "trunc":
        toks = toks[:i]
    return toks


def gen_tokens(rng):
    r = rng.random()
    if r < 0.15:
        return [rng.choice(BR + OTHER) for _ in range(rng.randint(0, 10))]
    t = gen_bal(rng, 4, [rng.randint(2, 24)])
    for _ in range(rng.choice([0, 0, 1, 1, 1, 2])):
        t = mutate(rng, t)
    return t


VTOK = BR + [b"<", b">", b">>", b"x", b";", b"1"]


def gen_validate_case(rng):
    """(token, link) pairs: the links a matcher would set, then 0-2 damages"""
    toks = gen_tokens(rng) if rng.random() < 0.6 else [rng.choice(VTOK) for _ in range(rng.randint(0, 9))]
    toks = [b";" if t in (b"=", b"+") else t for t in toks]        # the lexer joins `>> =` into `>>=`
    toks = [rng.choice([b"<", b">", b">>"]) if (t not in BR and rng.random() < 0.15) else t for t in toks]
    links = [None] * len(toks)
    st = []
    for i, t in enumerate(toks):
        if t in (b"(", b"{", b"[") or (t == b"<" and rng.random() < 0.7):
            st.append(i)
        elif (t in (b")", b"}", b"]") or t in (b">", b">>")) and st and rng.random() < 0.9:
            o = st.pop()
            links[o], links[i] = i, o
    n = len(toks)
    for _ in range(rng.choice([0, 0, 1, 1, 2])):
        if not n:
            break
        i = rng.randrange(n)
        k = rng.randrange(4)
        if k == 0:
            links[i] = None
        elif k == 1:
            links[i] = rng.randrange(n)
        elif k == 2 and n > 1:
            j = rng.randrange(n)
            links[i], links[j] = links[j], links[i]
        else:
            j = rng.randrange(n)
            links[i], links[j] = j, i
    out = []
    for t, l in zip(toks, links):
        out += [t, b"-" if l is None else str(l).encode()]
    return out


def exhaustive(n):
    cur = [[]]
    out = [[]]
    for _ in range(n):
        cur = [c + [s] for c in cur for s in SMALL]
        out += cur
    return out


# C-like programs whose bracket structure is the interesting part
STMTS = [b"int x = 1 ;", b"x = f ( x , 2 ) ;", b"if ( x ) { x = a [ 1 ] ; }", b"while ( x < 3 ) { x ++ ; }",
         b"int a [ 3 ] = { 1 , 2 , 3 } ;", b"return x ;", b"y = ( x + 1 ) * ( x - 1 ) ;", b"for ( ; ; ) { break ; }",
         b"struct S { int m ; } s ;", b"s . m = a [ f ( 0 ) ] ;", b"char * p = \"(\" ;", b"char c = '}' ;"]


def gen_program(rng):
    body = []
    for _ in range(rng.randint(1, 5)):
        body += rng.choice(STMTS).split()
    toks = b"int f ( int a0 ) {".split() + body + [b"}"]
    for _ in range(rng.choice([0, 1, 1, 2])):
        toks = mutate(rng, toks)
    return toks


# ------------------------------------------------------------------ the binary
def limits():
    resource.setrlimit(resource.RLIMIT_CPU, (CPU_LIMIT, CPU_LIMIT + 5))
    resource.setrlimit(resource.RLIMIT_CORE, (0, 0))
    resource.setrlimit(resource.RLIMIT_AS, (8 << 30, 8 << 30))


OPTSETS = {
    "default": [],
    "all": ["--enable=all", "--inconclusive"],
    "exhaustive": ["--enable=all", "--inconclusive", "--check-level=exhaustive"],
    "defs": ["--enable=all", "-DA", "-DB=1", "-UC"],
}


def run_binary(path, lang, optset):
    cmd = [vlib.CPPCHECK, "-q", "--language=" + lang, "--template={id}", "--suppress=missingIncludeSystem"] + OPTSETS[optset] + [os.path.basename(path)]
    # limits through the shell (no preexec_fn: a fork of this multi-threaded process per run is slow)
    cmd = ["sh", "-c", "ulimit -t %d; ulimit -c 0; ulimit -v %d; exec \"$@\"" % (CPU_LIMIT, 8 << 20), "sh"] + cmd
    for attempt in range(3):
        try:
            p = subprocess.run(cmd, cwd=os.path.dirname(path), stdout=subprocess.PIPE, stderr=subprocess.PIPE,
                               timeout=CPU_LIMIT * 20)
            break
        except subprocess.TimeoutExpired:
            return {"rc": None, "why": "wall-clock limit %ds" % (CPU_LIMIT * 20), "ids": set(), "stderr": ""}
        except OSError:          # binary being relinked by a concurrent check
            import time
            time.sleep(3)
    else:
        raise vlib.BuildError("cannot execute " + vlib.CPPCHECK)
    err = p.stderr.decode("latin-1")
    ids = set(l.strip() for l in err.split("\n") if l.strip() and " " not in l.strip())
    return {"rc": p.returncode, "ids": ids, "stderr": err[-600:], "why": ""}


def verdict(res):
    """None if the run ended the way the property demands, else what went wrong"""
    rc = res["rc"]
    if rc is None:
        return res["why"]
    if rc < 0:
        import signal
        try:
            name = signal.Signals(-rc).name
        except ValueError:
            name = str(-rc)
        return ("CPU limit %ds (hang)" % CPU_LIMIT) if name in ("SIGXCPU", "SIGKILL") else "killed by " + name
    if rc != 0:
        return "exit status %d" % rc
    return None


def e2e(run, stream, items, scratch, need_syntax=None):
    """items: [(name, bytes, lang, optset)]; need_syntax: names whose run must report syntaxError"""
    need_syntax = need_syntax or {}
    paths = []
    for k, (name, data, lang, opt) in enumerate(items):
        d = os.path.join(scratch, "%s_%d" % (stream, k))
        os.makedirs(d, exist_ok=True)
        p = os.path.join(d, "t.cpp" if lang == "c++" else "t.c")
        with open(p, "wb") as f:
            f.write(data)
        paths.append(p)
    # in batches: once a stream has shown several failing inputs the rest adds nothing but time
    # (a broken tree can make every run burn its CPU limit)
    results = []
    with ThreadPoolExecutor(max_workers=max(2, vlib.NPROC // 2)) as ex:
        for b in range(0, len(items), 64):
            results += list(ex.map(lambda a: run_binary(a[0], a[1][2], a[1][3]), zip(paths[b:b + 64], items[b:b + 64])))
            if sum(1 for r in results if verdict(r) is not None) >= 6:
                run.notes.append("%s: stopped after %d of %d runs (6 failing inputs found)" % (stream, len(results), len(items)))
                break
    for (name, data, lang, opt), res in zip(items, results):
        bad = verdict(res)
        if bad is None and name in need_syntax and not (res["ids"] & {"syntaxError", "unknownMacro", "preprocessorErrorDirective", "internalAstError", "cppcheckError", "internalError"}):
            bad = "unbalanced brackets (model: unmatched token %s) but no finding reports the problem (ids: %s)" % (need_syntax[name], sorted(res["ids"]))
        run.count(stream, None, nontrivial=(name, opt),
                  bucket=("FAIL" if bad else ("finding:" + ("syntaxError" if "syntaxError" in res["ids"] else ("internal" if res["ids"] & {"internalError", "internalAstError", "cppcheckError"} else "other/none")))) + "," + opt)
        if bad:
            h = hashlib.sha1(data).hexdigest()[:10]
            run.stream(stream)["disagreements"] += 1
            run.violation("e2e:%s:%s" % (h, lang), "%s [%s, --language=%s %s]: %s" % (name, stream, lang, " ".join(OPTSETS[opt]), bad),
                          {"input_file_bytes_hex": data.hex() if len(data) < 4000 else None, "input_name": name, "language": lang,
                           "options": OPTSETS[opt], "what": bad, "stderr_tail": res["stderr"],
                           "how": "write the bytes to t.%s and run: cppcheck -q --language=%s --template={id} %s t.%s" % ("cpp" if lang == "c++" else "c", lang, " ".join(OPTSETS[opt]), "cpp" if lang == "c++" else "c")})


def mutate_bytes(rng, data):
    b = bytearray(data)
    for _ in range(rng.choice([1, 1, 2, 3, 5])):
        if not b:
            b += bytes([rng.randrange(32, 127)])
            continue
        i = rng.randrange(len(b))
        k = rng.randrange(6)
        if k == 0:
            del b[i:i + rng.choice([1, 1, 2, 8])]
        elif k == 1:
            b[i:i] = bytes([rng.choice(b"(){}[]<>;,:*&=\"'#\\\n ")])
        elif k == 2:
            b[i] = rng.randrange(256)
        elif k == 3:
            j = rng.randrange(len(b))
            i, j = min(i, j), max(i, j)
            b[i:i] = b[i:min(j, i + 40)]
        elif k == 4:
            b[i:i] = rng.choice([b"template<", b"struct ", b"){", b"]](", b"sizeof(", b"?:", b"::", b"operator", b"\xff", b"\x00"])
        else:
            del b[i:]
    return bytes(b)


def corpus():
    out = []
    base = os.path.join(vlib.REPO, "test", "cli")
    for d, lang in (("fuzz-crash", "c++"), ("fuzz-crash_c", "c"), ("fuzz-timeout", "c++")):
        p = os.path.join(base, d)
        if os.path.isdir(p):
            for f in sorted(os.listdir(p)):
                out.append((d + "/" + f, open(os.path.join(p, f), "rb").read(), lang))
    return out


def run_guarded(cmd, lines, per_case_s=90, max_hangs=5):
    """one output line per input line; a case on which the process hangs (no answer within
    per_case_s) or dies is answered "!hang" / "!died rc" and the process is restarted on the
    next case; after max_hangs hangs the rest is not run (the answer list is then shorter)"""
    import select
    import threading
    out = []
    start = 0
    hangs = 0
    while start < len(lines) and hangs < max_hangs:
        p = subprocess.Popen(cmd, stdin=subprocess.PIPE, stdout=subprocess.PIPE, stderr=subprocess.DEVNULL, bufsize=0)
        chunk = lines[start:start + 400]      # a restart re-sends only a small window

        def feed(p=p, chunk=chunk):
            try:
                p.stdin.write(("\n".join(chunk) + "\n").encode())
                p.stdin.close()
            except Exception:
                pass
        threading.Thread(target=feed, daemon=True).start()
        fd = p.stdout.fileno()
        buf = b""
        end = start + len(chunk)
        while len(out) < end:
            while b"\n" in buf and len(out) < end:
                line, buf = buf.split(b"\n", 1)
                out.append(line.decode("latin-1"))
            if len(out) >= end:
                break
            r, _, _ = select.select([fd], [], [], per_case_s)
            if not r:
                p.kill()
                p.wait()
                out.append("!hang")
                hangs += 1
                break
            data = os.read(fd, 65536)
            if not data:
                rc = p.wait()
                out.append("!died %s" % rc)
                break
            buf += data
        else:
            pass
        try:
            p.kill()
        except Exception:
            pass
        p.wait()
        start = len(out)
    return out


MINLL, MAXLL = -(1 << 63), (1 << 63) - 1
EDGE = [MINLL, MINLL + 1, -(1 << 32), -65, -64, -63, -2, -1, 0, 1, 2, 3, 63, 64, 65, 1 << 31, 1 << 32, MAXLL - 1, MAXLL]
AOPS = [b"*", b"/", b"%", b"+", b"-", b"<<", b">>"]


def gen_ppfold(rng, n):
    """`#if (a) op (b)`: every pair of boundary operands for every operator (the case splits of the
    theorems: zero divisor, LLONG_MIN with -1, results one past either end, shift counts around 0 and 64),
    then random 64-bit operands"""
    cs = [[o, str(a).encode(), str(b).encode()] for o in AOPS for a in EDGE for b in EDGE]
    for _ in range(n):
        o = rng.choice(AOPS)
        a = rng.choice(EDGE) if rng.random() < 0.3 else rng.randint(MINLL, MAXLL) >> rng.choice([0, 0, 8, 32, 48, 60])
        b = rng.choice(EDGE) if rng.random() < 0.4 else rng.randint(MINLL, MAXLL) >> rng.choice([0, 16, 32, 56, 60, 62])
        cs.append([o, str(a).encode(), str(b).encode()])
    return cs


def build_ppub():
    """the preprocessor alone with UBSan + ASan (13 s): the only instrumented build this check uses"""
    src = os.path.join(vlib.VERIF, "harness", "ppub_c13.cpp")
    scpp = os.path.join(vlib.REPO, "externals", "simplecpp", "simplecpp.cpp")
    out = os.path.join(vlib.BUILD, "harness", "ppub_c13")
    os.makedirs(os.path.dirname(out), exist_ok=True)
    stamp = out + ".stamp"
    key = hashlib.sha1(open(src, "rb").read() + open(scpp, "rb").read() + open(scpp[:-3] + "h", "rb").read()).hexdigest()
    if os.path.exists(out) and os.path.exists(stamp) and open(stamp).read() == key:
        return out
    cmd = ["g++", "-std=c++11", "-O1", "-g", "-fsanitize=undefined,address", "-fno-sanitize-recover=all",
           "-I" + os.path.dirname(scpp), src, scpp, "-o", out]
    rc, o, dt = vlib.sh(cmd, timeout=900)
    if rc != 0:
        raise vlib.BuildError("sanitizer build of simplecpp failed: " + o[-1500:])
    open(stamp, "w").write(key)
    return out


# ------------------------------------------------------------------ the check
def check(run, replay):
    quick = run.tier == "quick"
    rng = run.rng
    N = (lambda q, t: q if quick else t)
    run.trusted_base += [
        "Coq 8.16.1 kernel (coqc); vm_compute in the non-vacuity Example and in the finite sweep over the fifteen exception classes (funnel_sweep, lifted with forallb_forall); no native_compute",
        "extraction: Require Extraction + ExtrOcamlBasic only; nat/N stay Coq datatypes",
        "translator tools/translate/funnel.py (comment/string blanking, brace matching, regex over `catch (...)` clauses and handler bodies; a handler is classified Report / Internal / Silent / Rethrow / Other from the calls in its body)",
        "ocaml/driver.ml, harness/vh_common.h + vh_c13.cpp (real lexer TokenList::createTokensFromBuffer, then the real Tokenizer::createLinks / simplifyTokens1)",
        "modelled, not verified: lib/tokenize.cpp linkBrackets + Tokenizer::createLinks (a token is the first byte of its string; std::stack as a list, top() of an empty stack as the outcome UB); [except.handle] first-match dispatch over the std exception hierarchy written out in Robust/Funnel.v",
        "NOT modelled (the model cannot exhibit them): memory safety and undefined behaviour of the compiled C++ outside the stack discipline of createLinks, wall-clock time, every pass after createLinks; for these the binary runs below are tests, not proof",
    ]
    run.assumptions += ["g++ compiles /repo faithfully",
                        "an exception that leaves CppCheck::checkInternal ends the process (no handler in the executors or in main(): read, not checked on every run)",
                        "std::logic_error and its subclasses are not among the documented classes: checkInternal has no handler for them (checkClang has: std::exception)"]
    run.extra["rule"] = ("links: every token list over {( ) { } [ ] x} up to length %d, plus generated lists: a well-bracketed list from the grammar "
                         "(depth<=4, <=24 tokens, 13 other tokens incl. string/char literals that contain brackets) with 0-2 mutations "
                         "(delete/insert/re-kind a bracket, swap, truncate), 15%% uniform; non-trivial = at least one bracket, distinct list. "
                         "front/e2e: fixed family (constant seed) of such lists and of small C-like functions with 0-2 mutations, both languages, four option sets; "
                         "corpus: test/cli/fuzz-crash, fuzz-crash_c, fuzz-timeout as shipped and a fixed family of byte-level mutants (1-5 edits)." % N(4, 6))

    vlib.ensure_repo_build()

    # ---- T
    try:
        t = T_funnel.main(vlib.REPO, vlib.VERIF)
        run.extra["translated"] = {k: (v if isinstance(v, str) else [list(map(list, h)) if h and isinstance(h[0], list) else h for h in v]) for k, v in t.items()}
        if t["deeper"]:
            run.notes.append("checkInternal has try blocks nested more than once; only the outermost two levels are modelled")
    except Exception as e:
        run.violation("translate:" + type(e).__name__, "translator failed: %s" % str(e)[:300], {"broken": "translator funnel.py", "detail": str(e)}, found_input=False)

    ok = run.prove(extra_targets=["theories/Robust/Run.vo"])
    if not ok:
        run.violation("proof:" + PID, "Properties_C13.vo does not build: " + str(run.proof_error())[:300],
                      {"broken": "proof", "detail": run.proof_error()}, found_input=False)
        vlib.coq_make(["theories/Robust/Run.vo"])
    if not os.path.exists(os.path.join(vlib.COQ, "theories/Robust/Run.vo")):
        return
    model = vlib.build_model(PID)
    vh = vlib.build_harness(PID)

    # ---- X1: the model against the real createLinks (VERIF_SEED)
    cases = exhaustive(N(4, 6)) + [gen_tokens(rng) for _ in range(N(4000, 150000))]
    cases = [list(c) for c in dict.fromkeys(tuple(c) for c in cases)]

    def canon(o):
        return o[:2] if o and o[0] == b"E" else o
    diffs = vlib.correspond(run, "createLinks", model, [vh, "links"], cases, tag="links", canon=canon,
                            nontrivial=lambda c, m, i: tuple(c) if any(t in BR for t in c) else None,
                            bucket=lambda c, m, i: ("accepted" if m[:1] == [b"ok"] else "rejected") + (",len<=6" if len(c) <= 6 else ",len>6"))
    for c, m, i in sorted(diffs, key=lambda d: len(d[0]))[:3]:
        unsafe = (m[:1] == [b"E"] and i[:1] != [b"E"]) or i[:1] == ["!died"] or i[:1] == [b"!exc"]
        run.violation("links:" + b" ".join(c).hex()[:60],
                      "Tokenizer::createLinks on `%s`: real code %s, model %s%s" % (b" ".join(c).decode("latin-1"), vlib.show(i), vlib.show(m),
                                                                                   " -- an unbalanced list is not rejected / the call does not return" if unsafe else ""),
                      {"input": {"tokens": vlib.show(c)}, "impl": vlib.show(i), "model": vlib.show(m),
                       "broken": None if unsafe else "correspondence createLinks",
                       "how": "echo '%s' | build/harness/vh_c13 links" % vlib.enc_case(c)}, found_input=unsafe)
    # the id of every rejection is syntaxError
    # (third field of the harness answer; checked on a sample to keep the stream cheap)
    rc, io, _ = vlib.run_lines([vh, "links"], [vlib.enc_case(c) for c in cases[:2000]])
    for c, line in zip(cases[:2000], io):
        o = vlib.dec_line(line)
        if o[:1] == [b"E"] and o[2:3] != [b"syntaxError"]:
            run.violation("linksid:" + b" ".join(c).hex()[:60], "createLinks rejects `%s` with id %s, not syntaxError" % (b" ".join(c).decode("latin-1"), vlib.show(o[2:3])),
                          {"input": {"tokens": vlib.show(c)}, "impl": vlib.show(o)})
            break

    # ---- X1b: the validate model against the real Tokenizer::validate on damaged link structures (VERIF_SEED)
    vcases = [gen_validate_case(rng) for _ in range(N(4000, 150000))]
    vcases = [list(c) for c in dict.fromkeys(tuple(c) for c in vcases)]
    diffs = vlib.correspond(run, "validate", model, [vh, "validate"], vcases, tag="validate", canon=canon,
                            nontrivial=lambda c, m, i: tuple(c) if any(x != b"-" for x in c[1::2]) else None,
                            bucket=lambda c, m, i: "accepted" if m[:1] == [b"ok"] else "rejected")
    for c, m, i in sorted(diffs, key=lambda d: len(d[0]))[:3]:
        unsafe = m[:1] == [b"E"] and i[:1] == [b"ok"]
        run.violation("validate:" + b" ".join(c).hex()[:60],
                      "Tokenizer::validate on (token link)* `%s`: real code %s, model %s%s" % (b" ".join(c).decode("latin-1"), vlib.show(i), vlib.show(m),
                                                                                   " -- a damaged link structure is accepted" if unsafe else ""),
                      {"input": {"token_link_pairs": vlib.show(c)}, "impl": vlib.show(i), "model": vlib.show(m),
                       "broken": None if unsafe else "correspondence validate",
                       "how": "echo '%s' | build/harness/vh_c13 validate" % vlib.enc_case(c)}, found_input=unsafe)

    # ---- X1c: the #if folder's own arithmetic (VERIF_SEED): model vs the real simplecpp::preprocess, then the
    #      same cases on the preprocessor built with UBSan/ASan (the model's U outcomes are what it must report)
    pcases = gen_ppfold(rng, N(3000, 100000))
    pcases = [list(c) for c in dict.fromkeys(tuple(c) for c in pcases)]

    def pcanon(o):
        return o[:1] if o and o[0] == b"X" else o
    rc, pmo, _ = vlib.run_lines([model], [vlib.enc_case([b"ppfold"] + c) for c in pcases])
    pm = [pcanon(vlib.dec_line(l)) for l in pmo]
    pio = run_guarded([vh, "ppfold"], [vlib.enc_case(c) for c in pcases])
    for c, m, line in zip(pcases, pm, pio):
        dead = line.startswith("!")
        i = [line.encode()] if dead else pcanon(vlib.dec_line(line))
        expr = "#if (%s) %s (%s)" % (c[1].decode(), c[0].decode(), c[2].decode())
        run.count("ppfold", None, nontrivial=tuple(c), bucket=c[0].decode() + ":" + ("UB-in-model" if m == [b"U"] else ("throws" if m == [b"X"] else "value")))
        if dead:
            run.stream("ppfold")["disagreements"] += 1
            run.violation("ppfold:died:" + c[0].decode() + ":" + c[1].decode() + ":" + c[2].decode(),
                          "`%s`: the preprocessor does not return (%s); model: %s" % (expr, line, vlib.show(m)),
                          {"input": {"source": expr + "\n#endif\n"}, "impl": line, "model": vlib.show(m),
                           "how": "printf '%s\\n#endif\\n' > t.c; cppcheck t.c" % expr})
        elif m != [b"U"] and m != i:
            run.stream("ppfold")["disagreements"] += 1
            run.violation("ppfold:" + c[0].decode() + ":" + c[1].decode() + ":" + c[2].decode(),
                          "`%s`: simplecpp %s, model %s" % (expr, vlib.show(i), vlib.show(m)),
                          {"input": {"source": expr + "\n#endif\n"}, "impl": vlib.show(i), "model": vlib.show(m), "broken": "correspondence ppfold"},
                          found_input=(m == [b"X"] and i[:1] == [b"V"]))
    ppub = build_ppub()
    ubs = [k for k, m in enumerate(pm) if m == [b"U"]]
    keep = set(ubs[:len(EDGE) * len(EDGE) * 2] + rng.sample(ubs, min(len(ubs), N(300, 3000))))
    sel = [k for k, m in enumerate(pm) if m != [b"U"] or k in keep]
    scases, spm = [pcases[k] for k in sel], [pm[k] for k in sel]
    lines = [b" ".join(c).decode() for c in scases]
    uio = run_guarded([ppub], lines)
    for c, m, line in zip(scases, spm, uio):
        ub = line.startswith("!")
        run.count("ppfold-sanitizer", None, nontrivial=tuple(c), bucket=c[0].decode() + ":" + ("report" if ub else "clean"))
        if ub:
            expr = "#if (%s) %s (%s)" % (c[1].decode(), c[0].decode(), c[2].decode())
            p1 = subprocess.run([ppub], input=(b" ".join(c) + b"\n"), stdout=subprocess.PIPE, stderr=subprocess.PIPE)
            rep = [l for l in p1.stderr.decode("latin-1").split("\n") if "runtime error" in l or "ERROR: AddressSanitizer" in l][:2]
            run.stream("ppfold-sanitizer")["disagreements"] += 1
            key = "ppif-ub:" + c[0].decode() if m == [b"U"] else "ppif-ub-unpredicted:%s:%s:%s" % (c[0].decode(), c[1].decode(), c[2].decode())
            run.violation(key, "`%s`: undefined behaviour in the preprocessor's own code: %s (model: %s)" % (expr, "; ".join(rep) or line, vlib.show(m)),
                          {"input": {"source": expr + "\n#endif\n"}, "sanitizer": rep, "model": vlib.show(m),
                           "how": "g++ -fsanitize=undefined,address -fno-sanitize-recover=all -Iexternals/simplecpp /verif/harness/ppub_c13.cpp externals/simplecpp/simplecpp.cpp -o ppub; echo '%s' | ./ppub" % b" ".join(c).decode()})
        elif m == [b"U"]:
            # the model says UB and the instrumented run is clean: the model is wrong about the code
            run.stream("ppfold-sanitizer")["disagreements"] += 1
            run.violation("ppub-model:" + b":".join(c).decode(), "`%s %s %s`: the model says undefined behaviour, the sanitizer build reports none" % (c[1].decode(), c[0].decode(), c[2].decode()),
                          {"broken": "correspondence ppfold-sanitizer", "case": vlib.show(c)}, found_input=False)

    # ---- search streams: fixed family
    frng = random.Random(FAMILY_SEED)
    fam = [gen_tokens(frng) for _ in range(N(1500, 20000))] + [gen_program(frng) for _ in range(N(1500, 20000))]
    fam = [list(c) for c in dict.fromkeys(tuple(c) for c in fam) if c]
    rc, mo, _ = vlib.run_lines([model], [vlib.enc_case([b"links"] + c) for c in fam])
    mouts = [vlib.dec_line(l) for l in mo]

    # X2: the whole front end on the same lists
    for lang in (b"cpp", b"c"):
        fcases = [[lang] + c for c in fam]
        io = run_guarded([vh, "front"], [vlib.enc_case(c) for c in fcases])
        for c, m, line in zip(fam, mouts, io):
            dead = line.startswith("!hang") or line.startswith("!died")
            o = [line.encode()] if dead else vlib.dec_line(line)
            un = m[:1] == [b"E"]
            run.count("frontend", None, nontrivial=(lang, tuple(c)),
                      bucket=("unbalanced" if un else "balanced") + "," + lang.decode() + "," + ("FAIL" if dead else (o[1].decode("latin-1") if o[:1] == [b"E"] else "accepted")))
            if dead or o[:1] == [b"!exc"] or (un and o[:1] != [b"E"]):
                what = ("the call does not return within 90 s (hang)" if line.startswith("!hang") else
                        "the process died (%s)" % line if dead else
                        "an exception other than InternalError leaves the front end: " + str(vlib.show(o)) if o[:1] == [b"!exc"] else
                        "unbalanced brackets accepted (model: unmatched token %s)" % vlib.show(m[1:2]))
                run.stream("frontend")["disagreements"] += 1
                run.violation("front:%s:%s" % (lang.decode(), hashlib.sha1(b" ".join(c)).hexdigest()[:10]),
                              "Tokenizer::simplifyTokens1 (%s) on `%s`: %s" % (lang.decode(), b" ".join(c).decode("latin-1")[:200], what),
                              {"input": {"language": lang.decode(), "tokens": vlib.show(c)}, "impl": vlib.show(o), "model": vlib.show(m),
                               "how": "echo '%s' | build/harness/vh_c13 front" % vlib.enc_case([lang] + c)})

    # X3: the binary
    scratch = tempfile.mkdtemp(prefix="c13_", dir="/tmp")
    try:
        items, need = [], {}
        opts = list(OPTSETS)
        for k, (c, m) in enumerate(list(zip(fam, mouts))[::N(6, 10)]):
            name = "gen%d" % k
            lang = "c++" if k % 3 else "c"
            items.append((name, b" ".join(c) + b"\n", lang, opts[k % len(opts)]))
            if m[:1] == [b"E"]:
                need[name] = vlib.show(m[1])
        e2e(run, "binary-generated", items, scratch, need)
        cor = corpus()
        e2e(run, "binary-corpus", [(n, d, l, "all") for n, d, l in cor] + ([] if quick else [(n, d, l, "exhaustive") for n, d, l in cor]), scratch)
        mrng = random.Random(FAMILY_SEED + "-mut")
        muts = []
        for k in range(N(300, 6000)):
            n, d, l = cor[mrng.randrange(len(cor))]
            muts.append(("mut%d(%s)" % (k, n), mutate_bytes(mrng, d), l, opts[k % len(opts)]))
        e2e(run, "binary-mutants", muts, scratch)
    finally:
        shutil.rmtree(scratch, ignore_errors=True)


if __name__ == "__main__":
    vlib.main(check, PID)
