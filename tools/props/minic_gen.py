"""Generator of small C functions over small declared input domains, with two renderings of the
same syntax tree: the plain text the analyser reads (every condition site knows the (line, column)
of its root token) and an instrumented text for gcc in which every site is wrapped so that each
evaluation is recorded.  Used by C03 (verdicts) and C04 (guarded programs)."""

PREC = {"||": 1, "&&": 2, "|": 3, "^": 4, "&": 5, "==": 6, "!=": 6, "<": 7, "<=": 7, ">": 7, ">=": 7,
        "<<": 8, ">>": 8, "+": 9, "-": 9, "*": 10, "/": 10, "%": 10}
CMPS = ("==", "!=", "<", "<=", ">", ">=")
MIRROR = {"==": "==", "!=": "!=", "<": ">", "<=": ">=", ">": "<", ">=": "<="}
NEGATE = {"==": "!=", "!=": "==", "<": ">=", "<=": ">", ">": "<=", ">=": "<"}


class E:
    """expression: kind in var num bin un"""

    def __init__(self, kind, **kw):
        self.kind = kind
        self.site = None      # site id when instrumented
        self.skind = None     # 'B' boolean valued, 'C' boolean context, 'V' value
        self.__dict__.update(kw)

    def prec(self):
        if self.kind == "bin":
            return PREC[self.op]
        if self.kind == "un":
            return 11
        if self.kind == "num" and self.v < 0:
            return 11
        return 12

    def is_boolean(self):
        return (self.kind == "bin" and (self.op in CMPS or self.op in ("&&", "||"))) or (self.kind == "un" and self.op == "!")

    def key(self):
        if self.kind == "var":
            return self.name
        if self.kind == "num":
            return "%d%s" % (self.v, self.suf)
        if self.kind == "un":
            return "(%s%s)" % (self.op, self.e.key())
        return "(%s%s%s)" % (self.a.key(), self.op, self.b.key())

    def clone(self):
        if self.kind == "var":
            return E("var", name=self.name)
        if self.kind == "num":
            return E("num", v=self.v, suf=self.suf)
        if self.kind == "un":
            return E("un", op=self.op, e=self.e.clone())
        return E("bin", op=self.op, a=self.a.clone(), b=self.b.clone())

    def walk(self):
        yield self
        if self.kind == "un":
            yield from self.e.walk()
        elif self.kind == "bin":
            yield from self.a.walk()
            yield from self.b.walk()


def var(n):
    return E("var", name=n)


def num(v, suf=""):
    return E("num", v=v, suf=suf)


def bin_(op, a, b):
    return E("bin", op=op, a=a, b=b)


def un(op, e):
    return E("un", op=op, e=e)


class S:
    """statement: kind in decl assign incdec if while for return sink ext break continue block raw"""

    def __init__(self, kind, **kw):
        self.kind = kind
        self.__dict__.update(kw)


class Renderer:
    """renders a function; plain mode records site positions, instrumented mode wraps the sites"""

    def __init__(self, instrument, first_line=1, fuel=64):
        self.instr = instrument
        self.lines = []
        self.line_no = first_line
        self.cur = ""
        self.pos = {}          # site id -> (line, col) of the root token   (plain mode)
        self.fuel = fuel

    # --- text
    def emit(self, s):
        self.cur += s

    def nl(self):
        self.lines.append(self.cur)
        self.cur = ""
        self.line_no += 1

    def col(self):
        return len(self.cur) + 1

    # --- expressions
    def expr(self, e, parent_prec=0, right=False, parent_op=None):
        wrap = self.instr and e.site is not None
        if wrap:
            if e.skind == "B":
                self.emit("RB(%d, " % e.site)
            elif e.skind == "C":
                self.emit("RC(%d, " % e.site)
            else:
                self.emit("RV(%d, " % e.site)
            self._expr(e, 0, False, None)
            self.emit(")")
        else:
            self._expr(e, parent_prec, right, parent_op)

    def _expr(self, e, parent_prec, right, parent_op):
        p = e.prec()
        if p >= 11:
            need = p < parent_prec
        elif p < parent_prec:
            need = True
        elif p == parent_prec:
            need = not (not right and e.op == parent_op and e.op in ("&&", "||", "+", "&", "|"))
        else:
            need = False
        if need:
            self.emit("(")
        if e.kind == "var":
            self._mark(e)
            self.emit(e.name)
        elif e.kind == "num":
            self._mark(e)
            self.emit("%d%s" % (e.v, e.suf))
        elif e.kind == "un":
            self._mark(e)
            self.emit(e.op)
            self.expr(e.e, 12)
        else:
            self.expr(e.a, p, False, e.op)
            self.emit(" ")
            self._mark(e)
            self.emit(e.op + " ")
            self.expr(e.b, p, True, e.op)
        if need:
            self.emit(")")

    def _mark(self, e):
        if not self.instr:
            e.line, e.col = self.line_no, self.col()
            if e.site is not None:
                self.pos[e.site] = (self.line_no, self.col())

    # --- statements
    def block(self, stmts, ind):
        for s in stmts:
            self.stmt(s, ind)

    def stmt(self, s, ind):
        pad = "  " * ind
        k = s.kind
        if k == "decl":
            self.emit("%s%s %s = " % (pad, s.type, s.name))
            self.expr(s.e)
            self.emit(";")
            self.nl()
        elif k == "assign":
            self.emit("%s%s %s " % (pad, s.name, s.op))
            self.expr(s.e)
            self.emit(";")
            self.nl()
        elif k == "incdec":
            self.emit("%s%s%s;" % (pad, s.name, s.op))
            self.nl()
        elif k == "if":
            self.emit(pad + "if (")
            self.expr(s.c)
            self.emit(") {")
            self.nl()
            self.block(s.then, ind + 1)
            if s.els is not None:
                self.emit(pad + "} else {")
                self.nl()
                self.block(s.els, ind + 1)
            self.emit(pad + "}")
            self.nl()
        elif k == "while":
            self.emit(pad + "while (")
            self.expr(s.c)
            self.emit(") {")
            self.nl()
            self._fuel(ind + 1)
            self.block(s.body, ind + 1)
            self.emit(pad + "}")
            self.nl()
        elif k == "dowhile":
            self.emit(pad + "do {")
            self.nl()
            self._fuel(ind + 1)
            self.block(s.body, ind + 1)
            self.emit(pad + "} while (")
            self.expr(s.c)
            self.emit(");")
            self.nl()
        elif k == "for":
            self.emit("%sfor (int %s = %d; " % (pad, s.var, s.lo))
            self.expr(s.c)
            self.emit("; %s++) {" % s.var)
            self.nl()
            self._fuel(ind + 1)
            self.block(s.body, ind + 1)
            self.emit(pad + "}")
            self.nl()
        elif k == "return":
            self.emit(pad + "return ")
            self.expr(s.e)
            self.emit(";")
            self.nl()
        elif k == "sink":
            self.emit(pad + "sink(")
            self.expr(s.e)
            self.emit(");")
            self.nl()
        elif k == "ext":
            self.emit(pad + "ext();")
            self.nl()
        elif k in ("break", "continue"):
            self.emit(pad + k + ";")
            self.nl()
        elif k == "raw":
            # text identical in both renderings; s.instr (optional) replaces it in the instrumented one
            self.emit(pad + (s.instr if (self.instr and getattr(s, "instr", None) is not None) else s.text))
            self.nl()
        else:
            raise ValueError(k)

    def _fuel(self, ind):
        if self.instr:
            self.emit("  " * ind + "if (++fuel_ > %d) { diverged_ = 1; return -1; }" % self.fuel)
            self.nl()


class Func:
    def __init__(self, name, params, body, ret="int"):
        self.name, self.params, self.body, self.ret = name, params, body, ret   # params: [(ctype, name, domain)]
        self.sites = {}    # id -> E
        self.uses_global = False

    def assign_sites(self, next_id):
        """every comparison / logical node, every boolean-context operand and condition root, every sink argument"""
        def visit_cond(e, ctx_bool):
            if e.is_boolean():
                mark(e, "B")
                if e.kind == "un":
                    visit_cond(e.e, True)
                elif e.op in ("&&", "||"):
                    visit_cond(e.a, True)
                    visit_cond(e.b, True)
                else:
                    visit_val(e.a)
                    visit_val(e.b)
            else:
                if ctx_bool and e.kind != "num":
                    mark(e, "C")
                    for c in children(e):
                        visit_val(c)
                else:
                    visit_val(e)

        def visit_val(e):
            if e.is_boolean():
                visit_cond(e, False)
            else:
                for c in children(e):
                    visit_val(c)

        def children(e):
            return [e.e] if e.kind == "un" else [e.a, e.b] if e.kind == "bin" else []

        def mark(e, kind):
            nonlocal next_id
            if e.site is None:
                e.site, e.skind = next_id, kind
                self.sites[next_id] = e
                next_id += 1

        def visit_stmts(stmts):
            for s in stmts:
                k = s.kind
                if k == "dowhile":
                    visit_stmts(s.body)
                    visit_cond(s.c, True)
                elif k in ("if", "while", "for"):
                    visit_cond(s.c, True)
                    if k == "if":
                        visit_stmts(s.then)
                        if s.els is not None:
                            visit_stmts(s.els)
                    else:
                        visit_stmts(s.body)
                elif k in ("decl", "assign", "return"):
                    visit_val(s.e)
                elif k == "sink":
                    if s.e.is_boolean():
                        visit_cond(s.e, False)
                    elif s.e.kind != "num":
                        mark(s.e, "V")
                        for c in children(s.e):
                            visit_val(c)
        visit_stmts(self.body)
        return next_id

    def render(self, r):
        r.emit("%s %s(%s) {" % (self.ret, self.name, ", ".join("%s %s" % (t, n) for t, n, _ in self.params) or "void"))
        r.nl()
        r.block(self.body, 1)
        r.emit("}")
        r.nl()


PROLOGUE_PLAIN = ["void sink(long long);", "void ext(void);", "int g;"]

RUNTIME = r"""
#include <stdio.h>
#include <string.h>
#define NS %(nsites)d
static long long cnt_[NS + 1][2];
static long long wit_[NS + 1][2][4];
static long long vmin_[NS + 1], vmax_[NS + 1];
static long long stamp_[NS + 1]; static int last_[NS + 1];
static const int pair_first_[NS + 1] = { %(pairs)s };
static long long pairbad_[NS + 1]; static long long pairwit_[NS + 1][4];
static long long args_[4]; static long long epoch_;
static int fuel_, diverged_; static long long ndiverged_; static long long ndivf_[4096]; static int curf_;
int g; static int gseed_;
static long long sunk_;
void sink(long long v) { sunk_ += v; }
void ext(void) { g = g * 3 + 1 + gseed_; if (g > 1000 || g < -1000) g = gseed_; }
/* evaluations are buffered per call and committed only when the call terminates: a call cut off by the loop fuel
   stands for a non-terminating execution (a side-effect-free loop the implementation may assume to terminate,
   C11 6.8.5p6), its evaluations are not evidence against a verdict */
#define NB 8192
static int bid_[NB]; static long long bval_[NB]; static int bn_, bover_;
static inline int rec_(int id, int v) {
  if (bn_ < NB) { bid_[bn_] = id; bval_[bn_] = v; bn_++; } else bover_ = 1;
  return v;
}
static inline long long recv_(int id, long long v) {
  if (bn_ < NB) { bid_[bn_] = -1 - id; bval_[bn_] = v; bn_++; } else bover_ = 1;
  return v;
}
static void commit_(void) {
  for (int k = 0; k < bn_; k++) {
    if (bid_[k] >= 0) {
      int id = bid_[k]; int v = (int)bval_[k];
      if (cnt_[id][v]++ == 0) memcpy(wit_[id][v], args_, sizeof args_);
      stamp_[id] = epoch_; last_[id] = v;
      int f = pair_first_[id];
      if (f >= 0 && stamp_[f] == epoch_ && last_[f] != v) { if (pairbad_[id]++ == 0) memcpy(pairwit_[id], args_, sizeof args_); }
    } else {
      int id = -1 - bid_[k]; long long v = bval_[k];
      if (cnt_[id][0]++ == 0) { vmin_[id] = vmax_[id] = v; memcpy(wit_[id][0], args_, sizeof args_); memcpy(wit_[id][1], args_, sizeof args_); }
      if (v < vmin_[id]) { vmin_[id] = v; memcpy(wit_[id][0], args_, sizeof args_); }
      if (v > vmax_[id]) { vmax_[id] = v; memcpy(wit_[id][1], args_, sizeof args_); }
    }
  }
}
#define RB(id, e) rec_(id, (e))
#define RC(id, e) rec_(id, (e) != 0)
#define RV(id, e) recv_(id, (e))
"""

REPORT = r"""
static void report_(void) {
  for (int i = 0; i < NS; i++) {
    printf("S %%d %%lld %%lld %%lld,%%lld,%%lld,%%lld %%lld,%%lld,%%lld,%%lld %%lld %%lld %%lld %%lld,%%lld,%%lld,%%lld\n", i, cnt_[i][0], cnt_[i][1],
      wit_[i][0][0], wit_[i][0][1], wit_[i][0][2], wit_[i][0][3], wit_[i][1][0], wit_[i][1][1], wit_[i][1][2], wit_[i][1][3],
      vmin_[i], vmax_[i], pairbad_[i], pairwit_[i][0], pairwit_[i][1], pairwit_[i][2], pairwit_[i][3]);
  }
  printf("D %%lld\n", ndiverged_);
  for (int i = 0; i < 4096; i++) if (ndivf_[i]) printf("F %%d %%lld\n", i, ndivf_[i]);
}
"""


def render_plain(funcs, prologue=PROLOGUE_PLAIN):
    r = Renderer(False, first_line=1)
    for l in prologue:
        r.emit(l)
        r.nl()
    spans = {}
    for f in funcs:
        a = r.line_no
        f.render(r)
        spans[f.name] = (a, r.line_no - 1)
    return "\n".join(r.lines) + "\n", r.pos, spans


def render_instrumented(funcs, nsites, pairs, extra_runtime=""):
    """pairs: {second site: first site}; returns (text, {func name: (first line, last line)})"""
    ptab = ", ".join(str(pairs.get(i, -1)) for i in range(nsites + 1))
    head = (RUNTIME % {"nsites": nsites, "pairs": ptab}) + extra_runtime
    r = Renderer(True, first_line=head.count("\n") + 1)
    spans = {}
    for f in funcs:
        a = r.line_no
        f.render(r)
        spans[f.name] = (a, r.line_no - 1)
    body = "\n".join(r.lines) + "\n"
    drv = [REPORT % {}, "int main(void) {"]
    for fi_, f in enumerate(funcs):
        names = []
        ind = "  "
        drv.append("  curf_ = %d;" % fi_)
        for k, (t, n, dom) in enumerate(f.params):
            vals = ", ".join("%dLL" % v for v in dom)
            drv.append("%s{ static const long long d%d_[] = { %s };" % (ind, k, vals))
            drv.append("%sfor (unsigned i%d = 0; i%d < %d; i%d++) { args_[%d] = d%d_[i%d];" % (ind, k, k, len(dom), k, k, k, k))
            names.append("(%s)d%d_[i%d]" % (t, k, k))
            ind += "  "
        drv.append("%sfor (gseed_ = 0; gseed_ < %d; gseed_++) { g = gseed_; epoch_++; fuel_ = 0; diverged_ = 0; bn_ = 0; bover_ = 0; sunk_ += %s(%s); if (!diverged_ && !bover_) commit_(); else { ndiverged_++; ndivf_[curf_]++; } }"
                   % (ind, 2 if f.uses_global else 1, f.name, ", ".join(names)))
        for k in range(len(f.params)):
            drv.append("  " * (len(f.params) - k) + "}}")
        drv.append("  memset(args_, 0, sizeof args_);")
    drv += ["  report_();", "  return sunk_ == 42 ? 0 : 0;", "}"]
    return head + body + "\n".join(drv) + "\n", spans
