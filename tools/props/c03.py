#!/usr/bin/env python3
"""C03  Always-true/always-false verdicts are true (partial: decision kernels proved; the finding-level
statement is decided per generated program by executing it over its whole input domain; see docs/C03.md).

prove:      coq/theories/Properties_C03.v (kernels of checkCompareValueOutOfTypeRange, comparison, isOppositeCond)
correspond: X1 single-comparison functions per (type, op, constant, side, platform) and `(x & c1) op c2`:
               findings of the real binary vs the extracted kernels, both directions
            X2 generated functions (nested/sequential related conditions, assignments, early returns, loops):
               every verdict finding is mapped to its condition and decided by running the program
               (gcc -fsanitize=undefined, every evaluation of every condition recorded) over all inputs
search:     a condition reported always-b that evaluates to !b in a UB-free run is the failing input
            (program + argument tuple).
"""
import copy
import json
import os
import re
import shutil
import sys
import tempfile

sys.path.insert(0, os.path.dirname(os.path.dirname(os.path.abspath(__file__))))
sys.path.insert(0, os.path.dirname(os.path.abspath(__file__)))
import vlib
import verdict_common as vc
import minic_gen as mg
import c03_gen

PID = "C03"

PLATFORMS = {  # cppcheck name: (char short int long llong char_signed)
    "unix64": (8, 16, 32, 64, 64, 1),
    "unix32": (8, 16, 32, 32, 64, 1),
    "win64": (8, 16, 32, 32, 64, 1),
}
BIDX = {"b": None, "c": 0, "h": 1, "i": 2, "l": 3, "q": 4}
# (C spelling, base, sign)   plain char is modelled with the sign cppcheck gives it: none
VTYPES = [("_Bool", "b", "u"), ("signed char", "c", "s"), ("unsigned char", "c", "u"), ("short", "h", "s"),
          ("unsigned short", "h", "u"), ("int", "i", "s"), ("unsigned int", "i", "u"), ("long", "l", "s"),
          ("unsigned long", "l", "u"), ("long long", "q", "s"), ("unsigned long long", "q", "u")]
SUFFIX = {("i", "s"): "", ("i", "u"): "U", ("l", "s"): "L", ("l", "u"): "UL", ("q", "s"): "LL", ("q", "u"): "ULL"}
OPS = ["==", "!=", "<", "<=", ">", ">="]

VERDICT_IDS = ("knownConditionTrueFalse", "oppositeInnerCondition", "identicalInnerCondition",
               "identicalConditionAfterEarlyExit", "duplicateCondition", "comparisonError",
               "compareValueOutOfTypeRangeError", "knownArgument", "incorrectLogicOperator",
               "unsignedLessThanZero", "unsignedPositive", "multiCondition")


def bits(plat, b):
    return 1 if b == "b" else PLATFORMS[plat][BIDX[b]]


def trange(plat, b, s):
    if b == "b":
        return (0, 1)
    n = bits(plat, b)
    return (0, 2 ** n - 1) if s == "u" else (-2 ** (n - 1), 2 ** (n - 1) - 1)


def plat_fields(plat):
    return [str(x) for x in PLATFORMS[plat]]


def model_lines(model, lines):
    rc, out, err = vlib.run_lines([model], [vlib.enc_case(l) for l in lines])
    if rc != 0 or len(out) != len(lines):
        raise vlib.BuildError("model run failed: " + err[-500:])
    return [vlib.dec_line(o) for o in out]


# ------------------------------------------------------------------ X1a: compareValueOutOfTypeRange
def oor_cases(rng, plat, n):
    """(vt, ct, const_left, op, c): constants at and around the edges of every width, with every literal type they fit"""
    cases = []
    mags = set()
    for w in (1, 7, 8, 15, 16, 31, 32, 33, 62):
        for d in (-2, -1, 0, 1, 2):
            mags.add(2 ** w + d)
    mags |= {1, 2, 3, 5, 100, 200, 1000, 40000, 70000, 3000000000, 5000000000}
    mags = sorted(m for m in mags if m > 0)
    for _ in range(n):
        vt = rng.choice(VTYPES)
        m = rng.choice(mags)
        neg = rng.random() < 0.3
        cts = []
        for (cb, cs) in SUFFIX:
            lo, hi = trange(plat, cb, cs)
            if m <= hi and not (neg and cs == "u"):
                cts.append((cb, cs))
        if not cts:
            continue
        cb, cs = rng.choice(cts[:2] if rng.random() < 0.7 else cts)
        cases.append((vt, (cb, cs), rng.random() < 0.35, rng.choice(OPS), -m if neg else m))
    return cases


def run_oor(run, model, plat, cases, work, exec_native):
    """returns list of (case, kernel, reported) disagreements and list of wrong verdicts"""
    src = []
    for i, (vt, ct, cl, op, c) in enumerate(cases):
        lit = ("-%d%s" % (-c, SUFFIX[ct])) if c < 0 else "%d%s" % (c, SUFFIX[ct])
        cond = "%s %s x" % (lit, op) if cl else "x %s %s" % (op, lit)
        src.append("int f%d(%s x) { if (%s) return 1; return 0; }" % (i, vt[0], cond))
    path = os.path.join(work, "oor_%s.c" % plat)
    open(path, "w").write("\n".join(src) + "\n")
    rep = {}
    for f in vc.cppcheck_findings(path, plat, enable="style", inconclusive=False):
        if f.id == "compareValueOutOfTypeRangeError":
            rep[f.line - 1] = (vc.verdict_of_msg(f.msg), f.msg)
    pf = plat_fields(plat)
    ker = model_lines(model, [["oor"] + pf + [vt[1], vt[2], ct[0], ct[1], "1" if cl else "0", op, str(c)] for (vt, ct, cl, op, c) in cases])
    # the C value of the comparison at the edges of the variable's range (reference semantics)
    probes, owner = [], []
    for i, (vt, ct, cl, op, c) in enumerate(cases):
        if i in rep:
            lo, hi = trange(plat, vt[1], vt[2])
            for x in sorted({lo, lo + 1, -1, 0, 1, hi - 1, hi} & set(range(lo, hi + 1)) if hi - lo < 10 ** 6 else {lo, lo + 1, -1 if lo < 0 else 0, 0, 1, hi - 1, hi}):
                probes.append(["ccmp"] + pf + [vt[1], vt[2], ct[0], ct[1], "1" if cl else "0", op, str(x), str(c)])
                owner.append((i, x))
    cv = model_lines(model, probes) if probes else []
    diffs, wrong = [], {}
    stream = "oor:" + plat
    for i, case in enumerate(cases):
        k = {b"N": None, b"T": True, b"F": False}.get(ker[i][0] if ker[i] else b"?", "bad")
        r = rep.get(i, (None, ""))[0]
        vt, ct, cl, op, c = case
        run.count(stream, None, nontrivial=(plat, vt[0], ct, cl, op, c) if (k is not None or r is not None) else None,
                  bucket="%s/%s" % ({None: "none", True: "true", False: "false"}.get(k, "bad"), "L" if cl else "R"))
        if k != r:
            diffs.append((plat, case, k, r, src[i]))
    for (i, x), v in zip(owner, cv):
        if v and v[0] == b"V":
            truth = int(v[3]) != 0
            if truth != rep[i][0] and i not in wrong:
                wrong[i] = (x, truth)
    return diffs, [(plat, cases[i], rep[i], wrong[i], src[i]) for i in sorted(wrong)]


def oor_known_class(plat, case):
    """the recorded defects: (a) operands of equal size, different rank and different sign: the token's Known value takes the
    left operand's sign (C01's vf-equal-size-different-rank, truncateImplicitConversion); (b) a signed variable that the
    usual arithmetic conversions turn into an unsigned (wider or equal) type because the constant is unsigned -- the checker
    compares mathematically"""
    vt, ct, cl, op, c = case
    pb = lambda b: max(bits(plat, b), bits(plat, "i"))
    pr = lambda b: b if bits(plat, b) >= bits(plat, "i") else "i"
    ps = lambda b, s_: s_ if bits(plat, b) >= bits(plat, "i") else "s"
    if pb(vt[1]) == pb(ct[0]) and pr(vt[1]) != pr(ct[0]) and ps(vt[1], vt[2]) != ps(ct[0], ct[1]):
        return "oor-equal-size-different-rank"
    return None


# ------------------------------------------------------------------ X1b: (x & c1) op c2
def mask_cases(rng, n):
    cs = [0, 1, 2, 3, 4, 5, 6, 7, 8, 9, 12, 15, 16, 17, 31, 32, 240, 255, 256, 65535, 65536]
    out = []
    for _ in range(n):
        c = (rng.choice(["&", "|"]), rng.choice(["int", "unsigned int", "unsigned char", "long long"]), rng.random() < 0.3,
             rng.choice(OPS), rng.choice(cs), rng.choice(cs))
        if c[0] == "&" and c[4] == 0:
            continue        # (x & 0) is itself a Known-valued token: the checker then takes it for the constant side
        out.append(c)
    return out


def run_mask(run, model, cases, work):
    src = []
    for i, (bop, t, cl, op, c1, c2) in enumerate(cases):
        cond = "%d %s (x %s %d)" % (c2, op, bop, c1) if cl else "(x %s %d) %s %d" % (bop, c1, op, c2)
        src.append("int f%d(%s x) { if (%s) return 1; return 0; }" % (i, t, cond))
    path = os.path.join(work, "mask.c")
    open(path, "w").write("\n".join(src) + "\n")
    rep = {}
    for f in vc.cppcheck_findings(path, "unix64", enable="style", inconclusive=False):
        if f.id == "comparisonError":
            rep[f.line - 1] = vc.verdict_of_msg(f.msg)
    ker = model_lines(model, [["mask", "1" if bop == "&" else "0", "1" if t.startswith("unsigned") else "0", "1" if cl else "0", op, str(c1), str(c2)]
                              for (bop, t, cl, op, c1, c2) in cases])
    diffs, wrong = [], []
    for i, case in enumerate(cases):
        bop, t, cl, op, c1, c2 = case
        k = {b"N": None, b"T": True, b"F": False}.get(ker[i][0] if ker[i] else b"?", "bad")
        r = rep.get(i)
        run.count("mask", None, nontrivial=case if (k is not None or r is not None) else None,
                  bucket="%s/%s/%s" % (bop, {None: "none", True: "true", False: "false"}.get(k, "bad"), "L" if cl else "R"))
        if k != r:
            diffs.append((case, k, r, src[i]))
        if r is not None:
            # the property on this one-line program: the condition as written, over a sweep of x
            hi = {"unsigned char": 255}.get(t, 70000)
            lo = 0 if t.startswith("unsigned") else -300
            for x in list(range(lo, 600)) + [hi, hi - 1, 65535, 65536, 65537]:
                if x > hi:
                    continue
                v = (x & c1) if bop == "&" else (x | c1)
                a, b = (c2, v) if cl else (v, c2)
                truth = {"==": a == b, "!=": a != b, "<": a < b, "<=": a <= b, ">": a > b, ">=": a >= b}[op]
                if truth != r:
                    wrong.append((case, r, x, src[i]))
                    break
    return diffs, wrong


# ------------------------------------------------------------------ X2: programs
def map_findings(funcs, findings, pos, spans):
    """findings -> checks: ('bool', site, verdict, finding) | ('pair', first, second, finding) | ('value', site, v, finding)"""
    at = {p: s for s, p in pos.items()}
    site_e = {}
    for f in funcs:
        site_e.update(f.sites)
    # operand position -> the comparison it belongs to (comparisonError is reported on the bit operator,
    # compareValueOutOfTypeRangeError on the constant)
    operand_of = {}
    for s, e in site_e.items():
        if e.kind == "bin" and e.op in mg.CMPS:
            for o in (e.a, e.b):
                operand_of[(o.line, o.col)] = s
                if o.kind == "num" and o.v < 0:      # the tokenizer joins "-" and the digits; the column is the digits'
                    operand_of[(o.line, o.col + 1)] = s
    checks, unmapped = [], []
    for f in findings:
        if f.id not in VERDICT_IDS:
            continue
        p = (f.line, f.col)
        if f.id in ("knownConditionTrueFalse", "incorrectLogicOperator", "multiCondition"):
            v = vc.verdict_of_msg(f.msg)
            if p in at and v is not None:
                checks.append(("bool", at[p], v, f))
            else:
                unmapped.append(f)
        elif f.id in ("unsignedLessThanZero", "unsignedPositive"):
            # only the strict forms are verdicts ("x < 0" false, "x >= 0" true); "x <= 0" gets the same message
            e = site_e.get(at.get(p))
            zero = lambda o: o.kind == "num" and o.v == 0
            if e is not None and e.kind == "bin" and ((e.op == "<" and zero(e.b)) or (e.op == ">" and zero(e.a))) and f.id == "unsignedLessThanZero":
                checks.append(("bool", at[p], False, f))
            elif e is not None and e.kind == "bin" and ((e.op == ">=" and zero(e.b)) or (e.op == "<=" and zero(e.a))) and f.id == "unsignedPositive":
                checks.append(("bool", at[p], True, f))
        elif f.id in ("oppositeInnerCondition", "identicalConditionAfterEarlyExit"):
            if p in at:
                checks.append(("bool", at[p], False, f))
            else:
                unmapped.append(f)
        elif f.id in ("identicalInnerCondition",):
            if p in at:
                checks.append(("bool", at[p], True, f))
            else:
                unmapped.append(f)
        elif f.id == "duplicateCondition":
            q = (f.locs[1][0], f.locs[1][1]) if len(f.locs) > 1 else None
            if p in at and q in at:
                checks.append(("pair", at[q], at[p], f))
            else:
                unmapped.append(f)
        elif f.id in ("comparisonError", "compareValueOutOfTypeRangeError"):
            v = vc.verdict_of_msg(f.msg)
            if p in operand_of and v is not None:
                checks.append(("bool", operand_of[p], v, f))
            else:
                unmapped.append(f)
        elif f.id == "knownArgument":
            m = re.search(r"is always (-?\d+)", f.msg)
            if p in at and m and site_e[at[p]].skind == "V":
                checks.append(("value", at[p], int(m.group(1)), f))
            elif p in at and m:
                checks.append(("bool", at[p], int(m.group(1)) != 0, f))
            else:
                unmapped.append(f)
    return checks, unmapped


def parse_report(out):
    rows, div = {}, 0
    for l in out.split("\n"):
        t = l.split(" ")
        if t[0] == "S" and len(t) >= 10:
            rows[int(t[1])] = {"n": (int(t[2]), int(t[3])), "wit": ([int(x) for x in t[4].split(",")], [int(x) for x in t[5].split(",")]),
                               "vmin": int(t[6]), "vmax": int(t[7]), "pairbad": int(t[8]), "pairwit": [int(x) for x in t[9].split(",")]}
        elif t[0] == "D":
            div = int(t[1])
        elif t[0] == "F":
            rows[("F", int(t[1]))] = int(t[2])
    return rows, div


def func_of_site(funcs):
    m = {}
    for f in funcs:
        for s in f.sites:
            m[s] = f
    return m


def one_function_program(f):
    """replay text: the function alone, as the analyser saw it"""
    text, _, _ = mg.render_plain([f])
    return text


def reset_sites(funcs):
    for f in funcs:
        f.sites = {}
        for st in walk_stmts(f.body):
            for e in stmt_exprs(st):
                for n in e.walk():
                    n.site, n.skind = None, None


def walk_stmts(stmts):
    for s in stmts:
        yield s
        if s.kind == "if":
            yield from walk_stmts(s.then)
            if s.els is not None:
                yield from walk_stmts(s.els)
        elif s.kind in ("while", "for", "dowhile"):
            yield from walk_stmts(s.body)


def stmt_exprs(s):
    if s.kind in ("if", "while", "for", "dowhile"):
        return [s.c]
    if s.kind in ("decl", "assign", "return", "sink"):
        return [s.e]
    return []


MINIC = {"model": None, "budget": 2000, "stats": {}}      # set by check(): extracted Coq interpreter = primary oracle


def judge(funcs, work, name, count=None):
    """analyse + execute the given functions; returns (stats, wrong verdicts, unmapped findings, all findings)"""
    reset_sites(funcs)
    nid = 0
    for f in funcs:
        nid = f.assign_sites(nid)
    plain, pos, spans = mg.render_plain(funcs)
    path = os.path.join(work, name + ".c")
    open(path, "w").write(plain)
    findings = vc.cppcheck_findings(path, "unix64")
    checks, unmapped = map_findings(funcs, findings, pos, spans)
    pairs = {c[2]: c[1] for c in checks if c[0] == "pair"}
    itext, ispans = mg.render_instrumented(funcs, nid, pairs)
    ipath = os.path.join(work, name + "_run.c")
    open(ipath, "w").write(itext)
    exe = os.path.join(work, name + "_run")
    vc.gcc_build(ipath, exe)
    rc, out, err = vc.run_exe(exe, timeout=1200)
    rows, ndiv = parse_report(out)
    if rc != 0 or not rows:
        raise vlib.BuildError("generated program did not run (rc=%s): %s" % (rc, err[-500:]))
    # functions in which the sanitizer saw undefined behaviour are not judged
    ub_funcs = set()
    for m in re.finditer(r"%s:(\d+):\d+: runtime error" % re.escape(os.path.basename(ipath)), err):
        ln = int(m.group(1))
        for fn, (a, b) in ispans.items():
            if a <= ln <= b:
                ub_funcs.add(fn)
    fos = func_of_site(funcs)
    stats = {"functions": len(funcs), "sites": nid, "findings": len(findings), "verdict_findings": len(checks), "unmapped": len(unmapped),
             "ub_functions": len(ub_funcs), "diverged_calls": ndiv}
    # primary oracle: the Coq MiniC interpreter on the functions that carry verdict findings and fall into its fragment
    sw = {}
    if MINIC["model"]:
        import c03_minic
        need = []
        for c in checks:
            fn_ = fos[c[2] if c[0] == "pair" else c[1]]
            if fn_ not in need:
                need.append(fn_)
        sw = c03_minic.sweep(MINIC["model"], need, MINIC["budget"])
        st_ = MINIC["stats"]
        fidx = {f.name: i for i, f in enumerate(funcs)}
        for fn_ in need:
            status, crow, tot_ = sw[fn_.name]
            key_ = status.replace(": ", ":").replace(" ", "-")
            st_[key_] = st_.get(key_, 0) + 1
            st_["calls"] = st_.get("calls", 0) + tot_.get("ok", 0)
            # cross-check of the two oracles: when neither cut a call short, everything Coq saw on its sub-domain gcc saw too
            if status == "ok" and tot_.get("fuel", 0) == 0 and rows.get(("F", fidx[fn_.name]), 0) == 0 and fn_.name not in ub_funcs:
                for site_, r_ in crow.items():
                    g_ = rows.get(site_)
                    e_ = fn_.sites.get(site_)
                    if g_ is None or e_ is None:
                        continue
                    st_["cross_checked_sites"] = st_.get("cross_checked_sites", 0) + 1
                    if e_.skind == "V":
                        okx = g_["vmin"] <= r_["vmin"] and r_["vmax"] <= g_["vmax"]
                    else:
                        okx = all(g_["n"][v_] > 0 for v_ in (0, 1) if r_["n"][v_] > 0)
                    if not okx:
                        st_.setdefault("oracle_disagreements", []).append((name, fn_.name, site_, r_["n"], g_["n"], r_["wit"]))
    bad = []
    for c in checks:
        kind, f = c[0], c[3]
        site = c[2] if kind == "pair" else c[1]
        fn = fos[site]
        row = rows.get(site)
        crow = None
        if fn.name in sw and sw[fn.name][0] == "ok" and kind in ("bool", "value"):
            crow = sw[fn.name][1].get(site)
        if crow is not None and fn.name not in ub_funcs:
            names_ = [n for _, n, _ in fn.params]
            if kind == "bool" and crow["n"][0 if c[2] else 1] > 0:
                MINIC["stats"]["contradicted_by_coq"] = MINIC["stats"].get("contradicted_by_coq", 0) + 1
                fn.coq_witness = getattr(fn, "coq_witness", {})
                fn.coq_witness[site] = dict(zip(names_, crow["wit"][0 if c[2] else 1]))
            MINIC["stats"]["verdicts_decided_by_coq"] = MINIC["stats"].get("verdicts_decided_by_coq", 0) + 1
        if fn.name in ub_funcs:
            if count:
                count(f.id + ":ub-discarded", None)
            continue
        evaluated = row and (row["n"][0] + row["n"][1] > 0)
        if count:
            count(f.id + (":inconclusive" if f.inconclusive else "") + ("" if evaluated else ":never-evaluated"),
                  (name, site, f.id) if evaluated else None)
        if not evaluated:
            continue
        names = [n for _, n, _ in fn.params]
        if kind == "bool" and crow is not None and fn.name not in ub_funcs and crow["n"][0 if c[2] else 1] > 0:
            # decided by the Coq interpreter (primary oracle); gcc's counts are quoted as the cross-check
            v = c[2]
            w = crow["wit"][0 if v else 1]
            bad.append((f, fn, dict(zip(names, w)), "evaluates to %s for this input in the Coq MiniC interpreter (%d of %d evaluations on its sub-domain; gcc: %d of %d)" % (
                "false" if v else "true", crow["n"][0 if v else 1], sum(crow["n"]), row["n"][0 if v else 1], sum(row["n"])), fn.sites[site]))
        elif kind == "bool":
            v = c[2]
            if row["n"][0 if v else 1] > 0:
                w = row["wit"][0 if v else 1]
                bad.append((f, fn, dict(zip(names, w)), "evaluates to %s for this input (%d of %d evaluations)" % (
                    "false" if v else "true", row["n"][0 if v else 1], sum(row["n"])), fn.sites[site]))
        elif kind == "pair":
            if row["pairbad"] > 0:
                bad.append((f, fn, dict(zip(names, row["pairwit"])), "the two conditions differ in one call (%d calls)" % row["pairbad"], fn.sites[site]))
        else:
            if row["vmin"] != c[2] or row["vmax"] != c[2]:
                w = row["wit"][0] if row["vmin"] != c[2] else row["wit"][1]
                bad.append((f, fn, dict(zip(names, w)), "argument takes values %d..%d" % (row["vmin"], row["vmax"]), fn.sites[site]))
    return stats, bad, unmapped, findings


def corpus_funcs():
    """fixed regression programs, one per defect class that was found here and has been repaired"""
    from minic_gen import S, Func, var, num, bin_, un
    P3 = c03_gen.PARAM_SETS[2]      # unsigned char a, _Bool c, int p
    fs = []
    for i, (op, k, inner) in enumerate([("<", 1, lambda: un("!", var("c"))), ("<", 5, lambda: un("!", var("c"))),
                                        ("<=", 1, lambda: var("c")), ("<", 2, lambda: var("c"))]):
        # 0804a71: a relational bound of a bool operand was negated like a point value
        body = [S("if", c=bin_(op, var("c"), num(k)), then=[S("if", c=inner(), then=[S("return", e=num(8))], els=None)], els=None),
                S("return", e=num(0))]
        fs.append(Func("k%d" % i, P3, body))
    # 16eb134: constant on the left of a bit-mask comparison
    fs.append(Func("k4", P3, [S("if", c=bin_(">", num(8), bin_("&", var("a"), num(3))), then=[S("return", e=num(1))], els=None), S("return", e=num(0))]))
    # seeded change on followVariableExpression: alias of a variable that is modified later in a loop body (back edge)
    for i, kind in enumerate(["dowhile", "while", "for"]):
        inner = [S("if", c=bin_("==", var("al"), num(0)), then=[S("if", c=bin_("!=", var("a"), num(0)), then=[S("assign", name="r", op="+=", e=num(1))], els=None)], els=None),
                 S("incdec", name="a", op="++")]
        pre = [S("decl", type="int", name="al", e=var("a")), S("decl", type="int", name="r", e=num(0))]
        if kind == "for":
            loop = [S("for", var="i", lo=0, c=bin_("<", var("i"), num(3)), body=inner)]
        else:
            pre.append(S("decl", type="int", name="i", e=num(0)))
            loop = [S(kind, c=bin_("<", var("i"), num(3)), body=inner + [S("incdec", name="i", op="++")])]
        fs.append(Func("k%d" % (6 + i), P3, pre + loop + [S("return", e=var("r"))]))
    fs.append(Func("k5", P3, [S("if", c=bin_("<", num(2), bin_("&", var("a"), num(1))), then=[S("return", e=num(1))], els=None), S("return", e=num(0))]))
    return fs


def run_programs(run, nfuncs, work, name):
    import random
    # the program family is FIXED (independent of VERIF_SEED; quick = a prefix of thorough): value flow is unsound on a small
    # fraction of random programs through many inference paths, every failing member of the family is triaged and listed
    if name.startswith("alias"):
        gen = c03_gen.AliasGen(random.Random("C03-x2-family-%s" % name))     # second family, added later: own constant seeds
    else:
        gen = c03_gen.Gen(random.Random("C03-x2-family-%s" % name))
    funcs = [gen.function("f%d" % i) for i in range(nfuncs)]
    return judge(funcs, work, name, count=lambda bucket, nt: run.count("programs", None, nontrivial=nt, bucket=bucket))


def variants(fn):
    """one-step reductions of a function: drop a statement, replace a compound statement by a branch / its body"""
    def lists(stmts, acc):
        acc.append(stmts)
        for s in stmts:
            if s.kind == "if":
                lists(s.then, acc)
                if s.els is not None:
                    lists(s.els, acc)
            elif s.kind in ("while", "for", "dowhile"):
                lists(s.body, acc)
        return acc
    nlists = len(lists(fn.body, []))
    for li in range(nlists):
        n = len(lists(fn.body, [])[li])
        for i in range(n):
            for mode in ("drop", "then", "else", "body"):
                g = copy.deepcopy(fn)
                L = lists(g.body, [])[li]
                s = L[i]
                if mode == "drop":
                    if s.kind == "decl" or (s.kind == "return" and L is g.body and i == n - 1):
                        continue
                    del L[i]
                elif mode == "then" and s.kind == "if":
                    L[i:i + 1] = s.then
                elif mode == "else" and s.kind == "if" and s.els is not None:
                    L[i:i + 1] = s.els
                elif mode == "body" and s.kind in ("while", "dowhile"):
                    L[i:i + 1] = s.body
                else:
                    continue
                yield g


def shrink(fn, fid, work, budget=120):
    """greedy statement-level reduction keeping 'a finding with this id is contradicted by an execution'"""
    def still(g):
        try:
            _, bad, _, _ = judge([g], work, "shrink")
        except (vlib.BuildError, Exception):
            return None
        for b in bad:
            if b[0].id == fid and not b[0].inconclusive:
                return b
        return None
    cur, curbad = fn, None
    progress = True
    while progress and budget > 0:
        progress = False
        for g in variants(cur):
            budget -= 1
            if budget <= 0:
                break
            b = still(g)
            if b is not None:
                cur, curbad, progress = g, b, True
                break
    if curbad is None:
        curbad = still(cur)
    return cur, curbad


def mentions(e, name):
    return any(n.kind == "var" and n.name == name for n in e.walk())


def classify_program_violation(f, fn, expr):
    """map a wrong verdict to a recorded defect only when the (shrunk) program shows that defect's precondition"""
    ptype = {n: t for t, n, _ in fn.params}
    if f.id in ("knownConditionTrueFalse", "knownArgument", "identicalInnerCondition", "oppositeInnerCondition", "incorrectLogicOperator",
                "identicalConditionAfterEarlyExit", "multiCondition", "duplicateCondition"):
        ltype = {}
        for st in walk_stmts(fn.body):
            if st.kind == "decl":
                ltype[st.name] = st.type
        allt = dict(ptype)
        allt.update(ltype)
        # (2) an unsigned variable changed by ++ / -- / += / -= and used in the condition: bounds move without wrap-around
        for st in walk_stmts(fn.body):
            if (st.kind == "incdec" or (st.kind == "assign" and st.op in ("+=", "-="))) and allt.get(st.name, "").startswith("unsigned") \
                    and mentions(expr, st.name):
                return "vf-unsigned-incdec-bounds-no-wrap"
        # (4) a break inside a loop is taken as leaving the enclosing scopes: the negated guard of the break (or of an
        #     `if` around the loop with the break) is assumed after them
        def has_break(stmts):
            return any(st.kind == "break" for st in walk_stmts(stmts))
        evars = {n.name for n in expr.walk() if n.kind == "var"}
        for st in walk_stmts(fn.body):
            if st.kind == "if" and has_break(st.then) and evars & {n.name for n in st.c.walk() if n.kind == "var"}:
                return "vf-break-treated-as-scope-exit"
        # (3) a narrower variable initialised/assigned from a wider expression and both used in the condition:
        #     the symbolic value "u == x" survives the truncating assignment
        for st in walk_stmts(fn.body):
            if st.kind in ("decl", "assign") and getattr(st, "op", "=") == "=" and allt.get(st.name) in ("unsigned char", "unsigned") and mentions(expr, st.name) \
                    and st.e.kind != "num":
                for n in st.e.walk():
                    if n.kind == "var" and allt.get(n.name) in ("int", "unsigned", "signed char"):
                        return "vf-narrowing-assignment-not-truncated"
    return None


def prog_hash(fn):
    import hashlib
    return hashlib.sha1(re.sub(r"\s+", " ", one_function_program(fn)).encode()).hexdigest()[:10]


def check(run, replay):
    quick = run.tier == "quick"
    run.level = "proof"
    run.trusted_base += [
        "Coq 8.16.1 kernel; extraction ExtrOcamlBasic only; ocaml/driver.ml",
        "C semantics of a comparison = VF/Defs.v eval_bin (usual arithmetic conversions per platform), shared with C01",
        "X2 oracle: gcc 12 -O1 -fsanitize=undefined executes the generated program over its whole declared input domain; "
        "tools/props/minic_gen.py renders the same syntax tree twice (plain for the analyser, instrumented for gcc) and maps findings to conditions by (line, column) of the root token",
        "partial: isSameExpression / value-flow / 'not modified in between' reasoning of alwaysTrueFalse and multiCondition2 is not modelled; those verdicts are validated per generated program only",
    ]
    run.extra["rule"] = ("X1 non-trivial = a distinct (platform, type, constant type, side, operator, constant) for which the kernel or the binary gives a verdict. "
                         "X2 non-trivial = a distinct verdict finding (condition site, id) whose condition is evaluated at least once in the exhaustive run.")
    vlib.ensure_repo_build()
    ok = run.prove(extra_targets=["theories/Verdict/Run.vo"])
    if not ok:
        run.violation("proof:" + PID, "Properties_C03.vo does not build: " + str(run.proof_error())[:300],
                      {"broken": "proof", "detail": run.proof_error()}, found_input=False)
    model = vlib.build_model(PID)
    work = tempfile.mkdtemp(prefix="c03_", dir=vlib.BUILD)
    rng = run.rng
    try:
        # ---------------- X1a
        for plat in PLATFORMS:
            cases = oor_cases(rng, plat, 1500 if quick else 20000)
            diffs, wrong = run_oor(run, model, plat, cases, work, plat == "unix64")
            run.stream("oor:" + plat)["disagreements"] += len(diffs)
            for plat_, case, k, r, line in diffs[:3]:
                run.violation("oor-kernel:%s:%s" % (plat, line), "kernel says %s, cppcheck --platform=%s reports %s for `%s`" % (k, plat, r, line),
                              {"broken": "correspondence out_of_type_range", "program": line, "platform": plat, "kernel": k, "reported": r},
                              found_input=False)
            seen = set()
            for plat_, case, (v, msg), (x, truth), line in wrong:
                key = oor_known_class(plat, case) or "oor-wrong:%s:%s" % (plat, line)
                if key in seen:
                    continue
                seen.add(key)
                run.violation(key, "cppcheck --platform=%s: `%s`: \"%s\" but for x = %d the comparison is %s" % (plat, line, msg, x, truth),
                              {"program": line + "\n", "platform": plat, "finding": msg, "input": {"x": x}, "value_in_C": truth,
                               "how": "cppcheck --enable=style --platform=%s t.c; then compile `program` and call f(%d)" % (plat, x)})
        # ---------------- X1b
        cases = mask_cases(rng, 3000 if quick else 40000)
        diffs, wrong = run_mask(run, model, cases, work)
        run.stream("mask")["disagreements"] += len(diffs)
        for case, k, r, line in diffs[:3]:
            run.violation("mask-kernel:" + line, "kernel says %s, cppcheck reports %s for `%s`" % (k, r, line),
                          {"broken": "correspondence mask_compare", "program": line, "kernel": k, "reported": r}, found_input=False)
        seen = set()
        for case, r, x, line in wrong:
            bop, t, cl, op, c1, c2 = case
            key = "mask-wrong:" + line
            if key in seen:
                continue
            seen.add(key)
            run.violation(key, "`%s`: comparisonError says always %s, but f(%d) takes the other branch" % (line, r, x),
                          {"program": line + "\n", "finding": "comparisonError always %s" % r, "input": {"x": x}})
        # ---------------- X2
        rounds = 5 if quick else 40
        per = 60 if quick else 100
        tot = {}
        MINIC["model"], MINIC["budget"], MINIC["stats"] = model, 2000, {}
        family = json.load(open(os.path.join(os.path.dirname(os.path.abspath(__file__)), "c03_family.json")))
        shrinks = [4 if quick else 30]
        arounds = 2 if quick else 10
        aper = 40 if quick else 100
        for rd in range(-1, rounds + arounds):
            if rd >= rounds:
                stats, bad, unmapped, findings = run_programs(run, aper, work, "alias%d" % (rd - rounds))
            elif rd < 0:
                stats, bad, unmapped, findings = judge(corpus_funcs(), work, "corpus",
                                                       count=lambda bucket, nt: run.count("programs", None, nontrivial=nt, bucket="corpus:" + bucket))
            else:
                stats, bad, unmapped, findings = run_programs(run, per, work, "prog%d" % rd)
            for k, v in stats.items():
                tot[k] = tot.get(k, 0) + v
            for f in unmapped[:2]:
                run.notes.append("unmapped: " + f.show())
            rname = "corpus" if rd < 0 else ("prog%d" % rd if rd < rounds else "alias%d" % (rd - rounds))
            for f, fn, inp, what, expr in bad:
                if f.inconclusive:
                    tot["inconclusive_contradicted"] = tot.get("inconclusive_contradicted", 0) + 1
                    continue
                tot["contradicted"] = tot.get("contradicted", 0) + 1
                member = "%s:%s:%s:%s" % (rname, fn.name, f.id, expr.key())
                run.stream("programs")["disagreements"] += 1
                if member in family:
                    # a triaged member of the fixed family: its root-cause class is recorded (docs/C03.md)
                    run.violation(family[member], "%s \"%s\" -- %s %s" % (f.id, f.msg[:100], what, inp),
                                  {"program": one_function_program(fn), "finding": f.show(), "input": inp, "member": member})
                    continue
                g, b = fn, None
                if shrinks[0] > 0:
                    shrinks[0] -= 1
                    g, b = shrink(copy.deepcopy(fn), f.id, work, budget=60 if quick else 200)
                if b is None:
                    g, b = fn, (f, fn, inp, what, expr)
                f2, fn2, inp2, what2, expr2 = b
                run.violation("verdict:" + member, "%s \"%s\" -- %s %s" % (f2.id, f2.msg[:100], what2, inp2),
                              {"program": one_function_program(g), "finding": f2.show(), "input": inp2, "observation": what2, "member": member,
                               "condition": expr2.key(), "suggested_class": classify_program_violation(f2, g, expr2),
                               "shrunk_from_lines": len(one_function_program(fn).split("\n")),
                               "how": "cppcheck --enable=style,warning --inconclusive --platform=unix64 t.c; compile with gcc -fsanitize=undefined and call the function with `input`"})
            if len(run.samples) < 10 and findings:
                fs = [f for f in findings if f.id in VERDICT_IDS][:2]
                run.samples += [{"stream": "programs", "finding": f.show()} for f in fs]
        run.extra["programs"] = tot.get("functions", 0)
        run.extra["x2_programs"] = tot
        ms = dict(MINIC["stats"])
        dis = ms.pop("oracle_disagreements", [])
        run.extra["x2_coq_minic_oracle"] = ms
        for d_ in dis[:3]:
            run.violation("oracle:%s:%s:%s" % (d_[0], d_[1], d_[2]), "the Coq MiniC interpreter saw site %s take values %s, gcc saw %s (witness inputs %s)" % (d_[2], d_[3], d_[4], d_[5]),
                          {"broken": "the two executing oracles disagree", "round": d_[0], "function": d_[1]}, found_input=False)
        run.extra["notes"] = run.notes[:10]
    finally:
        shutil.rmtree(work, ignore_errors=True)


if __name__ == "__main__":
    vlib.main(check, PID)
