"""C05 end-to-end leg (X3): meaning-preserving rewrites of a program and the comparison of cppcheck's
findings under the rewrite's location/name map. Inputs and projections only; the verdict rule
(which differences count) is the property text + tools/props/c05_excluded.json."""
import os
import re
import subprocess
import sys
import xml.etree.ElementTree as ET

sys.path.insert(0, os.path.dirname(os.path.dirname(os.path.abspath(__file__))))
import vlib

PUNCT = ["%:%:", "...", "<<=", ">>=", "->*", "<=>", "##", "::", "->", "++", "--", "<<", ">>", "<=", ">=", "==", "!=", "&&", "||",
         "+=", "-=", "*=", "/=", "%=", "&=", "|=", "^=", ".*", "<:", ":>", "<%", "%>", "%:"]
TOKEN_RE = re.compile(
    r'(?P<ws>[ \t\f\v\r\n]+|//[^\n]*|/\*.*?\*/)'
    r'|(?P<str>(?:u8|u|U|L)?"(?:\\.|[^"\\\n])*")'
    r"|(?P<chr>(?:u8|u|U|L)?'(?:\\.|[^'\\\n])+')"
    r'|(?P<num>\.?[0-9](?:[eEpP][+-]|[A-Za-z0-9_.\'])*)'
    r'|(?P<id>[A-Za-z_$][A-Za-z0-9_$]*)'
    r'|(?P<op>' + "|".join(re.escape(p) for p in PUNCT) + r'|[^\s])', re.S)

KEYWORDS = set("""alignas alignof and and_eq asm auto bitand bitor bool break case catch char char16_t char32_t class compl const
constexpr const_cast continue decltype default delete do double dynamic_cast else enum explicit export extern false float for
friend goto if inline int long mutable namespace new noexcept not not_eq nullptr operator or or_eq private protected public
register reinterpret_cast return short signed sizeof static static_assert static_cast struct switch template this thread_local
throw true try typedef typeid typename union unsigned using virtual void volatile wchar_t while xor xor_eq restrict _Bool
_Complex _Noreturn _Static_assert _Atomic _Alignas _Alignof _Generic _Thread_local override final size_t NULL""".split())


class Tk:
    __slots__ = ("s", "kind", "line", "col", "gap", "directive")

    def __init__(self, s, kind, line, col, gap, directive=False):
        self.s, self.kind, self.line, self.col, self.gap, self.directive = s, kind, line, col, gap, directive


def tokenize(src):
    """-> list of Tk (directive lines are single tokens of kind 'pp'); gap = the separator text before the token.
    Returns None when the text uses something this rewriter does not handle (line splices, raw strings)."""
    if "\\\n" in src or 'R"' in src or "\r" in src or "\t" in src:
        return None
    toks, pos, line, col = [], 0, 1, 1
    gap = ""
    at_line_start = True
    n = len(src)
    while pos < n:
        if at_line_start:
            m = re.match(r'[ \t]*#[^\n]*', src[pos:])
            if m:
                text = m.group(0)
                if "/*" in text and "*/" not in text.split("/*", 1)[1]:
                    return None
                toks.append(Tk(text, "pp", line, col, gap, True))
                gap = ""
                pos += len(text)
                col += len(text)
                at_line_start = False
                continue
        m = TOKEN_RE.match(src, pos)
        if not m:
            return None
        text = m.group(0)
        kind = m.lastgroup
        if kind == "ws":
            gap += text
            if text.startswith("/*") or text.startswith("//"):
                at_line_start = False
        else:
            toks.append(Tk(text, kind, line, col, gap))
            gap = ""
            at_line_start = False
        for ch in text:
            if ch == "\n":
                line += 1
                col = 1
                at_line_start = True
            else:
                col += 1
        pos = m.end()
    toks.append(Tk("", "eof", line, col, gap))
    return toks


def render(toks, gaps):
    """-> (text, positions[(line, col)] of every token)"""
    out, line, col, pos = [], 1, 1, []
    for t, g in zip(toks, gaps):
        for ch in g:
            if ch == "\n":
                line += 1
                col = 1
            else:
                col += 1
        out.append(g)
        pos.append((line, col))
        out.append(t.s)
        col += len(t.s)          # tokens never contain newlines here
    return "".join(out), pos


COMMENTS = ["/* c */", "/*x*/", "// note\n", "/* a\n b */", "//\n", "/**/"]


def rand_ws(rng, newline_ok, comments):
    r = rng.random()
    if comments and r < 0.25:
        c = rng.choice(COMMENTS if newline_ok else [x for x in COMMENTS if "\n" not in x])
        return " " * rng.randint(0, 2) + c + " " * rng.randint(0, 2)
    if newline_ok and r < 0.5:
        return " " * rng.randint(0, 3) + "\n" * rng.randint(1, 3) + " " * rng.randint(0, 8)
    return " " * rng.randint(1, 6)


def rw_whitespace(rng, toks, mode):
    """mode: 'intraline' (spaces/comments inside lines, line structure kept), 'lines' (blank / comment lines
    inserted between existing lines), 'free' (any whitespace, newlines, comments between any two tokens)."""
    gaps = []
    for i, t in enumerate(toks):
        g = t.gap
        prev = toks[i - 1] if i else None
        # a directive owns its line: the gap before it must end a line, the gap after it must start with newline
        after_pp = prev is not None and prev.directive
        if mode == "intraline":
            if "\n" in g or t.directive or after_pp or t.kind == "eof" or "//" in g:
                ng = g
            elif g == "":
                ng = rand_ws(rng, False, True) if rng.random() < 0.4 else ""
            else:
                ng = rand_ws(rng, False, True)
        elif mode == "lines":
            if "\n" in g and "//" not in g and "/*" not in g:
                k = g.rfind("\n")
                extra = "".join(rng.choice(["\n", "// inserted\n", "/* inserted */\n", "   \n"]) for _ in range(rng.randint(0, 3)))
                ng = g[:k + 1] + extra + g[k + 1:]
            else:
                ng = g
        else:
            if t.directive:
                ng = g                                   # ends the previous line as the original did
            elif after_pp:
                ng = "\n" + (rand_ws(rng, True, True) if rng.random() < 0.5 else "")
            elif t.kind == "eof":
                ng = g if g.endswith("\n") else g + "\n"
            elif g == "":
                ng = rand_ws(rng, True, True) if rng.random() < 0.35 else ""
            else:
                ng = rand_ws(rng, True, True)
        if prev is not None and prev.s.endswith("/") and ng.startswith("/"):
            ng = " " + ng                                # `/` + comment would read as `//`
        gaps.append(ng)
    text, pos = render(toks, gaps)
    locmap = {(t.line, t.col): p for t, p in zip(toks, pos)}
    return text, locmap, {}


def declared_names(path, cpp):
    """identifiers declared in the main file (clang): the renameable ones"""
    from props import names_common as NC
    ast = NC.clang_ast(path, cpp)
    if ast is None:
        return None
    decls, _ = NC.clang_links(ast)
    names = set()
    for d in decls.values():
        if d["file"] is None or os.path.abspath(d["file"]) != os.path.abspath(path):
            continue
        if d["name"] and not d["implicit"] and d["kind"] in ("VarDecl", "ParmVarDecl", "FunctionDecl", "FieldDecl", "RecordDecl",
                                                          "CXXRecordDecl", "TypedefDecl", "CXXMethodDecl", "EnumConstantDecl", "EnumDecl"):
            names.add(d["name"])
    return names


def main_file_names(path, cpp, src_toks):
    names = declared_names(path, cpp)
    if names is None:
        return None
    # clang's json has no reliable main-file flag per decl in this projection: keep names that are spelled as an
    # identifier token of this file and are not keywords / well-known library names
    ids = {t.s for t in src_toks if t.kind == "id"}
    return {n for n in names if n in ids and n not in KEYWORDS and n != "main" and not n.startswith("operator")}


def rw_rename(rng, toks, names, style):
    """consistent injective renaming of the given identifiers to fresh ones"""
    used = {t.s for t in toks if t.kind == "id"}
    rho = {}
    for k, n in enumerate(sorted(names)):
        while True:
            if style == "suffix":
                cand = n + "_r%d" % rng.randint(0, 999)
            elif style == "short":
                cand = "v%d" % rng.randint(0, 9999)
            else:
                cand = "".join(rng.choice("abcdefghijklmnopqrstuvwxyzABCDEFGHIJKLMNOPQRSTUVWXYZ") for _ in range(rng.randint(1, 12))) + "%d" % k
            if cand not in used and cand not in KEYWORDS and cand not in rho.values():
                break
        rho[n] = cand
        used.add(cand)
    new = [Tk(rho.get(t.s, t.s) if t.kind == "id" else t.s, t.kind, t.line, t.col, t.gap, t.directive) for t in toks]
    text, pos = render(new, [t.gap for t in new])
    locmap = {(t.line, t.col): p for t, p in zip(toks, pos)}
    return text, locmap, rho


def top_level_chunks(toks):
    """split into top-level items (ending at `;` or `}` at brace depth 0, directives are their own item)"""
    chunks, cur, depth = [], [], 0
    for t in toks:
        if t.kind == "eof":
            break
        cur.append(t)
        if t.directive and depth == 0 and len(cur) == 1:
            chunks.append(cur); cur = []
            continue
        if t.s in ("{", "(", "["):
            depth += 1
        elif t.s in ("}", ")", "]"):
            depth -= 1
            if depth == 0 and t.s == "}":
                # `struct S { } x;`  /  `};` : look ahead is handled by the next `;`
                chunks.append(cur); cur = []
        elif t.s == ";" and depth == 0:
            if chunks and not cur[:-1] and not chunks[-1][0].directive:
                chunks[-1] += cur                     # the `;` after `}`
            else:
                chunks.append(cur)
            cur = []
    if cur:
        chunks.append(cur)
    return chunks


def rw_reorder(rng, toks):
    """swap two adjacent top-level items neither of which mentions an identifier the other one declares or
    mentions at top level (conservative: their identifier sets, keywords aside, are disjoint)"""
    chunks = top_level_chunks(toks)
    cand = []
    for i in range(len(chunks) - 1):
        a, b = chunks[i], chunks[i + 1]
        if a[0].directive or b[0].directive:
            continue
        ia = {t.s for t in a if t.kind == "id" and t.s not in KEYWORDS}
        ib = {t.s for t in b if t.kind == "id" and t.s not in KEYWORDS}
        if ia & ib:
            continue
        cand.append(i)
    if not cand:
        return None
    i = rng.choice(cand)
    order = chunks[:i] + [chunks[i + 1], chunks[i]] + chunks[i + 2:]
    # every item starts on a fresh line so that lines move as blocks
    new, gaps = [], []
    for c in order:
        for k, t in enumerate(c):
            new.append(t)
            gaps.append(("\n" if new[:-1] else "") + "" if k == 0 else t.gap)
    # keep the inner layout of each item: first token's gap is replaced by a newline, the rest as is
    gaps = []
    first = True
    for c in order:
        for k, t in enumerate(c):
            if k == 0:
                gaps.append("" if first else "\n")
            else:
                gaps.append(t.gap)
            first = False
    eof = toks[-1]
    new.append(eof)
    gaps.append("\n")
    text, pos = render(new, gaps)
    locmap = {(t.line, t.col): p for t, p in zip(new, pos)}
    return text, locmap, {}


def normalize_layout(toks):
    """P0: every top-level item on fresh lines (so that reorder compares like with like)"""
    chunks = top_level_chunks(toks)
    new, gaps, first = [], [], True
    for c in chunks:
        for k, t in enumerate(c):
            new.append(t)
            gaps.append(("" if first else "\n") if k == 0 else t.gap)
            first = False
    new.append(toks[-1])
    gaps.append("\n")
    text, _ = render(new, gaps)
    return text


# ------------------------------------------------------------------ running cppcheck, comparing
def run_cppcheck(path, extra=()):
    p = subprocess.run([vlib.CPPCHECK, "--enable=all", "--inconclusive", "--xml", "--quiet", "--suppress=missingIncludeSystem",
                        "--suppress=checkersReport"] + list(extra) + [path],
                       stdout=subprocess.PIPE, stderr=subprocess.PIPE, timeout=300)
    try:
        root = ET.fromstring(p.stderr.decode("utf-8", "replace"))
    except ET.ParseError:
        return None
    res = []
    for e in root.iter("error"):
        locs = tuple((int(l.get("line", "0")), int(l.get("column", "0")), l.get("info") or "") for l in e.findall("location"))
        res.append({"id": e.get("id"), "severity": e.get("severity"), "inconclusive": e.get("inconclusive") == "true",
                    "msg": e.get("msg"), "verbose": e.get("verbose"), "locs": locs,
                    "symbols": tuple(s.text or "" for s in e.findall("symbol"))})
    return res


def map_text(s, rho, linemap):
    if s is None:
        return s
    if rho:
        s = re.sub(r"[A-Za-z_][A-Za-z0-9_]*", lambda m: rho.get(m.group(0), m.group(0)), s)
    if linemap is not None:
        s = re.sub(r"\b(line|lines|Line) (\d+)", lambda m: "%s %s" % (m.group(1), linemap.get(int(m.group(2)), "?" + m.group(2))), s)
    return s


def canon(findings, locmap=None, rho=None):
    """project findings to comparable tuples; with locmap/rho: the expected image under the rewrite"""
    out = []
    linemap = None
    if locmap is not None:
        linemap = {}
        for (l, c), (l2, c2) in locmap.items():
            linemap.setdefault(l, l2)
            if linemap[l] != l2:
                pass
    for f in findings:
        locs = []
        for (l, c, info) in f["locs"]:
            if locmap is not None:
                if (l, c) in locmap:
                    l, c = locmap[(l, c)]
                elif l == 0:
                    pass
                else:
                    l, c = ("unmapped", l, c), 0
            locs.append((l, c, map_text(info, rho, None)))
        out.append((f["id"], f["severity"], f["inconclusive"], re.sub(r"\b(line|lines|Line) \d+", r"\1 N", map_text(f["msg"], rho, None) or ""), tuple(locs),
                    tuple(sorted(map_text(s, rho, None) for s in f["symbols"]))))
    return sorted(out, key=repr)


def strip_line_numbers(c):
    return [(a, b, i, re.sub(r"\b(line|lines|Line) \d+", r"\1 N", m or ""), l, s) for (a, b, i, m, l, s) in c]


# ------------------------------------------------------------------ layout-sensitive-by-accident candidates
# multi-line functions whose findings come from comparing two pieces of code with each other: token-identical
# multi-statement branches, duplicated conditions / expressions on separate lines, repeated statements.
CANDIDATES = [
    "int f{n}(int c, int n)\n{{\n    int r;\n    if (c) {{\n        int t = n + {c};\n        r = g(t);\n    }} else {{\n        int t = n + {c};\n        r = g(t);\n    }}\n    return r;\n}}",
    "int f{n}(int c, int n)\n{{\n    int r = 0;\n    if (c > {c}) {{\n        r = g(n);\n        r += n;\n        r = g(r);\n    }} else {{\n        r = g(n);\n        r += n;\n        r = g(r);\n    }}\n    return r;\n}}",
    "int f{n}(int a)\n{{\n    if (a == {c}) {{\n        return g(a);\n    }} else if (a == {c}) {{\n        return g(a + 1);\n    }}\n    return 0;\n}}",
    "int f{n}(int a, int b)\n{{\n    if (a > {c} &&\n        a > {c})\n        return g(b);\n    return (a + b) -\n           (a + b);\n}}",
    "int f{n}(int a)\n{{\n    int r = 0;\n    r = a;\n    r = a;\n    return r + g(a);\n}}",
    "int f{n}(int a, int b)\n{{\n    int i = a * b;\n    int j = a * b;\n    return g(i) + g(j);\n}}",
    "int f{n}(int a)\n{{\n    if (a < {c}) {{\n        if (a >= {c}) {{\n            return g(a);\n        }}\n    }}\n    return 0;\n}}",
    "int f{n}(int x)\n{{\n    if (x == {c}) {{\n        g(x);\n        if (x == {c}) {{\n            return 1;\n        }}\n    }}\n    return 0;\n}}",
    "int f{n}(int x)\n{{\n    if (x > {c})\n        return 1;\n    if (x > {c})\n        return 2;\n    return g(x);\n}}",
    "int f{n}(int x, int y)\n{{\n    int r;\n    if (x) {{\n        r = y ? g(x) : g(x);\n        r = r + 1;\n    }} else {{\n        r = y ? g(x) : g(x);\n        r = r + 1;\n    }}\n    return r;\n}}",
    "void f{n}(int *p, int c)\n{{\n    if (c) {{\n        *p = {c};\n        p[1] = g(c);\n    }} else {{\n        *p = {c};\n        p[1] = g(c);\n    }}\n}}",
    "int f{n}(int x)\n{{\n    switch (x) {{\n    case 1:\n        x = g(x);\n        x = g(x);\n        break;\n    case 2:\n        x = g(x);\n        x = g(x);\n        break;\n    }}\n    return x;\n}}",
]


def gen_candidates(rng, kmin=2, kmax=5):
    picks = [rng.randrange(len(CANDIDATES)) for _ in range(rng.randint(kmin, kmax))]
    parts = ["int g(int);"]
    for n, i in enumerate(picks):
        parts.append(CANDIDATES[i].format(n=n, c=rng.choice([1, 2, 3, 5, 7])))
    return "\n\n".join(parts) + "\n", picks


def rw_asym(rng, toks):
    """layout changes INSIDE ONE compound statement only: blank lines, comment lines, joined or split lines between
    any two statements of one randomly chosen { ... } (the sibling branch / the rest of the file keeps its layout)"""
    opens, stack, pairs = [], [], []
    for i, t in enumerate(toks):
        if t.s == "{":
            stack.append(i)
        elif t.s == "}" and stack:
            pairs.append((stack.pop(), i))
    pairs = [(a, b) for a, b in pairs if b - a > 3]
    if not pairs:
        return None
    a, b = rng.choice(pairs)
    gaps = []
    changed = False
    for i, t in enumerate(toks):
        g = t.gap
        prev = toks[i - 1] if i else None
        if a < i <= b and prev is not None and prev.s in (";", "{", "}") and not t.directive and not prev.directive and rng.random() < 0.6:
            ind = " " * rng.randint(0, 8)
            g = rng.choice(["\n\n" + ind, "\n" + ind + "/* note */\n" + ind, "\n" + ind + "// note\n\n" + ind, " ", "\n\n\n\n\n\n" + ind,
                            "\n" + ind + "/* a\n" + ind + "   b */\n" + ind])
            changed = True
        gaps.append(g)
    if not changed:
        return None
    text, pos = render(toks, gaps)
    locmap = {(t.line, t.col): p for t, p in zip(toks, pos)}
    return text, locmap, {}
