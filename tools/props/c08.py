#!/usr/bin/env python3
"""C08  Name resolution agrees with the compiler.

prove:      coq/theories/Properties_C08.v  (VariableMap refines the frame-stack specification for every
            operation sequence; global map; fresh ids; Leave)
correspond: (1) extracted model vs the real VariableMap class driven by scripts (hook a37a0ca,
            harness/vh_c08.cpp); (2) extracted model replayed on the operation traces the real
            setVarIdPass1 emits on corpus and generated programs (ids recorded by the code itself)
oracle:     clang -Xclang -ast-dump=json: per use site, the declaration cppcheck's dump links
            (`variable` / `function` attribute) vs the entity clang's referencedDecl names
search:     a use site where the two differ on a program clang accepts is the failing input
            (replay = program + site); shrunk by line deletion.
"""
import hashlib
import os
import sys

sys.path.insert(0, os.path.dirname(os.path.dirname(os.path.abspath(__file__))))
import vlib
from props import names_common as NC

PID = "C08"
WORK = os.path.join(vlib.BUILD, "work", PID)

CORPUS_OPS = [
    [b"E", b"A0x", b"A0x", b"L", b"U00x"],                      # redeclaration inside a frame (refuted witness)
    [b"E", b"A1q", b"L", b"F1q"],                               # parameter flagged global (refuted witness)
    [b"A1x", b"E", b"A0x", b"U00x", b"L", b"U00x", b"U10x", b"U01x", b"N", b"F0x", b"L"],
    [b"L", b"L", b"A0a", b"U00a", b"U01a", b"A1a", b"U01a"],
]

# first program: the defect repaired by /repo f35544d (leaveScope() replayed the undo log forwards)
CORPUS_PROGRAMS = [
    ("for_body_redecl.c", "int i;\nvoid f(void) { for (int i = 0; i < 1; i++) { int i = 5; (void)i; } i = 2; }\nvoid g(void) { i = 1; }\n"),
    ("shadow_basic.c", "int x;\nint f(int x) { { int x = 1; x++; } return x; }\nint g(void) { return x; }\n"),
    ("members.c", "struct S { int x; int y; };\nstruct S s;\nint x;\nint f(void) { struct S t = {0}; t.x = x; s.y = t.x; return s.x + x; }\n"),
    ("if_decl.cpp", "int x;\nint f(int a) { if (int x = a) { return x; } else { return x + 1; } return x; }\n"),
    ("ns.cpp", "int a;\nnamespace N { int a = 1; int f() { return a + ::a; } }\nint g(int a) { return a + ::a + N::a; }\n"),
    ("lambda.cpp", "int f(int a) { int b = 1; auto l = [&](int a) { return a + b; }; return l(a) + a; }\n"),
    ("derived_redeclares_member.cpp", "struct Base {\n    int count;\n    Base();\n    void bump();\n};\nstruct Derived : Base {\n    int count;\n    Derived();\n    int get() const;\n    void reset();\n};\n"
                                      "Base::Base() : count(0) {}\nvoid Base::bump() { count++; }\nDerived::Derived() : count(7) {}\nint Derived::get() const { return count + this->count + Base::count; }\nvoid Derived::reset() { count = 0; }\n"),
    ("member_vs_global.cpp", "int n = 7;\nstruct B {\n  int n;\n  int inl() const { return n; }\n  int get();\n};\nint B::get() { return n; }\n"),
    ("paren_product_statement.cpp", "struct D3 {\n  int n; int x;\n  void set(int n);\n};\nvoid D3::set(int n) {\n  (void)(x * n);\n  (void)n;\n}\n"),
    ("overload.cpp", "int o(int x) { return x; }\nint o(double x) { return 2; }\nint o(int x, int y = 0);\nint h() { return o(1) + o(1.5); }\n"),
]


def model_lines(model, tag, cases):
    rc, out, err = vlib.run_lines([model], [vlib.enc_case([tag] + list(c)) for c in cases])
    if rc != 0 or len(out) != len(cases):
        raise vlib.BuildError("model run failed (%s): %s" % (tag, err[-500:]))
    return [[int(x) for x in vlib.dec_line(l)] if not l.startswith("21") else None for l in out]


def model_lines_raw(model, tag, cases):
    rc, out, err = vlib.run_lines([model], [vlib.enc_case([tag] + list(c)) for c in cases])
    if rc != 0 or len(out) != len(cases):
        raise vlib.BuildError("model run failed (%s): %s" % (tag, err[-500:]))
    res = []
    for l in out:
        f = vlib.dec_line(l)
        res.append(tuple(None if x == b"-" else int(x) for x in f))
    return res


def funcptr_lookalike(src_lines, l, c, name, vdecl, decls):
    """classification of one known defect class: the use is the `n` of a statement shaped `) ( a * n ) ;` (e.g. `(void)(x * n);`),
    which setVarIdPass1 takes for a function-pointer declaration and leaves without varid; cppcheck then linked a class member
    (FieldDecl) of that name although a parameter / local hides it"""
    import re
    if not (0 < l <= len(src_lines)) or not isinstance(vdecl, tuple):
        return False
    line = src_lines[l - 1]
    pre, post = line[:c - 1], line[c - 1 + len(name):]
    if not (re.search(r"\)\s*\(\s*[A-Za-z_]\w*\s*\*\s*$", pre) and re.match(r"\s*\)\s*;", post)):
        return False
    return any((v["line"], v["col"]) == tuple(vdecl) and v["kind"] == "FieldDecl" for v in decls.values())


def corpus_sources(quick):
    res = []
    sd = os.path.join(vlib.REPO, "samples")
    for d in sorted(os.listdir(sd)):
        for f in sorted(os.listdir(os.path.join(sd, d))):
            if f.endswith((".c", ".cpp")):
                res.append(os.path.join(sd, d, f))
    cfg = os.path.join(vlib.REPO, "test", "cfg")
    names = ["std.c", "posix.c", "std.cpp"] if quick else sorted(f for f in os.listdir(cfg) if f.endswith((".c", ".cpp")))
    res += [os.path.join(cfg, f) for f in names]
    return res


def write(path, text):
    with open(path, "w") as f:
        f.write(text)
    return path


def analyse_program(run, model, path, cpp, use_clang, stats):
    """Trace replay + clang comparison for one program. Returns list of (kind, detail) problems."""
    problems = []
    dump, units = NC.run_trace(path, extra=["--std=c++17"] if cpp else ["--std=c11"])
    cases = [NC.trace_to_case(u) for u in units]
    redecl_sites = set()
    if cases:
        ops_l = [c[0] for c in cases]
        mo = model_lines(model, "vm", ops_l)
        so = model_lines(model, "sp", ops_l)
        wf = model_lines(model, "wf", ops_l)
        for (ops, exp, sites), m, s, w in zip(cases, mo, so, wf):
            key = hashlib.sha1(b" ".join(ops)).hexdigest()[:12]
            run.count("setVarIdPass1 trace", None, nontrivial=key if len(ops) > 3 else None,
                      bucket="%s,ops<%d,%s" % ("c++" if cpp else "c", 10 ** len(str(len(ops))), "redecl-free" if w[0] else "redecl-in-frame"))
            stats["trace_ops"] += len(ops)
            if m != exp:
                i = next((j for j in range(min(len(m), len(exp))) if m[j] != exp[j]), min(len(m), len(exp)))
                run.stream("setVarIdPass1 trace")["disagreements"] += 1
                problems.append(("model", {"file": path, "op_index": i, "ops": vlib.show(ops[max(0, i - 6):i + 1]),
                                           "model": m[max(0, i - 6):i + 1], "code": exp[max(0, i - 6):i + 1]}))
            if not w[0]:
                stats["redecl_traces"] += 1
                # use sites where the code's answer differs from the lexical-scoping specification (none since f35544d:
                # C08_vm_refines_scopes has no side condition any more; a hit means the class no longer is the model)
                for (oi, line, col) in sites:
                    if oi < len(s) and ops[oi][1:3] == b"00" and exp[oi] != s[oi]:
                        redecl_sites.add((line, col))
    if use_clang:
        ast = NC.clang_ast(path, cpp)
        if ast is None:
            stats["clang_rejected"] += 1
            return problems
        stats["clang_accepted"] += 1
        decls, cuses = NC.clang_links(ast)
        try:
            dl = NC.dump_links(dump)
        except Exception as e:                       # no dump: cppcheck rejected what clang accepts
            stats["no_dump"] += 1
            return problems
        for uses in dl[:1]:
            n, bad = NC.compare_with_clang(uses, decls, cuses)
            a, b = NC.varid_partition_check(uses)
            try:
                src_lines = open(path, encoding="latin-1").read().split("\n")
            except OSError:
                src_lines = []
            for (l, c, s_, vdecl, ent, cls) in bad:
                run.count("clang oracle", None, bucket="differs")
                if not cls and funcptr_lookalike(src_lines, l, c, s_, vdecl, decls):
                    cls = "funcptr-lookalike"
                problems.append(("undo-log" if (l, c) in redecl_sites else (cls or "resolution"),
                                 {"file": path, "site": [l, c], "name": s_, "cppcheck_declaration": list(vdecl) if isinstance(vdecl, tuple) else vdecl,
                                  "clang_declarations": ent}))
            for _ in range(n - len(bad)):
                run.count("clang oracle", None, bucket="agrees")
            st = run.stream("clang oracle")
            st["nontrivial"].update("%s:%d:%d" % (os.path.basename(path), u[0], u[1]) for u in uses if u[4] and u[4][0] != u[0])
            st["disagreements"] += len(bad)
            for (vid, locs) in a:
                problems.append(("shared-id", {"file": path, "varId": vid, "declarations": locs}))
    return problems


def shrink(model, path, cpp, kind, budget=60):
    """Line deletion while clang still accepts the program and a problem of the same kind remains."""
    import collections
    lines = open(path).read().split("\n")
    tmp = os.path.join(WORK, "shrink." + ("cpp" if cpp else "c"))

    class R:                                           # a throw-away counter sink
        def count(self, *a, **k): pass
        def stream(self, n): return {"nontrivial": set(), "disagreements": 0}

    def bad(ls):
        write(tmp, "\n".join(ls))
        st = collections.Counter()
        pr = analyse_program(R(), model, tmp, cpp, True, st)
        return st["clang_accepted"] == 1 and any(k == kind for k, _ in pr)
    n = 2
    while len(lines) > 1 and budget > 0:
        chunk = max(1, len(lines) // n)
        done = False
        for i in range(0, len(lines), chunk):
            cand = lines[:i] + lines[i + chunk:]
            budget -= 1
            if cand and bad(cand):
                lines, n, done = cand, max(n - 1, 2), True
                break
            if budget <= 0:
                break
        if not done:
            if chunk == 1:
                break
            n = min(len(lines), n * 2)
    return "\n".join(lines)


def check(run, replay):
    import collections
    quick = run.tier == "quick"
    rng = run.rng
    os.makedirs(WORK, exist_ok=True)
    run.level = "proof"
    run.trusted_base += [
        "Coq 8.16.1 kernel (coqc); vm_compute only in the Examples and the two _refuted witnesses",
        "extraction: Require Extraction + ExtrOcamlBasic only; ocaml/driver.ml",
        "harness/vh_c08.cpp + /repo hook a37a0ca (guarded trace of enterScope/leaveScope/addVariable and of the use site of setVarIdPass1; script driver verifVariableMapScript whose U op repeats the 4-line `assigned` rule of the use site - the trace stream checks the real site against the same model)",
        "modelled, not verified: lib/tokenize.cpp class VariableMap (enterScope, leaveScope, addVariable, map(global).find, getVarId) and the use-site rule of setVarIdPass1; unsigned overflow of mVarId is outside the model (ids are unbounded N)",
        "NOT modelled (tied by the trace + clang streams only): which tokens setVarIdPass1 treats as scope starts/ends and declarations, setVarIdPass2 (class members defined out of line), SymbolDatabase variable/function pointers, Scope::findFunction",
        "clang 14 (-Xclang -ast-dump=json) as the reference for `the declaration the compiler binds`; tools/props/names_common.py projects both outputs to (line, column) pairs",
    ]
    run.assumptions += ["g++ compiles /repo faithfully", "hook a37a0ca only observes (fprintf) and adds one free function; it changes no behaviour when CPPCHECK_VERIF_VMTRACE is unset"]
    run.extra["rule"] = ("script stream: op sequences of length 1-24 over 5 names, 50% constrained to the theorem's hypotheses, 50% arbitrary (Leave on empty stack, "
                         "redeclaration inside a frame, global flag inside frames); non-trivial = distinct sequence containing an Add and a later Use/Find. "
                         "trace stream: every translation unit of /repo/samples, test/cfg files and generated scoped programs; non-trivial = distinct op sequence longer than 3. "
                         "clang stream: use sites linked by both tools; non-trivial = distinct site whose declaration is on another line.")

    vlib.ensure_repo_build()
    ok = run.prove()
    vlib.coq_make(["theories/Names/Run.vo"])
    model = vlib.build_model(PID) if ok or os.path.exists(os.path.join(vlib.COQ, "theories/Names/Run.vo")) else None
    if not ok:
        run.violation("proof:" + PID, "Properties_C08.vo does not build: " + str(run.proof_error())[:300],
                      {"broken": "proof", "detail": run.proof_error()}, found_input=False)
    if model is None:
        return
    vh = vlib.build_harness(PID)

    # ---- stream 1: the class, by scripts
    n = 4000 if quick else 150000
    cases = list(CORPUS_OPS) + [NC.gen_ops(rng, wellformed=(k % 2 == 0)) for k in range(n)]
    cases = [list(c) for c in dict.fromkeys(tuple(c) for c in cases) if c]

    def nontriv(c, m, i):
        seen_add = False
        for o in c:
            if o[:1] == b"A":
                seen_add = True
            elif seen_add and o[:1] in (b"U", b"F"):
                return tuple(c)
        return None
    diffs = vlib.correspond(run, "VariableMap script", model, [vh, "vm"], cases, tag="vm", nontrivial=nontriv,
                            bucket=lambda c, m, i: "len<%d,depth%d" % (8 if len(c) < 8 else 16 if len(c) < 16 else 32, min(3, max([0] + [sum(1 for o in c[:k] if o == b"E") - sum(1 for o in c[:k] if o == b"L") for k in range(len(c) + 1)]))))
    for c, m, i in sorted(diffs, key=lambda d: len(d[0]))[:2]:
        key = "script:" + hashlib.sha1(vlib.enc_case(c).encode()).hexdigest()[:12]
        run.violation(key, "model and VariableMap disagree on a script: model %s, class %s" % (vlib.show(m), vlib.show(i)),
                      {"broken": "correspondence VariableMap", "ops": vlib.show(c), "model": vlib.show(m), "impl": vlib.show(i),
                       "how": "echo '%s' | build/harness/vh_c08 vm" % vlib.enc_case(c)}, found_input=False)
    # the hypotheses really are what separates model from spec (spec evaluated on the same scripts)
    sub = cases[:2000 if quick else 40000]
    mo, so, wf = model_lines(model, "vm", sub), model_lines(model, "sp", sub), model_lines(model, "wf", sub)
    hyp = collections.Counter()
    for c, m, s, w in zip(sub, mo, so, wf):
        loc_same = all(a == b or (o[:3] == b"U01" and a == 0) for o, a, b in zip(c, m, s) if not (o[:1] in (b"U", b"F") and o[1:2] == b"1"))
        hyp["redecl_free=%d,local_lookups_%s" % (w[0], "agree" if loc_same else "differ")] += 1
        if not loc_same:
            run.violation("theorem-vs-extraction", "extracted model contradicts C08_vm_refines_scopes", {"ops": vlib.show(c), "vm": m, "sp": s}, found_input=False)
    run.extra["script_hypothesis_census"] = dict(hyp)

    # ---- streams 2+3: real programs
    stats = collections.Counter()
    progs = []
    for name, text in CORPUS_PROGRAMS:
        progs.append((write(os.path.join(WORK, name), text), name.endswith(".cpp"), True, ["corpus"]))
    for p in corpus_sources(quick):
        progs.append((p, p.endswith(".cpp"), False, ["repo"]))
    ngen = 40 if quick else 1000
    for k in range(ngen):
        cpp = k % 2 == 1
        src, feats = NC.gen_program(rng, cpp)
        progs.append((write(os.path.join(WORK, "g%d.%s" % (k, "cpp" if cpp else "c")), src), cpp, True, feats))
    feat_hist = collections.Counter()
    found = {}
    for path, cpp, use_clang, feats in progs:
        if not path.startswith(WORK):
            # repo files are analysed in place but their dump/trace go next to a copy
            cp = os.path.join(WORK, "repo_" + os.path.basename(path))
            write(cp, open(path, encoding="latin-1").read())
            path = cp
        before = stats["clang_accepted"]
        pr = analyse_program(run, model, path, cpp, use_clang, stats)
        if stats["clang_accepted"] > before:
            for f in feats:
                feat_hist[f] += 1
        for kind, d in pr:
            found.setdefault(kind, []).append((path, cpp, d))
    run.extra["generated_program_features (clang-accepted programs)"] = dict(feat_hist)
    run.extra["program_stats"] = dict(stats)

    # ---- stream 4: overload sets (Scope::findFunction fragment): model = code, and code vs clang
    ff_known = []
    nov = 40 if quick else 1500
    for k in range(nov):
        src, sigs, calls = NC.gen_overloads(rng, lambda sg, cs: [b is not None for (_, b) in model_lines_raw(model, "ff", [NC.ff_case(sg, a) for a in cs])])
        if not calls:
            continue
        path = write(os.path.join(WORK, "ov.cpp"), src)
        import subprocess
        subprocess.run([vlib.CPPCHECK, "-q", "--dump", "--std=c++17", path], stdout=subprocess.PIPE, stderr=subprocess.PIPE, timeout=60)
        try:
            uses = NC.dump_links(path + ".dump")[0]
        except Exception:
            stats["ov_no_dump"] += 1
            continue
        ast = NC.clang_ast(path, True)
        cl = {}
        if ast is not None:
            decls, cuses = NC.clang_links(ast)
            for (l, c, name, did, kind) in cuses:
                if name == "ov" and did in decls:
                    cl[l] = decls[did]["line"] - 1
            stats["ov_clang_accepted"] += 1
        else:
            stats["ov_clang_rejected"] += 1
        mo = model_lines_raw(model, "ff", [NC.ff_case(sigs, at) for (_, at) in calls])
        for (line, at), (mi, bi) in zip(calls, mo):
            impl = [sorted(u[5])[0][0] - 1 for u in uses if u[0] == line and u[2] == "ov" and u[5]]
            impl_i = impl[0] if impl else None
            run.count("findFunction overloads", None, nontrivial="%s|%s" % (sigs, at),
                      bucket="model=%s,clang=%s" % ("none" if mi is None else "some", "rejected" if ast is None else "accepted"))
            if mi != impl_i:
                run.stream("findFunction overloads")["disagreements"] += 1
                run.violation("ffmodel:" + hashlib.sha1(src.encode()).hexdigest()[:10], "find_function model and Scope::findFunction disagree: model %s, code %s" % (mi, impl_i),
                              {"broken": "correspondence findFunction", "program": src, "call_line": line, "model": mi, "impl": impl_i}, found_input=False)
                continue
            if ast is not None and line in cl and impl_i is not None and impl_i != cl[line]:
                rec = {"program": src, "call_line": line, "cppcheck_overload": src.split("\n")[impl_i], "clang_overload": src.split("\n")[cl[line]],
                       "model_index": mi, "cpp_best_index": bi}
                if bi == cl[line]:
                    ff_known.append(rec)
                else:
                    run.violation("ffspec:" + hashlib.sha1(src.encode()).hexdigest()[:10], "clang's overload is not the specification's best viable function", rec, found_input=False)
    if ff_known:
        rec = min(ff_known, key=lambda r: len(r["program"]))
        rec["occurrences_this_run"] = len(ff_known)
        run.violation("findFunction-fallback-ranking",
                      "Scope::findFunction links a call to another overload than the compiler selects: %s instead of %s" % (rec["cppcheck_overload"], rec["clang_overload"]), rec)

    for kind, lst in found.items():
        path, cpp, d = min(lst, key=lambda x: os.path.getsize(x[0]))
        if kind == "model":
            run.violation("trace:" + hashlib.sha1(repr(d["ops"]).encode()).hexdigest()[:10],
                          "the model replayed on setVarIdPass1's own operation trace gives other ids than the code did",
                          dict(d, broken="correspondence trace", program=open(path, encoding="latin-1").read()[:4000]), found_input=False)
            continue
        text0 = open(path, encoding="latin-1").read()
        small = shrink(model, path, cpp, kind) if path.startswith(WORK) and text0.count("\n") > 4 else text0
        sp = write(os.path.join(WORK, "min_%s.%s" % (kind, "cpp" if cpp else "c")), small)
        st = collections.Counter()

        class R0:
            def count(self, *a, **k): pass
            def stream(self, n): return {"nontrivial": set(), "disagreements": 0}
        pr = [x for x in analyse_program(R0(), model, sp, cpp, True, st) if x[0] == kind]
        dd = pr[0][1] if pr else d
        if kind == "undo-log":
            key = "leaveScope-replays-undo-log-forwards"
            what = ("REGRESSION of /repo f35544d: a name declared twice inside one VariableMap frame (C: `for (int i..) { int i; }`) is restored to the first inner declaration when the frame is left: "
                    "the use of '%s' at %s is linked to the declaration at %s, clang binds it to %s" % (dd["name"], dd["site"], dd["cppcheck_declaration"], dd["clang_declarations"]))
        elif kind == "member-vs-global":
            key = "member-function-use-binds-earlier-global"
            what = ("REGRESSION of /repo dc43c26: inside a member function (out-of-class definition, or a derived class using an inherited member) an unqualified use of a data member "
                    "whose name was declared earlier at namespace scope is linked to that global: '%s' at %s -> cppcheck %s, clang %s" % (dd["name"], dd["site"], dd["cppcheck_declaration"], dd["clang_declarations"]))
        elif kind == "funcptr-lookalike":
            key = "paren-product-statement-taken-for-declaration"
            what = ("in a member function the statement `(T)(a * n);` is taken for a function-pointer declaration by setVarIdPass1 (n gets no varid) and setVarIdPass2 then "
                    "links n to a data member of that name although a parameter/local hides it: '%s' at %s -> cppcheck %s, clang %s" % (dd["name"], dd["site"], dd["cppcheck_declaration"], dd["clang_declarations"]))
        elif kind == "resolution":
            key = "resolution:" + hashlib.sha1(small.encode()).hexdigest()[:10]
            what = "use of '%s' at %s: cppcheck links the declaration at %s, clang binds %s" % (dd["name"], dd["site"], dd["cppcheck_declaration"], dd["clang_declarations"])
        else:
            key = kind + ":" + hashlib.sha1(small.encode()).hexdigest()[:10]
            what = "%s: %s" % (kind, dd)
        run.violation(key, what, {"program": small, "language": "c++17" if cpp else "c11", "detail": dd, "occurrences_this_run": len(lst),
                                  "how": "cppcheck --dump <program>; compare the token's `variable`/`function` attribute with clang -fsyntax-only -Xclang -ast-dump=json (DeclRefExpr.referencedDecl)"})


if __name__ == "__main__":
    vlib.main(check, PID)
