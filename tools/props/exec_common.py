"""Generators and the end-to-end driver shared by C24 and C25.

Harness-level cases (ops / mark / report) and whole runs of the real cppcheck
binary on generated C files with planted findings, whose outcome (reported
findings, unmatchedSuppression findings, exit status) is predicted by the
extracted model (`whole` case of Supp/RunExec.v).

The raw findings of each file are *observed* (a run of the same binary without
any suppression), never guessed: the model only has to predict what the
suppression lists, the executors and the exit-status logic do with them.
"""
import os
import shutil
import subprocess
import tempfile

import vlib
from props import supp_common as G

TEMPLATE = "{file}:{line}:{id}:{message}"
DEFAULT_FILTERS = [b"unusedFunction", b"misra-*", b"premium-*"]

# (id, lines of the block, index of the finding line inside the block)
BLOCKS = [
    ("nullPointer", ["void f%d(void) {", "    int *p = 0;", "    *p = 1;", "}"], 2),
    ("zerodiv", ["int g%d(int x) {", "    return x / 0;", "}"], 1),
    ("arrayIndexOutOfBounds", ["int h%d(void) {", "    int a[2];", "    a[2] = 0;", "    return a[0];", "}"], 2),
    ("uninitvar", ["int u%d(void) {", "    int x;", "    return x;", "}"], 2),
    (None, ["int c%d(int x) {", "    return x + 1;", "}"], 1),
]
E2E_IDS = ["nullPointer", "zerodiv", "arrayIndexOutOfBounds", "uninitvar", "memleak", "unmatchedSuppression"]
E2E_PATTERNS = E2E_IDS + ["null*", "*", "*div", "uninit*", "a*s", "unusedFunction"]


# ------------------------------------------------------------------ harness-level cases
def gen_ops_case(rng):
    ss = G.gen_supp_list(rng, rng.randint(0, 4), flags=True)
    ops = []
    for _ in range(rng.randint(1, 6)):
        if ss and rng.random() < 0.7:
            s = list(rng.choice(ss))
            if rng.random() < 0.25:        # near miss on one parameter
                k = rng.choice([0, 1, 2, 6, 8, 9])
                s[k] = G.gen_supp(rng, for_list=True)[k]
        else:
            s = G.gen_supp(rng, for_list=True)
        s[11] = rng.random() < 0.5
        s[12] = rng.random() < 0.5
        ops.append([rng.choice([b"A", b"U", b"O", b"O"])] + s)
    return G.flat(ss) + G.flat(ops)


def gen_mark_case(rng):
    ss = G.gen_supp_list(rng, rng.randint(0, 5), flags=True)
    locs = [[rng.choice(G.FILES[:3]) if rng.random() < 0.5 else rng.choice(G.FILE_PATTERNS[1:11]), rng.choice([1, 2, 3, 4])] for _ in range(rng.randint(0, 5))]
    return G.flat(ss) + G.flat(locs)


def gen_report_supp(rng):
    s = G.gen_supp(rng, for_list=True, flags=True)
    r = rng.random()
    if r < 0.25:
        s[0] = b"unmatchedSuppression"
    elif r < 0.32:
        s[0] = rng.choice([b"checkersReport", b"unusedFunction", b"misra-c2012-1.1", b"premium-x"])
    if rng.random() < 0.3:
        s[1] = rng.choice([b"*", b"*.c", b"a.?", b"a.c", b"src/*", b"**/b.c", b"src/a.c", b"sub/b.c"])
    if rng.random() < 0.5:
        s[8] = 0
    if rng.random() < 0.6:
        s[11] = False
    return s


def gen_report_case(rng):
    ss, seen = [], set()
    for _ in range(rng.randint(0, 6)):
        s = gen_report_supp(rng)
        if G.supp_key(s) in seen:
            continue
        seen.add(G.supp_key(s))
        ss.append(s)
    filters = rng.choice([[], DEFAULT_FILTERS, [b"null*"], [b"*"], DEFAULT_FILTERS + [b"a*"]])
    paths = rng.sample(G.PATHS, rng.randint(0, 3))
    return [rng.random() < 0.6] + G.flat([[f] for f in filters]) + G.flat(ss) + G.flat([[p] for p in paths])


# ------------------------------------------------------------------ end to end
class Program:
    """A set of small C files with planted findings (and inline suppression comments)."""

    def __init__(self, rng, inline_comments=True, header=True, ctu=False):
        self.files = {}       # name -> text
        self.code = {}        # name -> sorted list of lines that carry tokens
        self.inline = {}      # name -> [(id, line)] inline suppressions as cppcheck parses them
        self.order = []       # the .c files, in command-line order
        self.includes = {}    # .c name -> [header names]
        names = rng.sample(["a.c", "b.c", "c.c"], rng.randint(1, 3))
        # some files live in directories (PathMatch::match is C31's pm_model in the model)
        names = [rng.choice(["", "", "src/", "src/sub/"]) + n for n in names]
        self.order = sorted(names) if rng.random() < 0.7 else names
        fn = [0]
        use_header = header and rng.random() < 0.4
        if use_header:
            self._make("x.h", rng, fn, inline_comments, static=True, nblocks=rng.randint(1, 2))
        for n in self.order:
            inc = use_header and "/" not in n and rng.random() < 0.6
            self.includes[n] = ["x.h"] if inc else []
            self._make(n, rng, fn, inline_comments, include=inc, nblocks=rng.randint(1, 4))
        if ctu and len(self.order) >= 2 and rng.random() < 0.5:
            a, b = self.order[0], self.order[1]
            self._append(a, ["void ctu_use(int *p) {", "    *p = 0;", "}"])
            self._append(b, ["void ctu_use(int *p);", "void ctu_call(void) {", "    ctu_use(0);", "}"])

    def _append(self, name, lines):
        base = self.files[name].count("\n")
        self.files[name] += "\n".join(lines) + "\n"
        self.code[name] += [base + i + 1 for i in range(len(lines))]

    def _make(self, name, rng, fn, inline_comments, include=False, static=False, nblocks=2):
        lines, code, inl = [], [], []
        if include:
            lines.append('#include "x.h"')
        for _ in range(nblocks):
            fid, blk, at = rng.choices(BLOCKS, weights=[3, 3, 2, 2, 2])[0]
            fn[0] += 1
            for i, l in enumerate(blk):
                l = l % fn[0] if "%d" in l else l
                if i == 0 and static:
                    l = "static " + l
                if i == at and inline_comments and rng.random() < 0.35:
                    sid = fid if (fid and rng.random() < 0.6) else rng.choice(E2E_IDS[:5])
                    lines.append("    // cppcheck-suppress " + sid)
                    inl.append((sid, len(lines) + 1))
                lines.append(l)
                code.append(len(lines))
            if rng.random() < 0.3:
                lines.append("")
        self.files[name] = "\n".join(lines) + "\n"
        self.code[name] = code
        self.inline[name] = inl

    def write(self, d):
        for n, t in self.files.items():
            os.makedirs(os.path.dirname(os.path.join(d, n)), exist_ok=True)
            with open(os.path.join(d, n), "w") as f:
                f.write(t)


def run_cppcheck(d, args, timeout=120):
    p = None
    for attempt in range(60):
        # the shared binary may be relinked by a concurrent build of another check: retry
        try:
            p = subprocess.run([vlib.CPPCHECK, "-q", "--template=" + TEMPLATE] + args, cwd=d,
                               stdout=subprocess.PIPE, stderr=subprocess.PIPE, timeout=timeout)
            break
        except (PermissionError, FileNotFoundError, OSError):
            import time
            time.sleep(2)
    if p is None:
        raise vlib.BuildError("cannot execute " + vlib.CPPCHECK)
    lines = [l for l in p.stderr.decode("latin-1").split("\n") if l]
    return p.returncode, lines, p.stdout.decode("latin-1")


def parse_line(l):
    """'{file}:{line}:{id}:{message}' -> (file, line, id, message) or None"""
    parts = l.split(":", 3)
    if len(parts) != 4 or not parts[1].lstrip("-").isdigit():
        return None
    return parts[0], int(parts[1]), parts[2], parts[3]


def findings_only(lines):
    out = []
    for l in lines:
        p = parse_line(l)
        if p is None:
            out.append(("?", 0, "?", l))
        elif p[2] == "checkersReport":
            continue
        else:
            out.append(p)
    return out


def observe(prog, d, jargs):
    """raw findings: per .c file (single-file runs, no suppressions) and whole-program extras"""
    per = {}
    for n in prog.order:
        rc, lines, _ = run_cppcheck(d, ["--enable=information", n])
        per[n] = findings_only(lines)
    rc, lines, _ = run_cppcheck(d, ["--enable=information"] + jargs + prog.order)
    allf = findings_only(lines)
    known = set(x for n in prog.order for x in per[n])
    wp = [x for x in allf if x not in known]
    return per, wp


def text_of(f):
    return "%s:%d:%s:%s" % f


def emsg_fields(f, with_text=True):
    """hash id file line symbols nmacros (+text)"""
    file, line, fid, _ = f
    e = [0, fid, "" if file == "nofile" else file, line if file != "nofile" else -1, b"", 0]
    return e + ([text_of(f)] if with_text else [])


def cli_supp(rng, prog):
    """(spec string for --suppress= / a suppressions file, model fields)"""
    sid = rng.choice(E2E_PATTERNS)
    r = rng.random()
    allfiles = list(prog.files) + ["d.c"]
    if r < 0.35:
        f, line = "", -1
    elif r < 0.65:
        f, line = rng.choice(allfiles), -1
    elif r < 0.75:
        # other spellings of a file: last components only, ./ prefix, a .. detour
        f = rng.choice(list(prog.files))
        b = f.rsplit("/", 1)[-1]
        f = rng.choice([b, "./" + f, "zz/../" + f, "sub/" + b, f])
        line = -1
    elif r < 0.85:
        f, line = rng.choice(["*.c", "*", "?.c", "*.h", "z*", "src/*", "src/**", "*/a.c", "**/b.c", "src/*/c.c", "s?c/*.c", "**.c"]), -1
    else:
        f = rng.choice(list(prog.files))
        line = rng.randint(1, max(1, prog.files[f].count("\n")))
    spec = sid + (":" + f if f else "") + (":%d" % line if line >= 0 else "")
    return spec, [sid, f, line, -1, -1, 0, b"", b"", 0, False, False, False, False]


def _key(s):
    # parseLine simplifies the file name; two spellings of one file are one suppression (rejected as duplicate)
    import posixpath
    k = list(G.supp_key(s))
    k[1] = posixpath.normpath(k[1]) if k[1] else k[1]
    return tuple(k)


def gen_config(rng, prog, want_nofail=True):
    nomsg, seen = [], set()
    for _ in range(rng.choice([0, 1, 1, 2, 2, 3, 4])):
        spec, s = cli_supp(rng, prog)
        if _key(s) in seen:
            continue
        seen.add(_key(s))
        nomsg.append((spec, s))
    nofail, seen = [], set()
    if want_nofail:
        for _ in range(rng.choice([0, 0, 1, 1, 2, 3])):
            spec, s = cli_supp(rng, prog)
            if rng.random() < 0.3:
                spec, s = "unmatchedSuppression", ["unmatchedSuppression", "", -1, -1, -1, 0, b"", b"", 0, False, False, False, False]
            if _key(s) in seen:
                continue
            seen.add(_key(s))
            nofail.append((spec, s))
    return {
        "nomsg": nomsg, "nofail": nofail,
        "exitcode": rng.choice([0, 1, 7, 7, 42]),
        "info": rng.random() < 0.8,
        "inline": rng.random() < 0.5,
        "kind": rng.choice([0, 0, 1, 2]),
    }


JARGS = {0: ["-j1"], 1: ["-j2", "--executor=thread"], 2: ["-j2", "--executor=process"]}


def model_case(prog, cfg, per, wp):
    files = []
    for n in prog.order:
        inl, locs = [], []
        if cfg["inline"]:
            for fn in [n] + prog.includes[n]:
                for sid, line in prog.inline[fn]:
                    inl.append([sid, fn, line, -1, -1, 0, b"", b"", 0, False, True, False, False])
                for ln in prog.code[fn]:
                    locs.append([fn, ln])
        msgs = [emsg_fields(f) for f in per[n]]
        files.append([n] + G.flat(inl) + G.flat(locs) + G.flat(msgs))
    case = [cfg["kind"], cfg["exitcode"], cfg["info"], cfg["inline"]] + G.flat([[f] for f in DEFAULT_FILTERS]) \
        + G.flat([s for _, s in cfg["nomsg"]]) + G.flat([s for _, s in cfg["nofail"]]) \
        + [len(files)] + [x for f in files for x in f] + G.flat([emsg_fields(f) for f in wp])
    return case


def real_run(prog, cfg, d):
    args = JARGS[cfg["kind"]][:]
    if cfg["info"]:
        args.append("--enable=information")
    if cfg["inline"]:
        args.append("--inline-suppr")
    if cfg["exitcode"] is not None:
        args.append("--error-exitcode=%d" % cfg["exitcode"])
    for spec, _ in cfg["nomsg"]:
        args.append("--suppress=" + spec)
    if cfg["nofail"]:
        with open(os.path.join(d, "nofail.txt"), "w") as f:
            f.write("".join(spec + "\n" for spec, _ in cfg["nofail"]))
        args.append("--exitcode-suppressions=nofail.txt")
    rc, lines, out = run_cppcheck(d, args + prog.order)
    return rc, findings_only(lines), args + prog.order


def decode_whole(m):
    """model output -> (status, set of reported texts, set of (file,line,id) unmatched)"""
    if not m or m == [b"F"] or m == [b"B"]:
        return None
    status = int(m[0])
    n = int(m[1])
    texts = [x.decode("latin-1") for x in m[2:2 + n]]
    rest = m[2 + n:]
    um = set()
    for i in range(0, len(rest), 3):
        um.add((rest[i].decode("latin-1") or "nofile", int(rest[i + 1]), rest[i + 2].decode("latin-1")))
    return status, texts, um


def split_real(found):
    rep = [text_of(f) for f in found if f[2] != "unmatchedSuppression"]
    um = set()
    for f in found:
        if f[2] == "unmatchedSuppression":
            um.add((f[0], f[1], f[3].split(": ", 1)[1] if ": " in f[3] else f[3]))
    return rep, um


def e2e(run, model, n_programs, n_configs, stream, compare, inline_comments=True, ctu=False, want_nofail=True,
        force=None):
    """runs programs x configs; compare(prog, cfg, predicted, real_rc, real_rep, real_um) -> None | (what, detail)
    returns list of failures (dict)."""
    rng = run.rng
    fails = []
    base = tempfile.mkdtemp(prefix="vexec_")
    try:
        for pi in range(n_programs):
            prog = Program(rng, inline_comments=inline_comments, ctu=ctu)
            d = os.path.join(base, "p%d" % pi)
            os.makedirs(d)
            prog.write(d)
            obs = {}
            cfgs = [gen_config(rng, prog, want_nofail) for _ in range(n_configs)]
            if force:
                cfgs = [force(rng, prog, c) for c in cfgs]
            cases = []
            for cfg in cfgs:
                k = cfg["kind"]
                if k not in obs:
                    obs[k] = observe(prog, d, JARGS[k])
                per, wp = obs[k]
                cases.append(model_case(prog, cfg, per, wp))
            lines = [vlib.enc_case(["whole"] + c) for c in cases]
            rc, mo, me = vlib.run_lines([model], lines)
            if rc != 0 or len(mo) != len(cases):
                raise vlib.BuildError("model run failed (%s): %s" % (stream, me[-1000:]))
            for cfg, case, mline in zip(cfgs, cases, mo):
                pred = decode_whole(vlib.dec_line(mline))
                rrc, found, argv = real_run(prog, cfg, d)
                rep, um = split_real(found)
                res = compare(prog, cfg, pred, rrc, rep, um) if pred is not None else None
                nsup = len(cfg["nomsg"]) + len(cfg["nofail"])
                nt = None
                if pred is not None and (nsup or cfg["inline"]):
                    nt = (tuple(sorted(prog.files.items())), tuple(argv))
                run.count(stream, None, nontrivial=nt,
                          bucket="fuel" if pred is None else "k%d,%s,um%d,exit%s" % (
                              cfg["kind"], "info" if cfg["info"] else "noinfo", min(len(um), 3), "0" if rrc == 0 else "N"))
                if len(run.samples) < 12 and pi < 2 and len([s for s in run.samples if s.get("stream") == stream]) < 2:
                    run.samples.append({"stream": stream, "case": {"files": prog.files, "argv": argv},
                                        "model": {"status": pred[0], "reported": pred[1], "unmatched": sorted(pred[2])} if pred else "fuel"})
                if res:
                    run.stream(stream)["disagreements"] += 1
                    fails.append({"what": res[0], "detail": res[1], "files": prog.files, "argv": argv,
                                  "kind": cfg["kind"], "cfg": cfg, "prog": prog,
                                  "model": {"status": pred[0], "reported": pred[1], "unmatched": sorted(pred[2])},
                                  "real": {"status": rrc, "reported": rep, "unmatched": sorted(um)}})
    finally:
        shutil.rmtree(base, ignore_errors=True)
    return fails
