"""C14 / C35 helpers: turning a --dump file into the abstract document of the Coq model
(elements with ids + id-valued attributes), the byte-level well-formedness scan, the object graph
of the shipped reader (addons/cppcheckdata.py), and the input generators.

Nothing here decides the property: the verdict on a document is computed by the extracted
`check_doc` / `resolve` (coq/theories/Dump/Defs.v); this module only re-shapes data.
"""
import os
import re
import sys
import xml.etree.ElementTree as ET

sys.path.insert(0, os.path.dirname(os.path.dirname(os.path.abspath(__file__))))
import vlib

# (owner element, attribute) -> (kind the target must have, read by cppcheckdata.py with IdMap[...]?,
#                                 attribute of the reader's object that holds the resolved target or None)
# kinds: T token, S scope, C container, F function, V variable, L values, Y type
TOKEN_REFS = {
    "scope": ("S", True, "scope"), "link": ("T", True, "link"), "variable": ("V", True, "variable"),
    "function": ("F", True, "function"), "values": ("L", True, None), "type-scope": ("S", True, "typeScope"),
    "astParent": ("T", True, "astParent"), "astOperand1": ("T", True, "astOperand1"),
    "astOperand2": ("T", True, "astOperand2"), "valueType-typeScope": ("S", True, None),
    "valueType-containerId": ("C", False, None),
}
SCOPE_REFS = {"bodyStart": ("T", True, "bodyStart"), "bodyEnd": ("T", True, "bodyEnd"),
              "nestedIn": ("S", True, "nestedIn"), "function": ("F", True, "function"),
              "definedType": ("Y", False, None)}
FUNCTION_REFS = {"token": ("T", False, "token"), "tokenDef": ("T", True, "tokenDef"),
                 "overriddenFunction": ("F", False, None)}
VAR_REFS = {"nameToken": ("T", True, "nameToken"), "typeStartToken": ("T", True, "typeStartToken"),
            "typeEndToken": ("T", True, "typeEndToken"), "scope": ("S", True, "scope")}
VALUE_REFS = {"tokvalue": ("T", False, None), "lifetime": ("T", False, None), "symbolic": ("T", False, None)}
# attributes of the reader that it resolves through IdMap (the others it keeps as strings or ignores)
READER_SKIPS = {("scope", "definedType"), ("function", "overriddenFunction"), ("token", "valueType-containerId"),
                ("type", "classScope"), ("derivedFrom", "type"), ("derivedFrom", "nameTok")}


def sh_retry(cmd, tries=8, **kw):
    """vlib.sh on the shared cppcheck binary; waits while another check is relinking it / recopying cfg/."""
    import time
    rc, out = 126, ""
    for _ in range(tries):
        try:
            rc, out, _dt = vlib.sh(cmd, **kw)
        except OSError as e:   # ETXTBSY / EACCES while the linker writes the file
            rc, out = 126, "Permission denied: %s" % e
        if not (rc in (126, 127) or "installation is broken" in out or "Permission denied" in out or "Text file busy" in out):
            return rc, out
        time.sleep(10)
    raise vlib.BuildError("cppcheck binary unusable (concurrent rebuild?): rc=%s %s" % (rc, out[-300:]))


class Doc:
    """One <dump cfg=...> as the model sees it."""

    def __init__(self, cfg):
        self.cfg = cfg
        self.elems = []   # (kind, id, str)
        self.refs = []    # (owner id, attr label, target id, kind, strict, owner element, raw attr)
        self.ntok = 0

    def add_refs(self, el, owner_id, table, owner_tag):
        for attr, (kind, strict, _) in table.items():
            v = el.get(attr)
            if v is not None:
                self.refs.append((owner_id, owner_tag + "." + attr, v, kind, strict, owner_tag, attr))

    def fields(self, reader_view=False):
        """Flat field list for the model: E kind id str - - | R owner attr target kind strict."""
        out = []
        for k, i, s in self.elems:
            if reader_view and k == "Y":
                continue
            out += ["E", k, i, s, "", ""]
        for r in self.refs:
            if reader_view and (r[5], r[6]) in READER_SKIPS:
                continue
            out += ["R", r[0], r[1], r[2], r[3], "1" if r[4] else "0"]
        return out

    def reader_refs(self):
        return [r for r in self.refs if (r[5], r[6]) not in READER_SKIPS]


def docs_of_dump(path):
    """Parse the dump (ElementTree = expat: a well-formedness check of its own) and build one Doc
    per configuration, elements in the order in which cppcheckdata.py fills its IdMap."""
    tree = ET.parse(path)
    root = tree.getroot()
    docs = []
    for dump in root.findall("dump"):
        d = Doc(dump.get("cfg"))
        toks, scopes, conts, funcs, vars_, vals, types = [], [], [], [], [], [], []
        for tl in dump.findall("tokenlist"):
            for t in tl.findall("token"):
                toks.append(("T", t.get("id"), t.get("str") or ""))
                d.add_refs(t, t.get("id"), TOKEN_REFS, "token")
        d.ntok = len(toks)
        for ss in dump.findall("scopes"):
            for s in ss.findall("scope"):
                scopes.append(("S", s.get("id"), ""))
                d.add_refs(s, s.get("id"), SCOPE_REFS, "scope")
                for fl in s.findall("functionList"):
                    for f in fl.findall("function"):
                        funcs.append(("F", f.get("id"), ""))
                        d.add_refs(f, f.get("id"), FUNCTION_REFS, "function")
                        for a in f.findall("arg"):
                            d.refs.append((f.get("id"), "arg.variable", a.get("variable"), "V", True, "arg", "variable"))
                for vl in s.findall("varlist"):
                    for v in vl.findall("var"):
                        d.refs.append((s.get("id"), "varlist.id", v.get("id"), "V", False, "varlist", "id"))
        for cs in dump.findall("containers"):
            for c in cs.findall("container"):
                conts.append(("C", c.get("id"), ""))
        for vs in dump.findall("variables"):
            for v in vs.findall("var"):
                vars_.append(("V", v.get("id"), ""))
                d.add_refs(v, v.get("id"), VAR_REFS, "var")
        for vf in dump.findall("valueflow"):
            for vl in vf.findall("values"):
                vals.append(("L", vl.get("id"), ""))
                for v in vl.findall("value"):
                    d.add_refs(v, vl.get("id"), VALUE_REFS, "value")
        for ts in dump.findall("types"):
            for t in ts.findall("type"):
                types.append(("Y", t.get("id"), ""))
                d.refs.append((t.get("id"), "type.classScope", t.get("classScope"), "S", False, "type", "classScope"))
                for b in t.findall("derivedFrom"):
                    d.refs.append((t.get("id"), "derivedFrom.type", b.get("type"), "Y", False, "derivedFrom", "type"))
                    d.refs.append((t.get("id"), "derivedFrom.nameTok", b.get("nameTok"), "T", False, "derivedFrom", "nameTok"))
        d.elems = toks + scopes + conts + funcs + vars_ + vals + types
        docs.append(d)
    return root, docs


# ------------------------------------------------------------------ byte-level scan
_ATTR_BAD = re.compile(rb'[^\x20-\x7f]')


def raw_scan(path):
    """The dump as bytes: every byte is '\\n' or in 0x20..0x7f (what toxml_attr_safe promises for
    every escaped attribute, and what the fixed texts satisfy). Returns (ok, detail)."""
    data = open(path, "rb").read()
    for ln, line in enumerate(data.split(b"\n"), 1):
        m = _ATTR_BAD.search(line)
        if m:
            return False, "byte 0x%02x at line %d col %d: %r" % (line[m.start()], ln, m.start() + 1, line[max(0, m.start() - 40):m.start() + 20])
    return True, ""


# ------------------------------------------------------------------ the shipped reader
def load_reader():
    """Import addons/cppcheckdata.py of the tree under test."""
    import importlib.util
    p = os.path.join(vlib.REPO, "addons", "cppcheckdata.py")
    spec = importlib.util.spec_from_file_location("cppcheckdata_under_test", p)
    mod = importlib.util.module_from_spec(spec)
    spec.loader.exec_module(mod)
    return mod


KIND_CLASS = {"T": "Token", "S": "Scope", "F": "Function", "V": "Variable", "C": "Container"}


def reader_view(mod, path):
    """parsedump + per configuration: maps from id to the reader's objects. Raises what the reader raises."""
    data = mod.parsedump(path)
    out = []
    for cfg in data.iterconfigurations():
        objs = {}
        for t in cfg.tokenlist:
            objs[("token", t.Id)] = t
        for s in cfg.scopes:
            objs[("scope", s.Id)] = s
        for f in cfg.functions:
            objs[("function", f.Id)] = f
        for v in cfg.variables:
            objs[("var", v.Id)] = v
        for f in cfg.functions:
            for v in f.argument.values():
                if v is not None:
                    objs[("var", v.Id)] = v
        out.append((cfg.name, objs))
    return out


def compare_with_reader(doc, objs, resolved):
    """resolved: per reader_refs() entry the model's answer ('' = None, else a kind letter).
    Returns a list of differences (owner, attr, target, model, reader)."""
    diffs = []
    nedges = 0
    for r, mk in zip(doc.reader_refs(), resolved):
        owner_id, label, target, kind, strict, otag, attr = r
        table = {"token": TOKEN_REFS, "scope": SCOPE_REFS, "function": FUNCTION_REFS, "var": VAR_REFS}.get(otag)
        if table is None:
            continue
        pyattr = table[attr][2]
        if pyattr is None:
            continue
        o = objs.get((otag, owner_id))
        if o is None:
            diffs.append((owner_id, label, target, mk, "owner not in reader"))
            continue
        got = getattr(o, pyattr)
        nedges += 1
        if mk == "":
            if got is not None:
                diffs.append((owner_id, label, target, "None", "%s(%s)" % (type(got).__name__, getattr(got, "Id", "?"))))
        else:
            if got is None or type(got).__name__ != KIND_CLASS.get(mk) or got.Id != target:
                diffs.append((owner_id, label, target, mk + ":" + target,
                              "None" if got is None else "%s(%s)" % (type(got).__name__, getattr(got, "Id", "?"))))
    return diffs, nedges


# ------------------------------------------------------------------ source gate (T-lite)
def ast_writers_gate():
    """The proof covers AST edges written through Token::astOperand1/astOperand2 (+ the astTop
    cache). Fail loudly when the source gets another writer of mAstParent/mAstOperand1/2 or a
    caller of astParent(tok) outside the three setters."""
    problems = []
    tc = open(os.path.join(vlib.REPO, "lib", "token.cpp")).read()
    m = re.search(r"void Token::astParent\(Token\* tok\)\n\{.*?\n\}\n\nvoid Token::astOperand1\(Token \*tok\)\n\{.*?\n\}\n\nvoid Token::astOperand2\(Token \*tok\)\n\{.*?\n\}\n", tc, re.S)
    if not m:
        return ["Token::astParent/astOperand1/astOperand2 not found in the expected order in lib/token.cpp"], ""
    setters = m.group(0)
    rest = tc[:m.start()] + tc[m.end():]
    wr = re.compile(r"mAst(Parent|Operand1|Operand2)\s*=[^=]")
    if wr.search(rest):
        problems.append("lib/token.cpp writes mAstParent/mAstOperand1/2 outside the three setters")
    libdir = os.path.join(vlib.REPO, "lib")
    for fn in sorted(os.listdir(libdir)):
        if not fn.endswith((".cpp", ".h")):
            continue
        txt = open(os.path.join(libdir, fn), errors="replace").read()
        if fn == "token.cpp":
            txt = rest
        if fn != "token.cpp" and fn != "token.h" and wr.search(txt):
            problems.append("lib/%s writes an AST pointer directly" % fn)
        for mm in re.finditer(r"(?:->|\.)astParent\(\s*[^)\s]", txt):
            problems.append("lib/%s calls astParent(tok) directly: %s" % (fn, txt[mm.start():mm.start() + 40].split("\n")[0]))
    # the text the model transcribes: a normalised copy is compared with the reviewed one
    norm = re.sub(r"\s+", " ", re.sub(r"//[^\n]*", "", setters)).strip()
    return problems, norm


# ------------------------------------------------------------------ generators
def gen_ast_case(rng):
    n = rng.randint(6, 10)
    k = rng.randint(1, 40)
    ops = []
    for _ in range(k):
        r = rng.random()
        kind = "1" if r < 0.45 else "2" if r < 0.9 else "T"
        p = rng.randrange(n)
        if kind == "T":
            c = "" if rng.random() < 0.5 else str(rng.randrange(n))
        else:
            c = "" if rng.random() < 0.12 else str(rng.randrange(n))
        ops += [kind, str(p), c]
    return [str(n)] + ops


def gen_tree_case(rng):
    """Sequences that build real trees bottom-up (as createAst does), then a few random edits."""
    n = rng.randint(6, 10)
    ops = []
    roots = list(range(n))
    rng.shuffle(roots)
    while len(roots) > 1 and rng.random() < 0.9:
        p = roots.pop()
        c1 = roots.pop(rng.randrange(len(roots)))
        ops += ["1", str(p), str(c1)]
        if roots and rng.random() < 0.7:
            c2 = roots.pop(rng.randrange(len(roots)))
            ops += ["2", str(p), str(c2)]
        roots.insert(rng.randrange(len(roots) + 1), p)
    for _ in range(rng.randint(0, 8)):
        kind = rng.choice(["1", "2", "1", "2", "T"])
        ops += [kind, str(rng.randrange(n)), "" if rng.random() < 0.15 else str(rng.randrange(n))]
    return [str(n)] + ops[:120]


def gen_guided_case(rng):
    """Long sequences that mostly complete: a shadow forest (generation only) picks operands from
    another tree 97% of the time, so re-rooting at astTop, replacing operands and detaching are
    exercised on deep trees; 3% of the choices are blind (cycles, self, own subtree)."""
    n = rng.randint(6, 10)
    par = [None] * n
    ops = [[None, None] for _ in range(n)]

    def root(x):
        while par[x] is not None:
            x = par[x]
        return x
    out = []
    for _ in range(rng.randint(5, 40)):
        w = rng.randrange(2)
        p = rng.randrange(n)
        if rng.random() < 0.1:
            c = None
        elif rng.random() < 0.03:
            c = rng.randrange(n)
        else:
            cands = [x for x in range(n) if root(x) != root(p)]
            c = rng.choice(cands) if cands else None
        out += ["1" if w == 0 else "2", str(p), "" if c is None else str(c)]
        # shadow update (valid only while no exception happened; a blind choice may end the run)
        old = ops[p][w]
        if old is not None:
            par[old] = None
            ops[p][w] = None
        if c is not None:
            t = root(c)
            if t == root(p):
                break
            par[t] = p
            ops[p][w] = t
    return [str(n)] + out


SOUP = ["{", "}", "(", ")", "[", "]", ";", "x", ",", "<", ">", "=", "1"]


def gen_soup(rng):
    r = rng.random()
    if r < 0.5:
        # balanced skeleton with a few mutations
        toks = []
        stack = []
        for _ in range(rng.randint(0, 24)):
            q = rng.random()
            if q < 0.35:
                o = rng.choice("{([")
                toks.append(o)
                stack.append({"{": "}", "(": ")", "[": "]"}[o])
            elif q < 0.7 and stack:
                toks.append(stack.pop())
            else:
                toks.append(rng.choice(SOUP[6:]))
        while stack:
            toks.append(stack.pop())
        for _ in range(rng.choice([0, 0, 0, 1, 1, 2])):
            if toks:
                i = rng.randrange(len(toks))
                m = rng.random()
                if m < 0.4:
                    del toks[i]
                elif m < 0.8:
                    toks[i] = rng.choice(SOUP[:6])
                else:
                    toks.insert(i, rng.choice(SOUP[:6]))
        return toks
    return [rng.choice(SOUP[:6] if rng.random() < 0.8 else SOUP) for _ in range(rng.randint(0, 14))]


def gen_toxml_input(rng):
    n = rng.randint(0, 12)
    special = [0, 9, 10, 13, 34, 38, 39, 60, 62, 31, 32, 127, 128, 255, 92, 59]
    return bytes(rng.choice(special) if rng.random() < 0.5 else rng.randrange(256) for _ in range(n))


# ---- programs for the dump validator -------------------------------------------------------------
C_DECLS = [
    "typedef unsigned long ul{n};", "struct S{n} {{ int a; char b[{b}]; struct S{n} *next; }};",
    "enum E{n} {{ A{n}, B{n} = {c}, C{n} }};", "static int g{n}[{b}] = {{ {c}, 2, 3 }};",
    "union U{n} {{ int i; float f; }};", "int (*fp{n})(int, char);", "#define M{n}(x) ((x) + {c})",
    "extern int ext{n};", "typedef struct {{ int x, y; }} P{n};", "static const char *str{n} = \"a<b>&\\\"c'\\t\";",
    "_Static_assert(sizeof(int) >= 2, \"m\");", "struct S{n}b {{ unsigned a : 3; unsigned b : {c}; }};",
]
C_FUNCS = [
    "int f{n}(int a, int b) {{ int r = 0; for (int i = 0; i < a; i++) {{ r += (i % 2) ? b : -b; }} return r; }}",
    "void f{n}(char *p, unsigned len) {{ while (len--) {{ *p++ = (char)({c} & 0xff); }} }}",
    "int f{n}(int x) {{ switch (x) {{ case 1: return {c}; case 2: {{ int y = x * 2; return y; }} default: break; }} return 0; }}",
    "int f{n}(int *a, int n) {{ int s = 0; do {{ s += a[n - 1] * (n > {c} ? 1 : 2); }} while (--n > 0); return s; }}",
    "int f{n}(void) {{ int a[{b}][2] = {{ {{1, 2}} }}; int *p = &a[0][0]; return p[{c}] + sizeof(a) / sizeof(a[0]); }}",
    "int f{n}(int c) {{ if (c > {c}) {{ goto out; }} else if (c < 0) return -1; c = c << 2 | 1; out: return c; }}",
    "static int f{n}(const char *s) {{ int k = 0; if (!s) return 0; while (s[k] != '\\0' && s[k] != '<') k++; return k; }}",
    "double f{n}(double d, float q) {{ return d * {c}.5 + q / 2.0f - (int)d; }}",
    "int f{n}(int a) {{ int b = a, *pb = &b; *pb += {c}; return (a, b) + (a ? b : (a = 3)); }}",
    "void f{n}(void) {{ char buf[{b}]; int i; for (i = 0; i <= {b}; i++) buf[i] = 0; }}",
    "int f{n}(int x) {{ int *p = 0; if (x == {c}) p = &x; return *p; }}",
    "int f{n}(int x) {{ int y; if (x) y = {c}; return y; }}",
]
CPP_DECLS = [
    "namespace N{n} {{ int v = {c}; struct In {{ int q; }}; }}", "template <class T> struct Box{n} {{ T v; T get() const {{ return v; }} }};",
    "class B{n} {{ public: virtual ~B{n}() {{}} virtual int f(int x) {{ return x; }} protected: int m = {c}; }};",
    "class D{n} : public B{n} {{ public: int f(int x) override {{ return x + m; }} static int s; private: int arr[{b}]; }};",
    "template <typename T, int K> T addk{n}(T t) {{ return t + K; }}", "using Vec{n} = std::vector<int>;",
    "enum class Col{n} : char {{ Red, Green = {c} }};", "typedef std::map<std::string, std::vector<int> > M{n};",
    "struct Op{n} {{ int v; Op{n} operator+(const Op{n}& o) const {{ return Op{n}{{v + o.v}}; }} bool operator<(const Op{n}& o) const {{ return v < o.v; }} }};",
    "constexpr int sq{n}(int x) {{ return x * x; }}", "int B{n}dummy;", "static_assert(sizeof(int) > 1, \"x<y\");",
    "template <class... A> int cnt{n}(A... a) {{ return sizeof...(a); }}",
]
CPP_FUNCS = [
    "int g{n}() {{ std::vector<int> v{{1, 2, {c}}}; int s = 0; for (auto it = v.begin(); it != v.end(); ++it) s += *it; for (int x : v) s -= x; return s; }}",
    "int g{n}(int k) {{ auto l = [&k](int a) -> int {{ return a < k ? a : k; }}; return l({c}) + [] {{ return 1; }}(); }}",
    "std::string g{n}(const std::string& s) {{ std::string r = s + \"<&>\"; if (r.size() > {c}u) r = r.substr(1); return r; }}",
    "int g{n}() {{ int* p = new int[{b}]; p[0] = {c}; int r = p[0]; delete[] p; return r; }}",
    "int g{n}(int a) {{ try {{ if (a > {c}) throw a; }} catch (int e) {{ return e; }} catch (...) {{ }} return static_cast<int>(a * 1.5); }}",
    "template <class T> T mx{n}(T a, T b) {{ return a > b ? a : b; }} int g{n}() {{ return mx{n}<int>(1, {c}) + mx{n}(2.0, 3.0) > 1; }}",
    "int g{n}() {{ std::map<int, std::vector<int>> m; m[{c}].push_back(1); return m.count(1) > 0 && m[1].size() < 2; }}",
    "struct W{n} {{ int a; explicit W{n}(int x) : a(x) {{}} int get() const {{ return this->a; }} }}; int g{n}() {{ W{n} w({c}); W{n}* p = &w; return p->get() + w.get(); }}",
    "int g{n}(int a, int b) {{ int r = a >> 1; r = r < b; return (a < b) > (b > a); }}",
    "int g{n}(const std::vector<std::string>& v) {{ for (std::size_t i = 0; i < v.size(); i++) if (v[i].empty()) return int(i); return -1; }}",
    "void g{n}(std::vector<int>& v) {{ auto it = v.begin(); v.push_back({c}); *it = 1; }}",
    "int g{n}() {{ std::unique_ptr<int> p(new int({c})); std::shared_ptr<int> q = std::make_shared<int>(2); return *p + *q; }}",
]


def gen_dump_program(rng, lang=None):
    lang = lang or rng.choice(["c", "cpp"])
    n0 = rng.randrange(1000)
    parts = []
    if lang == "c":
        parts += ["#include <stdio.h>", "#include <string.h>"]
        decls, funcs = C_DECLS, C_FUNCS
    else:
        parts += ["#include <vector>", "#include <string>", "#include <map>", "#include <memory>"]
        decls, funcs = CPP_DECLS + C_DECLS[:10], CPP_FUNCS + C_FUNCS
    k = 0
    for _ in range(rng.randint(1, 4)):
        k += 1
        parts.append(rng.choice(decls).format(n=n0 + k, c=rng.randint(1, 9), b=rng.randint(2, 12)))
    for _ in range(rng.randint(1, 5)):
        k += 1
        parts.append(rng.choice(funcs).format(n=n0 + k, c=rng.randint(1, 9), b=rng.randint(2, 12)))
    if rng.random() < 0.3:
        parts.insert(rng.randrange(len(parts)), "#ifdef CFG%d\nint cfgvar%d = 1;\n#else\nlong cfgvar%d;\n#endif" % (n0, n0, n0))
    return lang, "\n".join(parts) + "\n"


def mutate_text(rng, text):
    """Token-level mutation of an accepted input (the result may or may not be accepted)."""
    toks = re.findall(r"\s+|\w+|\"(?:[^\"\\\n]|\\.)*\"|'(?:[^'\\\n]|\\.)*'|.", text, re.S)
    if not toks:
        return text
    for _ in range(rng.randint(1, 3)):
        i = rng.randrange(len(toks))
        m = rng.random()
        if m < 0.3:
            del toks[i]
        elif m < 0.6:
            toks.insert(i, toks[rng.randrange(len(toks))])
        elif m < 0.8:
            j = rng.randrange(len(toks))
            toks[i], toks[j] = toks[j], toks[i]
        else:
            toks[i] = rng.choice(["(", ")", "{", "}", "[", "]", "<", ">", ";", ",", "*", "&", "::", "template", "const"])
        if not toks:
            break
    return "".join(toks)
