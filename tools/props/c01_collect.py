#!/usr/bin/env python3
"""Developer tool: sweep MiniC programs, shrink violations, print candidate known-finding lines (never run by a check)."""
import hashlib, os, sys, random
sys.path.insert(0, os.path.dirname(os.path.dirname(os.path.abspath(__file__))))
import vlib
from props import c01_minic as M
model = vlib.build_model("C01")
work = "/tmp/vf/collect"; os.makedirs(work, exist_ok=True)
seen = {}
plats = sys.argv[3:] or ["unix64"]
for seed in range(int(sys.argv[1]), int(sys.argv[2])):
    for plat in plats:
        run = vlib.Run("C01", "quick", seed)
        bad = M.run_minic_stream(run, model, plat, 400, work, full=("--full" in os.environ.get("C01_FLAGS", "")))
        for p, viol, lines, tok in bad:
            q, v = M.shrink(p, model, work)
            if not v:
                print("LOST", seed, plat, flush=True); continue
            sh = M.shape_of(q, v)
            key = "minic:" + hashlib.sha1(sh.encode()).hexdigest()[:10]
            if key not in seen:
                seen[key] = 1
                print("known: property=C01 key=%s %s  e.g. `%s` inputs %s observed %s, fact %s" % (
                    key, sh, " ".join(l.strip() for l in q.render("f")[0]), v[3], v[2],
                    {k: v[1][k] for k in ("intvalue", "bound", "known", "impossible") if k in v[1]}), flush=True)
            else:
                seen[key] += 1
print("# shapes:", len(seen), seen)
