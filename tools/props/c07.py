#!/usr/bin/env python3
"""C07  Expression trees follow the C/C++ operator grammar.

prove:      coq/theories/Properties_C07.v  (parse (render e) = tree_of e over the stated fragment)
correspond: extracted model (Ast/Run.v) vs the real tokenizer (harness/vh_c07.cpp: simplifyTokens1 ->
            prepareTernaryOpForAST + TokenList::createAst + validateAst) and vs `cppcheck --dump`
              spec-vs-impl   tree_of e            vs  the tree cppcheck reports for `render e`   (the property)
              model-vs-impl  parse(impl's tokens) vs  the tree cppcheck reports                  (model = code)
              theorem        parse (render e) = tree_of e evaluated by the extracted model
              dump           `cppcheck --dump` astOperand1/2 vs the harness view of the same statements
search:     a disagreement between cppcheck's tree and tree_of e IS a failing input (expression text,
            expected and reported tree); it is shrunk and replayed.
"""
import hashlib
import os
import sys
import xml.etree.ElementTree as ET

sys.path.insert(0, os.path.dirname(os.path.dirname(os.path.abspath(__file__))))
import vlib
from props import c07_common as G

PID = "C07"

CORPUS = [
    # (lang, expr)  -- hand-picked corners: ternary, unary/binary, postfix chains, calls, skipDecl shapes
    ('c', ('a', 0, ('i', 14), ('b', 3, ('i', 0), ('b', 0, ('i', 1), ('i', 2))))),
    ('c', ('a', 0, ('i', 14), ('c', ('i', 0), ('k', ('i', 1), ('i', 2)), ('i', 3)))),
    ('cpp', ('a', 0, ('i', 14), ('c', ('i', 0), ('i', 1), ('a', 0, ('i', 2), ('i', 3))))),
    ('c', ('a', 0, ('i', 14), ('c', ('i', 0), ('a', 0, ('i', 1), ('i', 2)), ('i', 3)))),
    ('c', ('a', 0, ('i', 14), ('c', ('i', 0), ('c', ('i', 1), ('i', 2), ('i', 3)), ('c', ('i', 1), ('i', 2), ('i', 3))))),
    ('c', ('a', 0, ('i', 14), ('b', 4, ('q', 0, ('i', 0)), ('p', 6, ('i', 1))))),
    ('c', ('a', 0, ('i', 14), ('b', 0, ('i', 0), ('p', 4, ('p', 4, ('i', 4)))))),
    ('c', ('a', 0, ('i', 14), ('b', 14, ('i', 0), ('p', 5, ('i', 1))))),
    ('c', ('a', 0, ('i', 14), ('b', 17, ('i', 0), ('p', 5, ('i', 1))))),
    ('cpp', ('a', 0, ('i', 14), ('b', 10, ('b', 8, ('i', 0), ('i', 1)), ('r', ('i', 2))))),
    ('c', ('a', 0, ('i', 14), ('q', 0, ('m', 11, ('m', 13, ('i', 7)))))),
    ('c', ('a', 0, ('i', 14), ('g', ('r', ('i', 8)), ('k', ('i', 0), ('i', 1))))),
    ('c', ('a', 0, ('i', 14), ('g', ('i', 8), ('k', ('r', ('k', ('i', 0), ('i', 1))), ('i', 2))))),
    ('c', ('a', 0, ('i', 14), ('f', ('i', 9)))),
    ('c', ('a', 0, ('i', 14), ('x', ('i', 10), ('k', ('i', 0), ('i', 1))))),
    ('c', ('a', 0, ('i', 14), ('b', 3, ('i', 3), ('b', 0, ('i', 0), ('g', ('i', 8), ('k', ('i', 1), ('i', 2))))))),   # no parens
    ('c', ('a', 0, ('i', 14), ('b', 3, ('i', 3), ('r', ('b', 0, ('i', 0), ('g', ('i', 8), ('k', ('i', 1), ('i', 2)))))))),  # skipDecl shape (fixed by 7d6f057)
    ('cpp', ('a', 0, ('i', 14), ('g', ('i', 8), ('k', ('b', 0, ('i', 0), ('g', ('i', 9), ('i', 1))), ('i', 3))))),   # skipDecl shape in args (fixed)
    ('c', ('a', 3, ('p', 4, ('i', 4)), ('p', 1, ('p', 1, ('i', 0))))),
    ('c', ('k', ('a', 0, ('i', 0), ('i', 1)), ('a', 0, ('i', 2), ('i', 3)))),
    ('c', ('a', 0, ('g', ('r', ('i', 8)), ('i', 1)), ('i', 2))),
    # C++: member variable followed by < ... > (linked as template brackets by the tokenizer)
    ('cpp', ('a', 0, ('i', 14), ('b', 10, ('b', 8, ('m', 11, ('i', 6)), ('i', 0)), ('i', 1)))),
    ('cpp', ('a', 0, ('i', 14), ('g', ('i', 8), ('k', ('b', 8, ('m', 11, ('i', 6)), ('i', 0)), ('b', 10, ('i', 1), ('i', 2)))))),
    ('c', ('a', 0, ('i', 14), ('g', ('i', 8), ('k', ('b', 8, ('m', 11, ('i', 6)), ('i', 0)), ('b', 10, ('i', 1), ('i', 2)))))),
    # ", ( ... ) =" : simplifyRedundantParentheses removes parentheses that are not redundant
    ('cpp', ('g', ('i', 8), ('k', ('i', 1), ('a', 0, ('c', ('i', 2), ('i', 0), ('i', 3)), ('n', 2))))),
    ('cpp', ('g', ('i', 8), ('k', ('i', 1), ('a', 0, ('a', 0, ('i', 0), ('i', 3)), ('n', 2))))),
    ('cpp', ('g', ('i', 8), ('k', ('i', 1), ('a', 1, ('c', ('i', 2), ('i', 0), ('i', 3)), ('n', 2))))),
]


def cast_corpus():
    """every cast type x every prefix-unary shape after the cast (the cast-vs-binary-operator decision of iscast)"""
    P, Q, A, B = ('i', 4), ('i', 5), ('i', 0), ('i', 1)
    shapes = [('p', 6, ('p', 4, P)), ('p', 7, ('p', 4, Q)), ('p', 6, ('p', 4, ('p', 4, ('i', G.NID["ps"])))),
              ('p', 6, A), ('p', 7, ('r', A)), ('p', 1, A), ('p', 4, P), ('p', 5, A), ('p', 2, A), ('p', 3, A),
              ('p', 0, A), ('t', 0, ('p', 1, A)), ('t', 2, ('p', 5, A)), ('r', ('b', 3, A, B)), A, ('n', 7),
              ('q', 0, A), ('x', ('i', G.NID["arr"]), A), ('g', ('i', G.NID["g"]), A), ('p', 1, ('p', 6, ('p', 4, P)))]
    out = []
    for ty in range(len(G.TYPES)):
        for k, sh in enumerate(shapes):
            e = ('t', ty, sh)
            out.append(("c" if (ty + k) % 2 else "cpp", ('a', 0, ('i', G.NID["r"]), e)))
            if k < 4:
                out.append(("cpp" if (ty + k) % 2 else "c", ('a', 0, ('i', G.NID["r"]), ('b', 3, B, e))))
    return out


def token_strs(fs):
    """render output fields (label tok)* -> (labels, token fields)"""
    labs = [int(fs[i]) for i in range(0, len(fs), 2)]
    toks = [fs[i] for i in range(1, len(fs), 2)]
    return labs, toks


class Evaluator:
    def __init__(self, run, model, vh):
        self.run, self.model, self.vh = run, model, vh

    def model_lines(self, lines):
        rc, out, err = vlib.run_lines([self.model], [vlib.enc_case(l) for l in lines])
        if rc != 0 or len(out) != len(lines):
            raise vlib.BuildError("model run failed rc=%s %d/%d %s" % (rc, len(out), len(lines), err[-500:]))
        return [vlib.dec_line(o) for o in out]

    def harness_lines(self, lines):
        rc, out, err = vlib.run_lines([self.vh, "ast"], [vlib.enc_case(l) for l in lines])
        if len(out) != len(lines):
            raise vlib.BuildError("harness died rc=%s after %d/%d cases: %s" % (rc, len(out), len(lines), err[-500:]))
        return [vlib.dec_line(o) for o in out]

    def evaluate(self, cases):
        """cases: [(lang, e)] -> list of dict records"""
        ml = []
        for lang, e in cases:
            f = G.fields(e)
            ml += [[b"render"] + f, [b"spec"] + f, [b"chk", lang.encode()] + f]
        mo = self.model_lines(ml)
        recs = []
        hl = []
        for k, (lang, e) in enumerate(cases):
            rnd, spec, chk = mo[3 * k], mo[3 * k + 1], mo[3 * k + 2]
            if rnd[:1] != [b"ok"] or spec[:1] != [b"ok"] or len(chk) != 7:
                raise vlib.BuildError("model rejected an expression encoding: %r %r" % (e, rnd))
            labs, toks = token_strs(rnd[1:])
            strs = [G.tokfield_text(t) for t in toks]
            pos = {l: i for i, l in enumerate(labs) if toks[i] not in (b"(", b")") or True}
            # labels are positions (canon); parentheses added by render reuse a node label: resolve by token kind
            posn = {}
            for i, l in enumerate(labs):
                if l not in posn or labs.count(l) == 1:
                    posn[l] = i
            # node tokens carry label == position; check it
            sl = G.table_links(spec[1:])
            ok_labels = all(0 <= l < len(strs) and labs[l] == l for l in sl)
            # a '.' may be written '->' (the tokenizer turns it into '.'); after a postfix ++/-- only '->' is C
            tstrs = list(strs)
            for i, x in enumerate(tstrs):
                if x == "." and i and (tstrs[i - 1] in ("++", "--") or (len(tstrs) * 7 + i * 13) % 3 == 0):
                    tstrs[i] = "->"
            text = " ".join(tstrs)
            rec = {"lang": lang, "e": e, "text": text, "strs": strs, "spec_links": sl, "labels_ok_pos": ok_labels,
                   "wf": chk[0] == b"1", "decl_like": chk[1] == b"1", "labels_ok": chk[2] == b"1", "thm": chk[3] == b"1",
                   "stage6_premises": chk[0] == b"1" and chk[2] == b"1" and chk[4] == b"1"}
            rec["spec_tree"] = G.canon_tree(strs, sl)
            rec["labs"], rec["tstrs"] = labs, tstrs
            recs.append(rec)
            hl.append([lang.encode(), G.PRELUDE.encode(), text.encode()])
        ho = self.harness_lines(hl)
        pl, pidx = [], []
        for rec, h in zip(recs, ho):
            if h and h[0] == "!exc":
                rec["status"] = "rejected"
                rec["why"] = h[1].decode("latin-1")
                continue
            if h[:1] != [b"ok"]:
                rec["status"] = "rejected"
                rec["why"] = b" ".join(h).decode("latin-1")
                continue
            rec["status"] = "ok"
            hs, hlinks, hflags = [], {}, []
            for i, f in enumerate(h[1:]):
                o1, o2, par, flags, s = f.decode("latin-1").split(",", 4)
                hs.append(s)
                hflags.append(flags)
                a = int(o1) if int(o1) >= 0 else None
                b = int(o2) if int(o2) >= 0 else None
                if int(o1) == -2 or int(o2) == -2:
                    rec["escapes"] = True
                hlinks[i] = (a, b)
            rec["impl_strs"], rec["impl_links"] = hs, hlinks
            rec["impl_linked_angle"] = any(x in ("<", ">") and 'l' in fl for x, fl in zip(hs, hflags))
            rec["impl_tree"] = G.canon_tree(hs, hlinks)
            # tokens as createAst saw them -> model tokens (without the final ';')
            body = hs[:-1] if hs and hs[-1] == ";" else hs
            tf = [G.text_tokfield(s, fl, hs[i - 1] if i else "") for i, (s, fl) in enumerate(zip(body, hflags))]
            if any(t is None for t in tf) or b";" in tf:
                rec["outside"] = [s for s, t in zip(body, tf) if t is None][:3]
            else:
                pidx.append(rec)
                pl.append([b"parse", rec["lang"].encode()] + tf)
        po = self.model_lines(pl) if pl else []
        for rec, p in zip(pidx, po):
            if p[:1] != [b"ok"]:
                rec["model_parse"] = "F"
                continue
            rec["model_left"] = int(p[1])
            ml_ = G.table_links(p[2:])
            rec["model_links"] = ml_
            rec["model_tree"] = G.canon_tree(rec["impl_strs"], ml_)
        return recs


def bucket_of(rec):
    e = rec["e"]
    kinds = set()

    def walk(x):
        kinds.add(x[0])
        for k in G.kids(x):
            walk(k)
    walk(e)
    cls = "".join(sorted(kinds - set("in")))
    return "%s,%s%s,size%02d" % (rec["lang"], rec["status"], ",cast" if G.has_cast(e) else "", min(G.size(e), 40) // 5 * 5)


def judge(run, recs, stream_prefix=""):
    """count the three comparisons; return (property mismatches, model mismatches, theorem failures)"""
    prop, modl, thm = [], [], []
    for rec in recs:
        e = rec["e"]
        nt = (rec["lang"], rec["text"]) if G.size(e) >= 3 else None
        # theorem instance
        if G.has_cast(e):
            run.count(stream_prefix + "theorem-instance", None, nontrivial=None, bucket="outside-model:cast")
        elif rec["wf"] and rec["labels_ok"]:
            run.count(stream_prefix + "theorem-instance", None, nontrivial=nt,
                      bucket=("holds" if rec["thm"] else "FAILS") +
                             (",premises-of-C07_parse_render_stage6_partial" if rec["stage6_premises"] else ",outside-its-premises"))
            if not rec["thm"] and not G.has_cast(e):
                thm.append(rec)
        else:
            run.count(stream_prefix + "theorem-instance", None, nontrivial=None,
                      bucket="outside-hypotheses:" + ("not-wf" if not rec["wf"] else "labels"))
        if rec["status"] != "ok":
            run.count(stream_prefix + "spec-vs-impl", None, nontrivial=None, bucket="impl-rejects:" + rec.get("why", "")[:60])
            continue
        # the tokenizer rewrites some token sequences before createAst (unary '+' dropped, '- -' -> '+',
        # '- 1' -> '-1', ...): the property is compared only when the operator/operand tokens are unchanged
        plain = G.plain
        if plain(rec["impl_strs"]) != plain(rec["strs"]):
            rec["rewritten"] = True
            run.count(stream_prefix + "spec-vs-impl", None, nontrivial=None, bucket="tokenizer-rewrote-tokens")
            same = True
        else:
            same = rec["impl_tree"] == rec["spec_tree"]
        if not rec.get("rewritten"):
            run.count(stream_prefix + "spec-vs-impl", None, nontrivial=nt,
                  bucket=("agree" if same else "DIFFER") + ("" if rec["wf"] else ",not-wf") + "," + bucket_of(rec))
        if not same and rec["wf"]:
            prop.append(rec)
            run.stream(stream_prefix + "spec-vs-impl")["disagreements"] += 1
        # the model: parse(impl tokens) == reported tree
        if "outside" in rec:
            run.count(stream_prefix + "model-vs-impl", None, nontrivial=None, bucket="outside-token-language:" + " ".join(rec["outside"]))
            continue
        if rec.get("model_parse") == "F":
            run.count(stream_prefix + "model-vs-impl", None, nontrivial=None, bucket="model-F")
            continue
        if rec["model_left"] != 1:
            # the model stopped before ';' : createAst would start a new tree there (not modelled) - compare anyway
            pass
        same2 = rec["model_tree"] == rec["impl_tree"]
        run.count(stream_prefix + "model-vs-impl", None, nontrivial=nt, bucket=("agree" if same2 else "DIFFER") + ",left%d" % min(rec["model_left"], 2))
        if not same2:
            modl.append(rec)
            run.stream(stream_prefix + "model-vs-impl")["disagreements"] += 1
    return prop, modl, thm


def comma_paren_assign(strs):
    """is there a  , ( ... ) =  in the token list"""
    for i, x in enumerate(strs):
        if x == "(" and i and strs[i - 1] == ",":
            d = 0
            for j in range(i, len(strs)):
                d += strs[j] in ("(", "[")
                d -= strs[j] in (")", "]")
                if d == 0:
                    if j + 1 < len(strs) and strs[j + 1] == "=":
                        return True
                    break
    return False


def key_of(rec):
    if rec.get("impl_linked_angle"):
        return "memberTemplateLink"
    if comma_paren_assign(rec["strs"]) and not comma_paren_assign(rec.get("impl_strs", [])):
        return "parenRemovedBeforeAssign"
    return "tree:" + hashlib.sha1((rec["lang"] + rec["text"]).encode()).hexdigest()[:12]


def key_class(rec):
    k = key_of(rec)
    return k if k in ("memberTemplateLink", "parenRemovedBeforeAssign") else "other"


def shrink(ev, rec, pred):
    """greedy shrink of rec['e'] keeping pred(rec') true"""
    best = rec
    for _ in range(40):
        cands = [(best["lang"], c) for c in G.shrink_candidates(best["e"])]
        cands = [c for c in dict.fromkeys(cands) if G.wf_py(c[1])][:60]
        if not cands:
            break
        rs = ev.evaluate(cands)
        good = [r for r in rs if pred(r)]
        if not good:
            break
        best = min(good, key=lambda r: G.size(r["e"]))
    return best


def is_prop_violation(r):
    plain = G.plain
    return r["status"] == "ok" and r["wf"] and plain(r["impl_strs"]) == plain(r["strs"]) and r["impl_tree"] != r["spec_tree"]


def report_prop(run, ev, rec):
    small = shrink(ev, rec, lambda r: is_prop_violation(r) and key_class(r) == key_class(rec))
    key = key_of(small)
    run.violation(key,
                  "cppcheck's tree for `%s ;` (%s) is %s but the grammar assigns %s" % (
                      small["text"], small["lang"], G.sexpr(small["impl_strs"], small["impl_links"]),
                      G.sexpr(small["strs"], small["spec_links"])),
                  {"input": {"language": small["lang"], "declarations": G.PRELUDE, "statement": small["text"] + " ;"},
                   "expected_tree": G.sexpr(small["strs"], small["spec_links"]),
                   "reported_tree": G.sexpr(small["impl_strs"], small["impl_links"]),
                   "reported_tokens": " ".join(small["impl_strs"]),
                   "unshrunk_statement": rec["text"] + " ;",
                   "fnptr_decl_pattern": small["decl_like"],
                   "angle_brackets_linked_as_template": bool(small.get("impl_linked_angle")),
                   "how": "put the declarations and `void vhf ( ) { <statement> }` in a .c/.cpp file; "
                          "build/repo/bin/cppcheck --dump; read astOperand1/astOperand2 of the operator tokens"})


def dump_stream(run, ev, recs, tag):
    """run the real `cppcheck --dump` on the accepted statements and compare with the harness view"""
    by_lang = {"c": [], "cpp": []}
    for r in recs:
        if r["status"] == "ok" and not r.get("escapes"):
            by_lang[r["lang"]].append(r)
    d = os.path.join(vlib.BUILD, "c07_dump")
    os.makedirs(d, exist_ok=True)
    for lang, rs in by_lang.items():
        for off in range(0, len(rs), 200):
            chunk = rs[off:off + 200]
            path = os.path.join(d, "%s_%s_%d.%s" % (tag, lang, off, lang))
            with open(path, "w") as f:
                f.write(G.PRELUDE + "\n")
                for i, r in enumerate(chunk):
                    f.write("void vhf%d ( ) { %s ; }\n" % (i, r["text"]))
            rc, out, dt = vlib.sh([vlib.CPPCHECK, "--dump", "-q", path], timeout=600)
            dp = path + ".dump"
            if not os.path.exists(dp):
                run.violation("dump:" + tag, "cppcheck --dump produced no dump for a batch the harness accepts: " + out[-300:],
                              {"broken": "dump", "file": path, "output": out[-2000:]}, found_input=False)
                continue
            trees = read_dump(dp)
            os.remove(dp)
            os.remove(path)
            for i, r in enumerate(chunk):
                got = trees.get(i + 2)
                if got is None:
                    same = False
                else:
                    strs, links = got
                    same = strs == r["impl_strs"] and G.canon_tree(strs, links) == r["impl_tree"]
                run.count("dump-vs-harness", None, nontrivial=(r["lang"], r["text"]) if G.size(r["e"]) >= 3 else None,
                          bucket="agree" if same else "DIFFER")
                if not same:
                    run.stream("dump-vs-harness")["disagreements"] += 1
                    run.violation("dump:" + hashlib.sha1(r["text"].encode()).hexdigest()[:10],
                                  "`cppcheck --dump` and the tokenizer harness disagree on `%s ;`" % r["text"],
                                  {"broken": "correspondence dump-vs-harness", "statement": r["text"], "dump": repr(got)[:1500],
                                   "harness": repr((r["impl_strs"], r["impl_links"]))[:1500]}, found_input=False)


def minimal_parens_stream(run, ev, recs, limit):
    """render claims minimal parentheses: removing a pair that render added (not an explicit EPar) must change the
    tree the implementation reports (or make it reject).  Informational: shows the generator exercises precedence."""
    lines, meta = [], []
    for r in recs:
        if len(lines) >= limit or r["status"] != "ok" or r.get("rewritten") or G.has_cast(r["e"]):
            continue
        strs, labs = r["strs"], r["labs"]
        cand = [i for i, x in enumerate(strs) if x == "(" and labs[i] != i and i not in r["spec_links"]]
        if not cand:
            continue
        i = cand[len(strs) % len(cand)]
        d, j = 0, None
        for k in range(i, len(strs)):
            d += strs[k] in ("(", "[")
            d -= strs[k] in (")", "]")
            if d == 0:
                j = k
                break
        if j is None:
            continue
        toks = [x for k, x in enumerate(r["tstrs"]) if k not in (i, j)]
        lines.append([r["lang"].encode(), G.PRELUDE.encode(), " ".join(toks).encode()])
        meta.append((r, " ".join(toks)))
    if not lines:
        return
    out = ev.harness_lines(lines)
    for (r, text), h in zip(meta, out):
        if not h or h[0] == "!exc" or h[:1] != [b"ok"]:
            run.count("minimal-parentheses", None, nontrivial=(r["lang"], text), bucket="removal-rejected")
            continue
        hs, hl = [], {}
        for k, f in enumerate(h[1:]):
            o1, o2, par, flags, x = f.decode("latin-1").split(",", 4)
            hs.append(x)
            hl[k] = (int(o1) if int(o1) >= 0 else None, int(o2) if int(o2) >= 0 else None)
        same = G.canon_tree(hs, hl) == r["spec_tree"]
        run.count("minimal-parentheses", None, nontrivial=(r["lang"], text),
                  bucket="SAME-TREE-without-the-pair" if same else "tree-changes")
        if same and len(run.notes) < 5:
            run.notes.append("parentheses not needed for the reported tree: `%s` vs `%s`" % (r["text"], text))


def read_dump(path):
    """line number -> (token strings, {idx: (o1, o2)}) for the body of each one-line function"""
    root = ET.parse(path).getroot()
    out = {}
    for dump in root.iter("dump"):
        lines = {}
        for t in dump.iter("token"):
            lines.setdefault(int(t.get("linenr")), []).append(t)
        for ln, toks in lines.items():
            strs = [t.get("str") for t in toks]
            if "{" not in strs:
                continue
            lo, hi = strs.index("{") + 1, len(strs) - 1 - strs[::-1].index("}")
            body = toks[lo:hi]
            ids = {t.get("id"): i for i, t in enumerate(body)}
            links = {}
            for i, t in enumerate(body):
                links[i] = (ids.get(t.get("astOperand1")), ids.get(t.get("astOperand2")))
            out[ln] = ([t.get("str") for t in body], links)
        break
    return out


def check(run, replay):
    quick = run.tier == "quick"
    rng = run.rng
    run.trusted_base += [
        "Coq 8.16.1 kernel (coqc); vm_compute only in Examples / the refutation witness; no native_compute",
        "extraction: Require Extraction + ExtrOcamlBasic only; ocaml/driver.ml (I/O)",
        "harness/vh_c07.cpp (tokenizes `<declarations> void vhf ( ) { <statement> ; }` with the real Tokenizer::simplifyTokens1 and prints str/astOperand1/astOperand2/astParent per token); "
        "tools/props/c07.py + c07_common.py (generation, text = model tokens joined by spaces, canonical numbering of node tokens, comparison)",
        "modelled, not verified: lib/tokenlist.cpp compileExpression..compileTerm, compileBinOp, compileUnaryOp, isPrefixUnary, isQualifier, skipDecl; lib/tokenize.cpp prepareTernaryOpForAST "
        "(token language: declared identifiers, numbers, operators, ( ) [ ] ? : , . ; ; iscast() is false there; AST_MAX_DEPTH not modelled)",
        "the tokenizer passes before createAst (-> to ., redundant parenthesis removal, ...) are not modelled: the model is run on the token list the implementation reports, and the property is compared on trees (parentheses are not nodes)",
    ]
    run.assumptions += ["g++ compiles /repo faithfully", "every identifier of the generated statements is a declared variable (int, pointer, struct, function pointer, array)"]
    run.extra["rule"] = ("random expressions over all modelled operators (depth <= 8, C and C++ mode), 65% wrapped as `r = e`, the rest as bare statements; "
                         "thorough adds every expression with <= 4 nodes over all operators and <= 5 nodes over one operator per level; "
                         "non-trivial = distinct (language, statement text) with >= 3 nodes")

    vlib.ensure_repo_build()
    ok = run.prove()
    if not ok:
        run.violation("proof:" + PID, "Properties_C07.vo does not build: " + str(run.proof_error())[:300],
                      {"broken": "proof", "detail": run.proof_error()}, found_input=False)
    # the model (Ast/Run.vo) is built by make as well, so that it is never stale w.r.t. Defs.v / Frag.v
    ok2, out, _ = vlib.coq_make(["theories/Ast/Run.vo"])
    if not ok2:
        run.violation("model:" + PID, "Ast/Run.vo does not build: " + out[-300:], {"broken": "model build", "log": out[-2000:]}, found_input=False)
        return
    model = vlib.build_model(PID)
    vh = vlib.build_harness(PID)
    ev = Evaluator(run, model, vh)

    def wrap(e):
        return ('a', 0, ('i', G.NID["r"]), e)

    cases = list(CORPUS) + cast_corpus()
    plausible = set(cases)       # statements a compiler accepts syntactically: operands of ++ -- & = are lvalue-shaped
    n = 2500 if quick else 50000
    for _ in range(n):
        lang = rng.choice(["c", "cpp"])
        wild = rng.random() < 0.15
        e = G.gen(rng, rng.randint(2, 8), lang == "cpp", wild=wild)
        if rng.random() < 0.65 or e[0] in "ink":
            e = wrap(e)      # (a bare `a , b ;` gets no tree at all: createAstAtToken, not the ladder)
        cases.append((lang, e))
        if not wild:
            plausible.add((lang, e))
    if not quick:
        full = []
        for k in range(1, 5):
            full += G.enumerate_exprs(k, [('i', 0), ('n', 1)], range(8), range(2), [b for b in range(19) if b != 7], range(11))
        red = G.enumerate_exprs(5, [('i', 0)], [1, 4, 5, 6], [0], [0, 3, 5, 8, 12, 14, 15, 16, 17, 18], [0, 1])
        run.notes.append("exhaustive: %d expressions with <= 4 nodes, %d with 5 nodes (one operator per level)" % (len(full), len(red)))
        run.extra["exhaustive"] = {"le4_all_operators": len(full), "eq5_one_operator_per_level": len(red)}
        for i, e in enumerate(full + red):
            cases.append(("c" if i % 2 else "cpp", wrap(e)))
    cases = list(dict.fromkeys(cases))

    all_prop, all_modl, all_thm, sample, all_rej = [], [], [], [], []
    for off in range(0, len(cases), 4000):
        recs = ev.evaluate(cases[off:off + 4000])
        for r in recs:
            r["plausible"] = (r["lang"], r["e"]) in plausible
        p, m, t = judge(run, recs)
        all_rej += [r for r in recs if r["status"] != "ok" and r["plausible"] and r["stage6_premises"] and r["thm"]
                    and "internalAstError" in r.get("why", "")]
        all_prop += p
        all_modl += m
        all_thm += t
        if off == 0:
            sample = recs
            for r in recs[:6]:
                run.samples.append({"stream": "spec-vs-impl", "language": r["lang"], "statement": r["text"] + " ;",
                                    "grammar_tree": G.sexpr(r["strs"], r["spec_links"]),
                                    "reported_tree": G.sexpr(r["impl_strs"], r["impl_links"]) if r["status"] == "ok" else r.get("why")})
    minimal_parens_stream(run, ev, sample, 300 if quick else 3000)
    # the real --dump on a sample
    dump_stream(run, ev, sample[:400 if quick else 4000], "s%d" % run.seed)

    # ---- report
    seen = {}
    for rec in sorted(all_prop, key=lambda r: G.size(r["e"])):
        k = key_class(rec)
        seen[k] = seen.get(k, 0) + 1
        if seen[k] > (3 if k == "other" else 1):
            continue
        report_prop(run, ev, rec)
    run.extra["property_mismatches_by_class"] = dict(seen)
    for rec in sorted(all_modl, key=lambda r: G.size(r["e"]))[:3]:
        if is_prop_violation(rec):
            continue     # already reported as a failing input of the property
        small = shrink(ev, rec, lambda r: r["status"] == "ok" and "model_tree" in r and r["model_tree"] != r["impl_tree"])
        run.violation("model:" + hashlib.sha1(small["text"].encode()).hexdigest()[:12],
                      "the model of createAst and the implementation disagree on `%s ;` although the reported tree is the grammar's" % small["text"],
                      {"broken": "correspondence model-vs-impl", "statement": small["text"] + " ;", "language": small["lang"],
                       "implementation_tokens": " ".join(small["impl_strs"]),
                       "implementation_tree": G.sexpr(small["impl_strs"], small["impl_links"]),
                       "model_tree": G.sexpr(small["impl_strs"], small.get("model_links", {}))}, found_input=False)
    # cppcheck's AST builder (validateAst) rejects a plausible statement that the model parses to the grammar's tree:
    # the model does not follow the code (the property itself only speaks about accepted expressions)
    run.stream("model-vs-impl")["disagreements"] += len(all_rej)
    for rec in sorted(all_rej, key=lambda r: G.size(r["e"]))[:3]:
        run.violation("astreject:" + hashlib.sha1(rec["text"].encode()).hexdigest()[:12],
                      "cppcheck rejects `%s ;` (%s) with %s although the model of createAst builds the grammar's tree %s" % (
                          rec["text"], rec["lang"], rec["why"][:80], G.sexpr(rec["strs"], rec["spec_links"])),
                      {"broken": "correspondence model-vs-impl (implementation rejects)", "language": rec["lang"],
                       "declarations": G.PRELUDE, "statement": rec["text"] + " ;", "implementation_says": rec["why"],
                       "model_tree": G.sexpr(rec["strs"], rec["spec_links"])}, found_input=False)
    for rec in all_thm[:2]:
        run.violation("thm:" + hashlib.sha1(rec["text"].encode()).hexdigest()[:12],
                      "the extracted model contradicts the proved theorem on `%s`" % rec["text"],
                      {"broken": "extraction/theorem instance", "statement": rec["text"]}, found_input=False)


if __name__ == "__main__":
    vlib.main(check, PID)
