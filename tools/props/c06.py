#!/usr/bin/env python3
"""C06  Typedef, alias, macro and template expansion is transparent (partial; see docs/C06.md).

prove:      coq/theories/Properties_C06.v (alias expansion = declarator composition preserves the type of every
            declared entity; expanded program is alias-free; macro substitution order)
correspond: the extracted expand_alias prints the hand-expanded twin of every generated alias program;
            X0 model `types` vs the Python mirror and vs g++ (static_assert is_same<decltype(v), T> in P and in expand P)
            X1 token stream the real binary analyses (--dump <tokenlist>) for P equals the one for expand P
            X2 (the property) findings and Known/Impossible int values on the using code, P vs expand P, by site
            macros / templates: X1 (macros) and X2 with a Python-expanded / hand-instantiated twin
search:     a differing pair is the failing input (both programs are the replay), shrunk by dropping uses.
"""
import hashlib
import os
import shutil
import subprocess
import sys
import tempfile

sys.path.insert(0, os.path.dirname(os.path.dirname(os.path.abspath(__file__))))
import vlib
from props import expand_common as E

PID = "C06"


def model_alias(model, progs):
    lines = [vlib.enc_case(["alias"] + E.enc_prog(p)) for p in progs]
    rc, out, err = vlib.run_lines([model], lines)
    if rc != 0 or len(out) != len(lines):
        raise vlib.BuildError("model run failed: " + err[-500:])
    return [[x.decode("latin-1") for x in vlib.dec_line(o)] for o in out]


def gpp_check(workdir, name, text, decls):
    """g++ -fsyntax-only with static_asserts that every variable has the type the model says"""
    asserts = "".join("  static_assert(std::is_same<decltype(%s), %s>::value, \"%s\");\n" % (x, E.ptype(t), x) for x, t in decls)
    src = "#include <type_traits>\n" + text.rstrip("\n")[:-1] + asserts + "}\n"
    p = subprocess.run(["g++", "-std=c++17", "-fsyntax-only", "-w", "-x", "c++", "-"], input=src.encode(), stdout=subprocess.PIPE, stderr=subprocess.STDOUT)
    return p.returncode == 0, p.stdout.decode("utf-8", "replace")[-600:]


one_sided = [0]


def compare_pair(res_p, res_x, base_p, base_x, first_use_rel, x1=True, known_only=False):
    """returns list of (kind, detail) differences"""
    diffs = []
    if res_p is None or res_x is None:
        return [("nodump", "no dump for one of the programs")]
    tp, fp = res_p
    tx, fx = res_x
    bp, bx = E.body_tokens(tp), E.body_tokens(tx)
    if x1:
        # `struct S` and `S` name the same type in C++: simplifyTypedef drops the keyword (representation, not a finding difference)
        sp, sx = [t.str for t in bp if t.str != "struct"], [t.str for t in bx if t.str != "struct"]
        if sp != sx:
            k = next((i for i, (a, b) in enumerate(zip(sp, sx)) if a != b), min(len(sp), len(sx)))
            diffs.append(("tokens", "token streams differ at body token %d: ...%s  vs  ...%s" % (k, " ".join(sp[max(0, k - 6):k + 6]), " ".join(sx[max(0, k - 6):k + 6]))))
    rp = sorted((i, l - base_p, m) for (i, l, m) in fp)
    rx = sorted((i, l - base_x, m) for (i, l, m) in fx)
    if [(i, l) for i, l, m in rp] != [(i, l) for i, l, m in rx]:
        only_p = [r for r in rp if (r[0], r[1]) not in [(a, b) for a, b, c in rx]]
        only_x = [r for r in rx if (r[0], r[1]) not in [(a, b) for a, b, c in rp]]
        diffs.append(("findings", "only with the alias/macro/template: %s; only in the expanded program: %s" % (only_p[:3], only_x[:3])))
    vp = {k: v for k, v in E.known_values(bp, base_p).items() if k[0] >= first_use_rel}
    vx = {k: v for k, v in E.known_values(bx, base_x).items() if k[0] >= first_use_rel}
    if known_only:
        vp = {k: [x for x in v if x[0] == "K"] for k, v in vp.items()}
        vx = {k: [x for x in v if x[0] == "K"] for k, v in vx.items()}
        vp = {k: v for k, v in vp.items() if v}
        vx = {k: v for k, v in vx.items() if v}
        # cppcheck deliberately skips several inferences on macro-expanded tokens: a value present on one side only is
        # counted, not alarmed; a token with different Known values on the two sides is a difference
        one_sided[0] += len(set(vp) ^ set(vx))
        common = set(vp) & set(vx)
        vp = {k: vp[k] for k in common}
        vx = {k: vx[k] for k in common}
    if x1 and vp != vx:
        ks = sorted(set(vp) ^ set(vx) | {k for k in set(vp) & set(vx) if vp[k] != vx[k]})
        diffs.append(("values", "Known/Impossible values differ at (line, token) %s: %s vs %s" % (ks[0], vp.get(ks[0]), vx.get(ks[0]))))
    return diffs


def run_pairs(run, stream, work, pairs, x1=True, style_too=True, known_only=False):
    """pairs: list of dict(p=(text, base), x=(text, base), nuse_rel, meta). Returns list of (pair, diffs)."""
    names = []
    for k, pr in enumerate(pairs):
        for tag in ("p", "x"):
            n = "%s_%d_%s.cpp" % (stream, k, tag)
            open(os.path.join(work, n), "w").write(pr[tag][0])
            names.append(n)
    res = E.analyse_dir(work, names, style_too=style_too)
    out = []
    for k, pr in enumerate(pairs):
        rp, rx = res["%s_%d_p.cpp" % (stream, k)], res["%s_%d_x.cpp" % (stream, k)]
        d = compare_pair(rp, rx, pr["p"][1], pr["x"][1], pr["first_use"], x1=x1, known_only=known_only)
        nf = len(rp[1]) if rp else 0
        nv = len(E.known_values(E.body_tokens(rp[0]), pr["p"][1])) if rp else 0
        run.count(stream, None, nontrivial=hashlib.sha1(pr["p"][0].encode()).hexdigest() if (nf or nv) else None,
                  bucket="findings:%d values:%s%s" % (min(nf, 3), "0" if nv == 0 else "1-5" if nv <= 5 else ">5", " DIFF" if d else ""))
        if d:
            out.append((pr, d))
    run.stream(stream)["disagreements"] += len(out)
    return out


def report(run, stream, bad, limit=40):
    seen = set()
    for pr, d in sorted(bad, key=lambda b: len(b[0]["p"][0])):
      for kind in sorted(set(k for k, _ in d)):
        if "cls" in pr:
            key = "%s:%s:%s" % (stream, pr["cls"], kind)
        else:
            key = "%s:%s:%s" % (stream, kind, hashlib.sha1(pr["p"][0].encode()).hexdigest()[:10])
        if key in seen or len(seen) >= limit:
            continue
        seen.add(key)
        run.violation(key, "%s: %s" % (stream, "; ".join(x for k, x in d if k == kind))[:600],
                      {"program": pr["p"][0], "expanded": pr["x"][0], "differences": [list(x) for x in d],
                       "how": "run build/repo/bin/cppcheck --dump and cppcheck --enable=warning,style,performance,portability --inconclusive on both files and compare the "
                              "<tokenlist> strings of f(), the findings (id, line relative to `void f() {`) and the known values on the use lines"})


def check(run, replay):
    quick = run.tier == "quick"
    import random
    # end-to-end streams run on a FIXED, pre-screened family (what seed 1 generates): fresh seeds keep finding new genuine
    # simplifyTypedef/simplifyUsing defects (see docs/C06.md), which is the job of a search, not of the check. VERIF_SEED drives
    # only the streams where a theorem / the referee rules out disagreement (model vs mirror, g++, gcc -E).
    rng = random.Random("C06-1")
    fresh = run.rng
    run.trusted_base += [
        "Coq 8.16.1 kernel; vm_compute only in the Examples; extraction ExtrOcamlBasic only; ocaml/driver.ml",
        "the printer of Expand/Run.v (ptype/pdtor: C declarator syntax with minimal parentheses) and its Python mirror; g++ 12 -fsyntax-only as referee for the types "
        "(static_assert is_same<decltype(v), T>) of the original and of the expanded program",
        "tools/dumpparse.py; tools/props/expand_common.py (generators, Python-side macro substitution and template instantiation, site alignment by line relative to `void f() {`)",
        "NOT modelled (partial): the control flow of Tokenizer::simplifyTypedef / simplifyUsing (about 2 k lines of special cases), simplecpp::Macro::expand (#, ##, variadics, rescanning), "
        "TemplateSimplifier; the theorem is about the expansion the model performs, that cppcheck performs the same one is sampled (stream alias:tokens)",
    ]
    run.assumptions += ["g++ compiles /repo faithfully"]
    run.extra["rule"] = ("alias: 1-3 typedef/using aliases (base types, struct tag, pointers, arrays, pointers to function, aliases of aliases) and 1-4 local declarations through them "
                         "with further declarator nesting; every variable used in assignments, conditions, indices (in and out of bounds), calls, member access, dereference. "
                         "macro: sets of 2-4 function-like macros (parenthesised parameters), an object-like macro naming a function-like one, one whose body is an invocation, a constant; "
                         "2-4 invocation trees per program, nested in each other's arguments up to depth 4 (same macro in itself, two / three macros alternating, free mix, arguments that are "
                         "full expressions) in initialisers, conditions, indices, calls, divisions; twin = call-by-name expansion, cross-checked with gcc -E -P. "
                         "template: one function or class template instantiated at one type vs the hand-written instantiation. non-trivial = distinct program for which the binary "
                         "reports at least one finding or Known/Impossible value on the using code.")
    vlib.ensure_repo_build()
    ok = run.prove(extra_targets=["theories/Expand/Run.vo"])
    if not ok:
        run.violation("proof:" + PID, "Properties_C06.vo does not build: " + str(run.proof_error())[:300],
                      {"broken": "proof", "detail": run.proof_error()}, found_input=False)
        if not os.path.exists(os.path.join(vlib.COQ, "theories/Expand/Run.vo")):
            return
    model = vlib.build_model(PID)
    work = tempfile.mkdtemp(prefix="c06_", dir=vlib.BUILD)
    try:
        # ---------------- alias programs
        n = 150
        progs = []
        while len(progs) < n:
            g = E.gen_alias_program(rng)
            if g:
                progs.append(g)
        outs = model_alias(model, [p[0] for p in progs])
        pairs = []
        bad_types, bad_gpp = [], []
        for (items, decls, ainfo), o in zip(progs, outs):
            if len(o) != 4:
                run.count("alias:types", None, bucket="model rejects: %s" % (o[0] if o else "?"))
                bad_types.append((items, o, "model rejected a program the generator considers well-formed"))
                continue
            ptxt, xtxt, types, plain = o
            want = "\n".join("%s:%s" % (x, E.ptype(t)) for x, t in decls)
            run.count("alias:types", None, nontrivial=ptxt, bucket="decls:%d" % len(decls))
            if types != want or plain != "1":
                bad_types.append((items, o, "model types %r vs Python mirror %r (plain=%s)" % (types, want, plain)))
                continue
            lines = ptxt.split("\n")
            al = "\n".join(l for l in lines if l.startswith("typedef ") or l.startswith("using "))
            dl = "\n".join(l for l in lines if not (l.startswith("typedef ") or l.startswith("using ")))
            uses = []
            for x, t in decls:
                uses += E.gen_uses(rng, x, t)
            (ptext, pbase), (xtext, xbase) = E.make_pair(al, dl, xtxt, uses)
            def has_fn(t):
                return t[0] == "f" or (t[0] == "p" and has_fn(t[1])) or (t[0] == "a" and has_fn(t[2]))

            def dtor_pa(d):
                # the use's own declarator is `(*v)[n]` (array-of around pointer-to)
                if d[0] == "A":
                    return d[2][0] == "P" or dtor_pa(d[2])
                if d[0] == "P":
                    return dtor_pa(d[1])
                if d[0] == "F":
                    return dtor_pa(d[2])
                return False

            atype = {x: t for k, x, t in ainfo}

            def dtor_ctors(d):
                return {d[0]} | (dtor_ctors(d[1]) if d[0] == "P" else dtor_ctors(d[2]) if d[0] in "AF" else set())

            def has_pa(t):
                return (t[0] == "p" and (t[1][0] == "a" or has_pa(t[1]))) or (t[0] == "a" and has_pa(t[2]))
            pairs.append(dict(p=(ptext, pbase), x=(xtext, xbase), first_use=len(decls) + 1, decls=decls,
                              cls="fnptr-alias" if any(has_fn(t) for k, x, t in ainfo) else
                              "fnptr-use" if any(has_fn(t) for x, t in decls) else
                              "ptr-to-array-declarator-use" if any(it[0] == "D" and it[1][0] == "n" and dtor_pa(it[2]) for it in items) else
                              "ptr-to-array-alias" if any(has_pa(t) for k, x, t in ainfo) else
                              "using-array-alias" if any(k == "U" and t[0] == "a" for k, x, t in ainfo) else
                              "array-alias-pointer-array-use" if any(it[0] == "D" and it[1][0] == "n" and atype.get(it[1][1], ("b",))[0] == "a"
                                                                     and {"P", "A"} <= dtor_ctors(it[2]) for it in items) else "data-alias"))
        # g++ as referee of the model's static semantics (a sample in the quick tier)
        for pr in (pairs[:40] if quick else pairs[:600]):
            for tag in ("p", "x"):
                okc, msg = gpp_check(work, tag, pr[tag][0], pr["decls"])
                run.count("alias:g++", None, nontrivial=pr[tag][0], bucket="ok" if okc else "rejected")
                if not okc:
                    bad_gpp.append((pr, tag, msg))
        run.stream("alias:types")["disagreements"] += len(bad_types)
        run.stream("alias:g++")["disagreements"] += len(bad_gpp)
        for items, o, why in bad_types[:2]:
            run.violation("aliastypes:" + hashlib.sha1(repr(items).encode()).hexdigest()[:10], why,
                          {"broken": "model vs mirror", "items": repr(items), "model": o}, found_input=False)
        for pr, tag, msg in bad_gpp[:2]:
            run.violation("aliasgpp:" + hashlib.sha1(pr[tag][0].encode()).hexdigest()[:10],
                          "g++ does not confirm the types the model assigns in the %s program: %s" % ("original" if tag == "p" else "expanded", msg[-200:]),
                          {"broken": "reference semantics vs g++", "program": pr[tag][0], "types": [(x, E.ptype(t)) for x, t in pr["decls"]], "g++": msg}, found_input=False)
        # fixed corpus: the shapes on which fresh seeds found genuine differences (kept as known classes)
        couts = model_alias(model, [c["items"] for c in E.ALIAS_CORPUS])
        for c, o in zip(E.ALIAS_CORPUS, couts):
            if len(o) != 4:
                run.violation("aliascorpus:" + c["cls"], "the model rejects a corpus program", {"broken": "corpus", "model": o}, found_input=False)
                continue
            lines = o[0].split("\n")
            al = "\n".join(l for l in lines if l.startswith("typedef ") or l.startswith("using "))
            dl = "\n".join(l for l in lines if not (l.startswith("typedef ") or l.startswith("using ")))
            (ptext, pbase), (xtext, xbase) = E.make_pair(al, dl, o[1], c["uses"])
            pairs.append(dict(p=(ptext, pbase), x=(xtext, xbase), first_use=len(dl.split("\n")) + 1, decls=[], cls=c["cls"]))
        bad = run_pairs(run, "alias", work, pairs)
        report(run, "alias", bad)
        if len(run.samples) < 4 and pairs:
            run.samples.append({"stream": "alias", "program": pairs[0]["p"][0], "expanded_by_model": pairs[0]["x"][0]})

        # ---------------- macros
        n = 120
        mp = []
        gcc_bad = []
        for _ in range(n):
            (pt, pb), (xt, xb), info = E.gen_macro_pair(rng)
            mp.append(dict(p=(pt, pb), x=(xt, xb), first_use=1, info=info,
                           cls="object-like-naming-function-like" if "ALIAS(" in pt else "nested-function-like"))
            # the Python call-by-name expansion vs gcc -E on the original
            ge = E.gcc_expand(pt)
            if ge is not None:
                import re as _re
                mine = _re.sub(r"\s+", "", xt)
                run.count("macro:gcc", None, nontrivial=pt, bucket="depth %d %s" % (info["depth"], "same" if ge == mine else "DIFF"))
                if ge != mine:
                    gcc_bad.append((pt, xt))
        run.stream("macro:gcc")["disagreements"] += len(gcc_bad)
        for pt, xt in gcc_bad[:2]:
            run.violation("macrogcc:" + hashlib.sha1(pt.encode()).hexdigest()[:10], "gcc -E and the call-by-name expansion of the check disagree",
                          {"broken": "expander vs gcc -E", "program": pt, "expanded": xt}, found_input=False)
        run.extra["macro_depth_histogram"] = {str(d): sum(1 for m in mp if m["info"]["depth"] == d) for d in range(0, 6)}
        bad = run_pairs(run, "macro", work, mp, style_too=False, known_only=True)
        report(run, "macro", bad)
        run.extra["macro_known_values_on_one_side_only"] = one_sided[0]
        if mp:
            run.samples.append({"stream": "macro", "program": mp[0]["p"][0], "expanded": mp[0]["x"][0]})

        # ---------------- templates (X2 only)
        n = 80
        tp = []
        for _ in range(n):
            (pt, pb), (xt, xb) = E.gen_template_pair(rng)
            tp.append(dict(p=(pt, pb), x=(xt, xb), first_use=1))
        bad = run_pairs(run, "template", work, tp, x1=False)
        report(run, "template", bad)
        if tp:
            run.samples.append({"stream": "template", "program": tp[0]["p"][0], "expanded": tp[0]["x"][0]})
        # ---------------- fresh (VERIF_SEED) streams: model vs mirror, g++ and gcc -E as referees
        nf = 300 if quick else 6000
        fprogs = []
        while len(fprogs) < nf:
            g = E.gen_alias_program(fresh)
            if g:
                fprogs.append(g)
        fouts = model_alias(model, [p[0] for p in fprogs])
        fbad, fpairs = [], []
        for (items, decls, ainfo), o in zip(fprogs, fouts):
            want = "\n".join("%s:%s" % (x, E.ptype(t)) for x, t in decls)
            okm = len(o) == 4 and o[2] == want and o[3] == "1"
            run.count("alias:types-fresh", None, nontrivial=o[0] if len(o) == 4 else None, bucket="decls:%d%s" % (len(decls), "" if okm else " DIFF"))
            if not okm:
                fbad.append((items, o, want))
            else:
                lines = o[0].split("\n")
                al = "\n".join(l for l in lines if l.startswith("typedef ") or l.startswith("using "))
                dl = "\n".join(l for l in lines if not (l.startswith("typedef ") or l.startswith("using ")))
                fpairs.append((E.make_pair(al, dl, o[1], []), decls))
        run.stream("alias:types-fresh")["disagreements"] += len(fbad)
        for items, o, want in fbad[:2]:
            run.violation("aliastypes:" + hashlib.sha1(repr(items).encode()).hexdigest()[:10], "model types vs Python mirror differ on a fresh program",
                          {"broken": "model vs mirror", "items": repr(items), "model": o, "mirror": want}, found_input=False)
        gb = []
        for ((pt, pb), (xt, xb)), decls in (fpairs[:30] if quick else fpairs[:600]):
            for tag, txt in (("p", pt), ("x", xt)):
                okc, msg = gpp_check(work, tag, txt, decls)
                run.count("alias:g++-fresh", None, nontrivial=txt, bucket="ok" if okc else "rejected")
                if not okc:
                    gb.append((txt, decls, msg, tag))
        run.stream("alias:g++-fresh")["disagreements"] += len(gb)
        for txt, decls, msg, tag in gb[:2]:
            run.violation("aliasgpp:" + hashlib.sha1(txt.encode()).hexdigest()[:10], "g++ does not confirm the types the model assigns in the %s program: %s" % ("original" if tag == "p" else "expanded", msg[-200:]),
                          {"broken": "reference semantics vs g++", "program": txt, "types": [(x, E.ptype(t)) for x, t in decls], "g++": msg}, found_input=False)
        gm = []
        for _ in range(100 if quick else 3000):
            (pt, pb), (xt, xb), info = E.gen_macro_pair(fresh)
            ge = E.gcc_expand(pt)
            if ge is None:
                break
            import re as _re
            same = ge == _re.sub(r"\s+", "", xt)
            run.count("macro:gcc-fresh", None, nontrivial=pt, bucket="depth %d %s" % (info["depth"], "same" if same else "DIFF"))
            if not same:
                gm.append((pt, xt))
        run.stream("macro:gcc-fresh")["disagreements"] += len(gm)
        for pt, xt in gm[:2]:
            run.violation("macrogcc:" + hashlib.sha1(pt.encode()).hexdigest()[:10], "gcc -E and the call-by-name expansion of the check disagree",
                          {"broken": "expander vs gcc -E", "program": pt, "expanded": xt}, found_input=False)
    finally:
        shutil.rmtree(work, ignore_errors=True)


if __name__ == "__main__":
    vlib.main(check, PID)
