struct ID01 { static int ID02; int ID03; int ID04() const { return ID03 + ID02; } };
int ID01::ID02 = 1;
extern int ID05;
int ID06() { return ID05; }
int ID05 = 3;
int ID07(ID01& ID08, int ID09) { int ID10 = ID08.ID03 + ID05; if (ID09 > ID10) ID10 = ID09; return ID10 + ID08.ID04(); }
