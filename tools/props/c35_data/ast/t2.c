enum ID01 { ID02, ID03 = 5 };
int ID04;
int ID05(int ID06, int ID07);
int ID08(int ID09) { int ID10 = ID09 + ID04; { int ID09 = ID10; ID10 = ID09 + ID02; } return ID05(ID10, ID03); }
int ID05(int ID06, int ID07) { return ID06 - ID07; }
static int ID11[3] = { 1, 2, 3 };
int ID12(int ID13) { int ID14 = ID11[ID13] * 2; for (int ID15 = 0; ID15 < ID13; ID15++) ID14 += ID15 ? ID11[0] : ID04; return ID14; }
