struct ID01 { struct ID01 *ID02; struct ID01 *ID03; int ID04; };
typedef int ID05;
extern int ID06;
static int ID07 = 4;
int ID08(struct ID01 *ID09, int ID10) {
    ID05 ID11 = ID10 + ID07;
    struct ID01 *ID12 = ID09;
    while (ID12) {
        ID11 += ID12->ID04;
        ID12 = ID12->ID02;
    }
    { int ID10 = ID11; ID11 += ID10; }
    return ID11 + ID06;
}
int ID06 = 2;
int ID06;
int ID13(void) {
    struct ID01 ID14;
    ID14.ID04 = ID06;
    ID14.ID02 = 0;
    ID14.ID03 = &ID14;
    return ID08(&ID14, ID14.ID04) + ID06;
}
