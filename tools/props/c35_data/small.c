static int g[2] = { 7, 2, 3 };
int f(int a) { return a + g[0]; }
