#!/usr/bin/env python3
"""C35  Clang-AST import yields a consistent program model (partial: the declaration map).

prove:      coq/theories/Properties_C35.v  (mDeclMap = first declaration per address over any op sequence;
            mVarId counts varDecls; a reference binds to the map's declaration after it, waits before it,
            and the declaration step binds all waiting references and empties the queue)
correspond: X1 extracted model vs the real clangimport::Data (lib/clangimport.cpp compiled a second time
            into the harness under another namespace name) on op sequences with colliding addresses
end-to-end: generated C/C++ programs -> clang -Xclang -ast-dump=json (referencedDecl = the declaration clang
            resolved) -> op sequence in dump order -> model bindings  vs  cppcheck --clang --dump
            (token varId / variable -> nameToken position); + the C14 dump validator on the same dump;
            + exit status of every run (never a crash)
"""
import hashlib
import json
import os
import re
import shutil
import sys
import time
import xml.etree.ElementTree as ET
from concurrent.futures import ThreadPoolExecutor

sys.path.insert(0, os.path.dirname(os.path.dirname(os.path.abspath(__file__))))
import vlib
from props import dump_common as D
from props import c14 as C14

PID = "C35"
WORK = os.path.join(vlib.BUILD, "work", PID)
CLANG = shutil.which("clang")


def gen_decl_case(rng):
    """fresh token per op (as the import creates them), few addresses so that they collide"""
    k = rng.randint(1, 30)
    na = rng.randint(1, 6)
    toks = list(range(k))
    rng.shuffle(toks)
    ops = []
    for i in range(k):
        kind = rng.choice("VVVFESRRRRRR")
        ops += [kind, str(rng.randrange(1, na + 1)), str(toks[i])]
    return [str(k)] + ops


# words that clang's textual AST dump itself prints as keywords or markers on declaration / expression lines
AST_WORDS = ["prev", "used", "referenced", "implicit", "cinit", "callinit", "listinit", "col", "line", "invalid", "sloc", "definition",
             "parent", "first", "nrvo", "hidden", "imported", "lvalue", "Var", "ParmVar", "Field", "Function", "tls", "depth", "bitfield",
             "non_odr_use_unevaluated", "part_of_explicit_cast", "prvalue", "xvalue", "external", "previous", "instantiated_from", "undeserialized"]


FIXED_PROGRAMS = [
    # doubly linked list: a field and a local both named like clang's redeclaration marker
    ("c", "struct item { struct item *prev; struct item *next; int weight; };\n"
          "int back_sum(struct item *it) {\n    int acc = 0;\n    struct item *prev = it;\n    while (prev) {\n"
          "        acc += prev->weight;\n        prev = prev->prev;\n    }\n    return acc;\n}\n"
          "int prev;\nint get_prev(void) { return prev; }\n"),
    # genuine redeclarations: extern + definition + tentative definition, uses before / between / after
    ("c", "extern int x;\nint before(void) { return x; }\nint x = 0;\nint between(void) { return x + 1; }\nint x;\nint after(void) { return x + 2; }\n"
          "static int used; static int used;\nint g(void) { return used; }\n"),
    ("cpp", "struct C { static int first; int implicit; int get() const { return implicit + first; } };\nint C::first = 1;\n"
            "extern int line;\nint col() { return line; }\nint line = 3;\nint referenced(C& definition) { return definition.implicit + line; }\n"),
    # prototype followed by the definition (known finding: the definition's parameters are not declared)
    ("c", "int f(int a, int b);\nint f(int a, int b) { return a - b; }\nint g(int c) { return f(c, 1); }\n"),
    # a function named like the marker (known finding)
    ("c", "int prev(int a) { return a + 1; }\nint other(int b) { return prev(b) + 1; }\n"),
]


def gen_keyword_program(rng, k):
    """A small C (30% C++) unit whose locals, globals, parameters, fields, functions and typedefs are NAMED like the words of
    clang's AST dump, with a linked-list walk through fields, member access, shadowing and genuine redeclarations."""
    w = rng.sample(AST_WORDS, 14)
    S, fprev, fnext, fval, td, gext, gstat, fn, pa, pb, la, lb, caller, lc = w
    cpp = rng.random() < 0.3
    sk = "" if cpp else "struct "
    parts = [
        "struct %s { struct %s *%s; struct %s *%s; int %s; };" % (S, S, fprev, S, fnext, fval),
        "typedef int %s_t;" % td,
        "extern int %s;" % gext,
        "static int %s = %d;" % (gstat, rng.randint(1, 9)),
    ]
    body = ["int %s(%s%s *%s, int %s) {" % (fn, sk, S, pa, pb),
            "    %s_t %s = %s + %s;" % (td, la, pb, gstat),
            "    %s%s *%s = %s;" % (sk, S, lb, pa),
            "    while (%s) {" % lb,
            "        %s += %s->%s;" % (la, lb, fval),
            "        %s = %s->%s;" % (lb, lb, rng.choice([fprev, fnext])),
            "    }",
            "    { int %s = %s; %s += %s; }" % (pb, la, la, pb) if rng.random() < 0.5 else "    %s -= 1;" % la,
            "    return %s + %s;" % (la, gext),
            "}"]
    parts += body
    parts.append("int %s = %d;" % (gext, rng.randint(0, 9)))      # the genuine redeclaration (definition after extern)
    if rng.random() < 0.5:
        parts.append("int %s;" % gext if not cpp else "extern int %s;" % gext)   # tentative definition / another redeclaration
    parts += ["int %s(void) {" % caller if not cpp else "int %s() {" % caller,
              "    %s%s %s;" % (sk, S, lc),
              "    %s.%s = %s;" % (lc, fval, gext),
              "    %s.%s = 0;" % (lc, fprev),
              "    %s.%s = &%s;" % (lc, fnext, lc),
              "    return %s(&%s, %s.%s) + %s;" % (fn, lc, lc, fval, gext),
              "}"]
    return ("cpp" if cpp else "c"), "\n".join(parts) + "\n"


# ------------------------------------------------------------------ X1b: AST dump TEXTS through parseClangAstDump
_AST_LINE = re.compile(r"^([| `]*)[|`]-(\w+) (0x[0-9a-f]+) ?(.*)$")
_DECL_KINDS = {"VarDecl": "V", "ParmVarDecl": "V", "FieldDecl": "V", "FunctionDecl": "F", "CXXMethodDecl": "F", "EnumConstantDecl": "E"}


def ast_text_ops(text):
    """translator-lite on clang's textual AST dump: the declaration / reference ops in the order in which the import
    creates the tokens (pre-order; a MemberExpr after its base). -> list of dicts(kind, op, addr, name, param_of)"""
    root = {"kind": "TU", "children": []}
    stack = [(-1, root)]
    for line in text.split("\n"):
        m = _AST_LINE.match(line)
        if not m:
            continue
        depth = len(m.group(1)) // 2
        node = {"kind": m.group(2), "addr": m.group(3), "rest": m.group(4), "children": []}
        while stack and stack[-1][0] >= depth:
            stack.pop()
        stack[-1][1]["children"].append(node)
        stack.append((depth, node))
    ops = []
    params = {}     # function address -> addresses (after aliasing) of its named parameters by index, None = unnamed
    alias = {}      # address of a parameter of a later declaration -> address of the earlier declaration's parameter

    def emit(n, fn):
        k, rest = n["kind"], n.get("rest", "")
        op = None
        if k in _DECL_KINDS:
            body = rest.split("> ", 1)[1] if "> " in rest else rest      # after the source range
            m = re.search(r"(\S+) '", body)
            named = bool(m and re.match(r"^[A-Za-z_]\w*$", m.group(1)))
            if named and "implicit" not in body.split("'")[0].split()[:-1]:   # markers stand before the name
                op = {"op": _DECL_KINDS[k], "addr": n["addr"], "name": m.group(1), "kind": k, "param_of": fn[0] if (k == "ParmVarDecl" and fn) else None,
                      "param_of_redecl": bool(k == "ParmVarDecl" and fn and fn[1])}
                if _DECL_KINDS[k] == "F":
                    pm = re.match(r"^(?:parent 0x[0-9a-f]+ )?prev (0x[0-9a-f]+) ", rest)
                    fn = (m.group(1), pm.group(1) if pm else None, n["addr"])
                    params[n["addr"]] = []
            if k == "ParmVarDecl" and fn:
                idx = len(params[fn[2]])
                mine = n["addr"] if op else None
                if fn[1] and op:
                    # a later declaration of the function: its parameter IS the parameter with the same index of the
                    # earlier declaration (when that one is named) - a reference, not a new variable
                    earlier = params.get(fn[1], [])
                    if idx < len(earlier) and earlier[idx]:
                        alias[n["addr"]] = earlier[idx]
                        mine = earlier[idx]
                        op = {"op": "R", "addr": earlier[idx], "name": op["name"], "kind": k, "tkind": "ParmVar", "param_of": fn[0], "param_of_redecl": True}
                params[fn[2]].append(mine)
        elif k == "DeclRefExpr":
            m = re.search(r" (Var|ParmVar|Function|EnumConstant|CXXMethod|Field) (0x[0-9a-f]+) '([^']+)'", rest)
            if m:
                op = {"op": "R", "addr": alias.get(m.group(2), m.group(2)), "name": m.group(3), "kind": k, "tkind": m.group(1),
                      "param_of_redecl": m.group(2) in alias}
        elif k == "MemberExpr":
            m = re.search(r" (?:->|\.)(\w+) (0x[0-9a-f]+)", rest)
            if m:
                for c in n["children"]:
                    emit(c, fn)
                ops.append({"op": "R", "addr": m.group(2), "name": m.group(1), "kind": k, "tkind": "Field"})
                return
        if op:
            ops.append(op)
        for c in n["children"]:
            emit(c, fn)
    emit(root, None)
    return ops


def rename_ast(rng, text):
    """rename the placeholder identifiers ID01.. of a recorded AST dump to marker words of the dump format"""
    ids = sorted(set(re.findall(r"\bID\d\d\b", text)))
    words = rng.sample(AST_WORDS + ["alpha", "beta", "gamma", "delta", "it", "n", "total", "node"], len(ids))
    if rng.random() < 0.7 and "prev" not in words:
        words[rng.randrange(len(words))] = "prev"
    mp = dict(zip(ids, words))
    return re.sub(r"\bID\d\d\b", lambda m: mp[m.group(0)], text)


def compare_import(ops, mfields, hfields):
    """model bindings vs the tokens the import produced, up to the pairing of the k-th op named n with the k-th token n.
    -> (differences, compared, skipped_names)"""
    toks = [tuple(x.decode("latin-1") for x in hfields[i:i + 4]) for i in range(0, len(hfields) - len(hfields) % 4, 4)]
    by_name_ops, by_name_toks = {}, {}
    for i, o in enumerate(ops):
        by_name_ops.setdefault(o["name"], []).append(i)
    for j, t in enumerate(toks):
        if t[0] in by_name_ops:
            by_name_toks.setdefault(t[0], []).append(j)
    pair, skipped = {}, 0
    for n, lst in by_name_ops.items():
        tl = by_name_toks.get(n, [])
        if len(tl) != len(lst):
            skipped += 1
            continue
        for i, j in zip(lst, tl):
            pair[i] = j
    diffs, compared = [], 0
    m = [x.decode("latin-1") for x in mfields]
    for i, o in enumerate(ops):
        if i not in pair:
            continue
        t = toks[pair[i]]
        mvarid, mvar, mfunc, menum = m[4 * i:4 * i + 4]
        if o["op"] == "V" or (o["op"] == "R" and o.get("tkind") in ("Var", "ParmVar", "Field")):
            if mvar == "":
                continue
            d = int(mvar)
            if d not in pair:
                continue
            compared += 1
            want = str(pair[d])
            if t[2] != want or t[1] == "0" or t[1] != toks[pair[d]][1]:
                diffs.append((i, o, "token %d '%s': variable name token %s varId %s, expected name token %s varId %s" % (pair[i], t[0], t[2] or "none", t[1], want, toks[pair[d]][1])))
    return diffs, compared, skipped


def clang_ops(path):
    """clang's JSON AST -> (ops in dump order, info per token index)."""
    rc, out, _ = vlib.sh([CLANG, "-Xclang", "-ast-dump=json", "-fsyntax-only", "-w", path], timeout=120)
    i = out.find("{")
    if i < 0:
        return None
    try:
        j, _ = json.JSONDecoder().raw_decode(out[i:])
    except ValueError:
        return None
    ops, info = [], []

    def walk(n, anc=(), sib=0, fn=None):
        k = n.get("kind")
        if k in ("FunctionDecl", "CXXMethodDecl"):
            fn = (n.get("name"), bool(n.get("previousDecl")))
        if k in ("VarDecl", "ParmVarDecl", "FieldDecl", "EnumConstantDecl", "FunctionDecl") and not n.get("isImplicit"):
            off = (n.get("loc") or {}).get("offset")
            if off is not None and n.get("name"):
                ops.append(({"VarDecl": "V", "ParmVarDecl": "V", "FieldDecl": "V", "EnumConstantDecl": "E", "FunctionDecl": "F"}[k], n["id"], len(info)))
                info.append({"kind": k, "id": n["id"], "offset": off, "name": n["name"],
                             "later_declarator": bool(k == "VarDecl" and anc and anc[-1] == "DeclStmt" and sib > 0),
                             "param_of": fn[0] if (k == "ParmVarDecl" and fn) else None,
                             "param_of_redecl": bool(k == "ParmVarDecl" and fn and fn[1])})
        elif k == "DeclRefExpr":
            ref = n.get("referencedDecl") or {}
            off = ((n.get("range") or {}).get("begin") or {}).get("offset")
            if ref.get("id") and off is not None:
                ops.append(("R", ref["id"], len(info)))
                info.append({"kind": k, "id": n["id"], "offset": off, "name": ref.get("name"), "target": ref["id"], "tkind": ref.get("kind"),
                             "in_sizeof": "UnaryExprOrTypeTraitExpr" in anc})
        elif k == "MemberExpr":
            # the import puts the member's name token at the position of the whole expression
            off = ((n.get("range") or {}).get("begin") or {}).get("offset")
            if n.get("referencedMemberDecl") and n.get("name") and off is not None:
                ops.append(("R", n["referencedMemberDecl"], len(info)))
                info.append({"kind": k, "id": n["id"], "offset": off, "name": n["name"], "target": n["referencedMemberDecl"], "tkind": "FieldDecl",
                             "in_sizeof": "UnaryExprOrTypeTraitExpr" in anc})
        for ci, c in enumerate(n.get("inner", []) or []):
            if isinstance(c, dict):
                walk(c, anc + (k,), ci, fn)
    walk(j)
    return ops, info


def linecol(text, off):
    line = text.count("\n", 0, off) + 1
    col = off - (text.rfind("\n", 0, off) + 1) + 1
    return line, col


def check(run, replay):
    quick = run.tier == "quick"
    rng = run.rng
    run.level = "proof"   # technique; the claim is partial, see registry level_text
    run.trusted_base += [
        "Coq 8.16.1 kernel (coqc); no axioms",
        "extraction: Require Extraction + ExtrOcamlBasic only",
        "ocaml/driver.ml, harness/vh_common.h + vh_c35.cpp (includes lib/clangimport.cpp of the tree under test under the namespace name vh_clangimport; calls Data::varDecl/funcDecl/enumDecl/scopeDecl/ref on real Token/Variable/Function/Enumerator objects)",
        "tools/props/c35.py clang_ops: the op sequence = VarDecl/ParmVarDecl/EnumConstantDecl/FunctionDecl/DeclRefExpr nodes of clang's JSON AST in dump order; clang's referencedDecl is the oracle for the resolved declaration",
        "modelled, not verified: clangimport::Data (mDeclMap, mNotFound, mVarId, Decl::ref). Not modelled: AstNode::createTokens* (token reconstruction), types, scopes, replaceVarDecl",
    ]
    run.assumptions += ["g++ compiles /repo faithfully", "clang 14 -ast-dump=json reports the declaration it resolved in referencedDecl"]
    run.extra["rule"] = ("decl: 1-30 ops over 1-6 addresses, fresh token per op, kinds V:F:E:S:R = 3:1:1:1:6; non-trivial = sequence with a reference before its declaration or a repeated address, distinct case. "
                         "end-to-end: one evaluation = one DeclRefExpr to a variable/parameter compared (token found at clang's position); non-trivial = distinct (program, offset).")
    vlib.ensure_repo_build()
    ok = run.prove(extra_targets=["theories/Clang/Run.vo"])
    if not ok:
        run.violation("proof:" + PID, "Properties_C35.vo does not build: " + str(run.proof_error())[:300],
                      {"broken": "proof", "detail": run.proof_error()}, found_input=False)
    if not (ok or os.path.exists(os.path.join(vlib.COQ, "theories/Clang/Run.vo"))):
        return
    model = vlib.build_model(PID)
    vh = vlib.build_harness(PID)

    # ---- X1
    n = 6000 if quick else 200000
    cases = [gen_decl_case(rng) for _ in range(n)]

    def nt(c, m, i):
        seen_decl, seen_ref, hit = set(), set(), False
        for k in range(1, len(c), 3):
            if c[k] == "R":
                if c[k + 1] not in seen_decl:
                    seen_ref.add(c[k + 1])
            else:
                if c[k + 1] in seen_decl or c[k + 1] in seen_ref:
                    hit = True
                seen_decl.add(c[k + 1])
        return tuple(c) if hit else None
    diffs = vlib.correspond(run, "decl-map", model, [vh, "decl"], cases, tag="decl", nontrivial=nt,
                            bucket=lambda c, m, i: "ops<=%d,waiting=%s" % (10 * ((len(c) // 3 + 9) // 10), "0" if m and m[-1] == b"0" else ">0"))
    for c, m, i in sorted(diffs, key=lambda d: len(d[0]))[:3]:
        key = "decl:" + hashlib.sha1(vlib.enc_case(c).encode()).hexdigest()[:12]
        run.violation(key, "clangimport::Data deviates from the first-declaration-wins / bind-before-or-after rule after %d ops: model %s impl %s" % (len(c) // 3, vlib.show(m)[:12], vlib.show(i)[:12]),
                      {"stream": "decl-map", "ops": [c[k:k + 3] for k in range(1, len(c), 3)], "model": vlib.show(m), "impl": vlib.show(i),
                       "case_line": vlib.enc_case(c), "how": "echo <case_line> | build/harness/vh_c35 decl"})

    # ---- X1b: recorded clang AST dump texts, identifiers renamed to the dump format's own marker words,
    # through the real clangimport::parseClangAstDump (harness) vs the model on the ops read off the text
    data = os.path.join(os.path.dirname(os.path.abspath(__file__)), "c35_data")
    texts = []
    for fn in sorted(os.listdir(os.path.join(data, "ast"))):
        if fn.endswith(".ast"):
            base = open(os.path.join(data, "ast", fn)).read()
            lang = "cpp" if fn.endswith(".cpp.ast") else "c"
            for _ in range(25 if quick else 600):
                texts.append((fn, lang, rename_ast(rng, base)))
    if texts:
        opsl = [ast_text_ops(t) for _, _, t in texts]
        addrs = []
        mlines, hlines = [], []
        for (fn, lang, t), ops in zip(texts, opsl):
            fields = [str(len(ops))]
            for k, o in enumerate(ops):
                fields += [o["op"], str(int(o["addr"], 16)), str(k)]
            mlines.append(vlib.enc_case(["decl"] + fields))
            hlines.append(vlib.enc_case([lang, t]))
        _, mo, _ = vlib.run_lines([model], mlines)
        _, ho, he = vlib.run_lines([vh, "import"], hlines)
        if len(ho) != len(hlines):
            run.violation("import-died:" + hashlib.sha1(texts[min(len(ho), len(texts) - 1)][2].encode()).hexdigest()[:10],
                          "parseClangAstDump died on a renamed AST dump of %s" % texts[min(len(ho), len(texts) - 1)][0],
                          {"ast_text": texts[min(len(ho), len(texts) - 1)][2], "stderr": he[-500:]})
        shown = 0
        for (fn, lang, t), ops, ml, hl in zip(texts, opsl, mo, ho):
            hf = vlib.dec_line(hl)
            if hf and hf[0] == "!exc":
                run.count("import-text", None, bucket="exception")
                if shown < 3:
                    shown += 1
                    run.violation("import-exc:" + hashlib.sha1(t.encode()).hexdigest()[:10], "parseClangAstDump threw on a renamed AST dump of %s: %s" % (fn, vlib.show(hf[1])[:160]),
                                  {"ast_text": t})
                continue
            diffs, ncmp, skipped = compare_import(ops, vlib.dec_line(ml)[:4 * len(ops)], hf)
            run.count("import-text", None, nontrivial=hashlib.sha1(t.encode()).hexdigest()[:12] if ncmp else None,
                      bucket="%s,compared<=%d,names skipped %d" % (fn, 20 * ((ncmp + 19) // 20), skipped))
            run.extra["import_text_tokens_compared"] = run.extra.get("import_text_tokens_compared", 0) + ncmp
            for i, o, what in diffs:
                decl_op = o if o["op"] == "V" else next((p for p in ops if p["op"] == "V" and p["addr"] == o["addr"]), {})
                if o.get("param_of_redecl") or decl_op.get("param_of_redecl"):
                    run.violation("e2e-unlinked-param-of-redeclared-function", "parseClangAstDump: parameter '%s' of a function that was declared before: %s" % (o["name"], what), {"ast_text": t})
                elif decl_op.get("param_of") == "prev":
                    run.violation("e2e-unlinked-param-of-function-named-prev", "parseClangAstDump: parameter '%s' of a function named `prev`: %s" % (o["name"], what), {"ast_text": t})
                elif shown < 3:
                    shown += 1
                    run.violation("import-text:" + hashlib.sha1((t + str(i)).encode()).hexdigest()[:12],
                                  "parseClangAstDump on a renamed AST dump of %s: %s '%s': %s" % (fn, o["kind"], o["name"], what),
                                  {"ast_text": t, "op_index": i, "op": o, "how": "build/harness/vh_c35 import  (fields: lang, AST text)"})

    # ---- end-to-end with clang
    if not CLANG:
        run.notes.append("clang not found: end-to-end leg skipped")
        run.extra["clang"] = "missing"
        return
    run.extra["clang"] = vlib.sh([CLANG, "--version"])[1].split("\n")[0]
    shutil.rmtree(WORK, ignore_errors=True)
    os.makedirs(WORK, exist_ok=True)
    nprog = 80 if quick else 1500
    progs = []
    for k, (lang, text) in enumerate(FIXED_PROGRAMS):
        p = os.path.join(WORK, "fixed%02d.%s" % (k, lang))
        open(p, "w").write(text)
        progs.append((p, text))
    for k in range(nprog):
        if k % 2 == 1:
            lang, text = gen_keyword_program(rng, k)
            p = os.path.join(WORK, "p%04d.%s" % (k, lang))
            open(p, "w").write(text)
            progs.append((p, text))
            continue
        lang, text = D.gen_dump_program(rng, lang="c" if rng.random() < 0.7 else "cpp")
        text = "\n".join(l for l in text.split("\n") if not l.startswith("#include") and "std::" not in l and "_Static_assert" not in l and "static_assert" not in l)
        if rng.random() < 0.5:   # uses before declarations / shadowing / enumerators
            text += "\nenum Q%d { QA%d, QB%d };\nextern int late%d;\nint use%d(int x) { int y = x + late%d; { int x = y + QB%d; y = x; } return y + late%d; }\nint late%d = 3;\n" % ((k,) * 9)
        p = os.path.join(WORK, "p%04d.%s" % (k, lang))
        open(p, "w").write(text)
        progs.append((p, text))

    def one(pt):
        p, text = pt
        co = clang_ops(p)
        rc, out = D.sh_retry([vlib.CPPCHECK, "--clang=" + CLANG, "--dump", "-q", p], timeout=180, cwd=WORK)
        return co, rc, out, (p + ".dump") if os.path.exists(p + ".dump") else None
    with ThreadPoolExecutor(max_workers=6) as ex:
        results = list(ex.map(one, progs))

    # ---- corpus: a clang whose warning text appears on stderr in the middle of its AST dump on stdout (recorded
    # from clang 14 on small.c). cppcheck must keep the two streams apart (fixed in /repo 49aff77; with `2>&1` the
    # warning lands inside the dump and the import segfaults).
    data = os.path.join(os.path.dirname(os.path.abspath(__file__)), "c35_data")
    fake = os.path.join(WORK, "fakeclang")
    open(fake, "w").write("#!/bin/sh\ncase \"$*\" in *--version*) echo 'clang version 14.0.0'; exit 0;; esac\n"
                          "cat '%s'\ncat '%s' >&2\ncat '%s'\n" % tuple(os.path.join(data, f) for f in ("ast_part1.txt", "clang_stderr.txt", "ast_part2.txt")))
    os.chmod(fake, 0o755)
    shutil.copy(os.path.join(data, "small.c"), os.path.join(WORK, "small.c"))
    rc, out = D.sh_retry([vlib.CPPCHECK, "--clang=" + fake, "--dump", "-q", os.path.join(WORK, "small.c")], timeout=60, cwd=WORK)
    have_dump = os.path.exists(os.path.join(WORK, "small.c.dump")) and "<token " in open(os.path.join(WORK, "small.c.dump")).read()
    run.count("clang-corpus", None, nontrivial="stderr_in_the_middle", bucket="exit %s, dump %s" % (rc, "with tokens" if have_dump else "without tokens"))
    if rc < 0 or rc in (134, 139) or "internalError" in out or not have_dump:
        run.violation("clang-stderr-interleaved-segv", "cppcheck --clang on small.c with a clang that prints a warning on stderr in the middle of the AST dump: exit %s%s" % (
                          rc, "" if have_dump else ", no imported tokens") + (" " + out.strip()[:160] if out.strip() else ""),
                      {"input": open(os.path.join(data, "small.c")).read(), "clang_stdout": "tools/props/c35_data/ast_part1.txt + ast_part2.txt",
                       "clang_stderr_between_them": open(os.path.join(data, "clang_stderr.txt")).read(),
                       "how": "cppcheck --clang=<script: cat part1; cat stderr >&2; cat part2> --dump small.c"})

    reader = D.load_reader()
    c14model = vlib.build_model("C14") if os.path.exists(os.path.join(vlib.COQ, "theories/Dump/Run.vo")) else None
    val = C14.Validator(run, c14model, reader) if c14model else None
    compared = notfound = clang_rejected = unmodelled = 0
    reported = 0
    for (p, text), (co, rc, out, dump) in zip(progs, results):
        name = os.path.basename(p)
        if rc < 0 or rc in (134, 139):
            warn = vlib.sh("%s -fsyntax-only '%s' 2>&1 >/dev/null" % (CLANG, p))[1].strip()
            key = "clang-stderr-interleaved-segv" if warn else "crash:" + hashlib.sha1(text.encode()).hexdigest()[:10]
            run.violation(key, "cppcheck --clang crashed (exit %s) on %s%s" % (rc, name, " (clang prints diagnostics; cppcheck reads stdout and stderr merged)" if warn else ""),
                          {"input": text, "output": out[-1500:], "clang_stderr": warn[:500]})
            continue
        if co is None or dump is None:
            clang_rejected += 1
            run.count("clang-e2e", None, bucket="no-ast-or-no-dump")
            continue
        ops, info = co
        fields = [str(len(info))]
        for kind, addr, t in ops:
            fields += [kind, str(int(addr, 16)), str(t)]
        _, mo, _ = vlib.run_lines([model], [vlib.enc_case(["decl"] + fields)])
        m = [x.decode() for x in vlib.dec_line(mo[0])]
        try:
            root = ET.parse(dump).getroot()
        except ET.ParseError as e:
            run.violation("xml:" + name, "--clang --dump of %s is not well-formed: %s" % (name, e), {"input": text})
            continue
        for d in root.findall("dump"):
            toks, dup_pos = {}, set()
            for t in d.iter("token"):
                k2 = (int(t.get("linenr")), int(t.get("column")), t.get("str"))
                if k2 in toks:
                    dup_pos.add(k2)
                toks[k2] = t
            for k2 in dup_pos:   # two equal names at one position (template instantiations, p->prev->prev): not comparable by position
                del toks[k2]
            use_count = {}
            for inf in info:
                if inf["kind"] in ("DeclRefExpr", "MemberExpr"):
                    k3 = (inf["offset"], inf["name"])
                    use_count[k3] = use_count.get(k3, 0) + 1
            tokid = {t.get("id"): t for t in d.iter("token")}
            var_name_tok = {v.get("id"): v.get("nameToken") for vs in d.findall("variables") for v in vs.findall("var")}
            # uses sit at clang's exact position; declarations do not (the import places the name token
            # at the start of the declaration), so the comparison is up to renaming: two uses carry the same
            # cppcheck variable iff clang resolved them to the same declaration, the variable's name token has
            # the declared name, and uses of different declarations never share a varId
            by_var, by_decl = {}, {}
            for ti, inf in enumerate(info):
                if inf["kind"] not in ("DeclRefExpr", "MemberExpr") or inf.get("tkind") not in ("VarDecl", "ParmVarDecl", "FieldDecl"):
                    continue
                mv = m[4 * ti + 1]
                if mv == "":
                    unmodelled += 1   # clang resolved it to a declaration outside the op kinds (e.g. a lambda capture, a binding)
                    continue
                decl = info[int(mv)]
                tok = toks.get(linecol(text, inf["offset"]) + (inf["name"],))
                if tok is None or use_count.get((inf["offset"], inf["name"]), 0) != 1:
                    notfound += 1
                    continue
                compared += 1
                run.count("clang-e2e", None, nontrivial=(hashlib.sha1(text.encode()).hexdigest()[:10], inf["offset"]),
                          bucket=("use-before-decl" if inf["offset"] < decl["offset"] else "use-after-decl"))
                bad = None
                v = tok.get("variable")
                ntok = tokid.get(var_name_tok.get(v)) if v else None
                if v is None:
                    bad = "token has no variable"
                elif ntok is None or ntok.get("str") != decl["name"]:
                    bad = "the variable's name token is %s" % (None if ntok is None else ntok.get("str"))
                elif not tok.get("varId") or tok.get("varId") != ntok.get("varId"):
                    bad = "varId %s differs from its declaration's %s" % (tok.get("varId"), ntok.get("varId"))
                elif by_var.setdefault(v, decl["id"]) != decl["id"]:
                    bad = "shares its variable with a use that clang resolved to another declaration"
                elif by_decl.setdefault(decl["id"], v) != v:
                    bad = "clang resolved it to the declaration of another use, cppcheck to a different variable"
                if bad == "token has no variable" and decl.get("later_declarator"):
                    run.violation("e2e-unlinked-later-declarator", "--clang: use of '%s' at %s has no variable: its declaration is the 2nd+ declarator of one statement, which the import drops" % (inf["name"], linecol(text, inf["offset"])),
                                  {"input": text, "use_offset": inf["offset"], "clang_decl": decl})
                elif bad == "token has no variable" and decl.get("param_of_redecl"):
                    run.violation("e2e-unlinked-param-of-redeclared-function", "--clang: use of parameter '%s' at %s of a function that was declared before has no variable" % (inf["name"], linecol(text, inf["offset"])),
                                  {"input": text, "use_offset": inf["offset"], "clang_decl": decl})
                elif bad == "token has no variable" and decl.get("param_of") == "prev":
                    run.violation("e2e-unlinked-param-of-function-named-prev", "--clang: use of parameter '%s' at %s of a function named `prev` has no variable" % (inf["name"], linecol(text, inf["offset"])),
                                  {"input": text, "use_offset": inf["offset"], "clang_decl": decl})
                elif bad == "token has no variable" and inf.get("in_sizeof"):
                    run.violation("e2e-unlinked-in-sizeof", "--clang: use of '%s' at %s inside sizeof has no variable" % (inf["name"], linecol(text, inf["offset"])),
                                  {"input": text, "use_offset": inf["offset"], "clang_decl": decl})
                elif bad and reported < 4:
                    reported += 1
                    run.violation("e2e:" + hashlib.sha1((text + str(inf["offset"])).encode()).hexdigest()[:12],
                                  "--clang: use of '%s' at %s: %s" % (inf["name"], linecol(text, inf["offset"]), bad),
                                  {"input": text, "use_offset": inf["offset"], "clang_decl": decl, "how": "cppcheck --clang --dump <input>"})
            ids = {}
            for v, did in by_var.items():
                vid = (tokid.get(var_name_tok.get(v)) or {}).get("varId") if var_name_tok.get(v) in tokid else None
                if vid is not None and ids.setdefault(vid, did) != did and reported < 4:
                    reported += 1
                    run.violation("e2e-dupid:" + hashlib.sha1(text.encode()).hexdigest()[:12],
                                  "--clang: two declarations share varId %s" % vid, {"input": text})
        if val is not None:
            probs, infos = val.verdicts(dump)
            for cfg, ntok, nref, nast, nlink in infos:
                run.count("clang-dump-validator", None, nontrivial=(hashlib.sha1(text.encode()).hexdigest()[:10], cfg) if nast and nlink else None,
                          bucket="tokens<=%s" % (100 if ntok <= 100 else 1000))
            for kind, detail in probs[:1]:
                sig = "clangdump:" + C14.signature(kind, detail)
                if reported < 6:
                    reported += 1
                    run.violation(sig, "--clang --dump of %s: %s: %s" % (name, kind, detail[:300]), {"input": text, "problem": kind, "detail": detail})
    run.extra["e2e_programs"] = len(progs)
    run.extra["e2e_uses_compared"] = compared
    run.extra["e2e_uses_token_not_at_clang_position"] = notfound
    run.extra["e2e_uses_declaration_kind_not_modelled"] = unmodelled
    run.extra["e2e_no_ast_or_dump"] = clang_rejected
    if len(run.samples) < 12:
        run.samples.append({"stream": "clang-e2e", "programs": len(progs), "uses_compared": compared})
    shutil.rmtree(WORK, ignore_errors=True)


if __name__ == "__main__":
    vlib.main(check, PID)
