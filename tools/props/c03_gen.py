"""C03 X2: random small functions with nested / sequential conditions on related expressions,
assignments in between, early returns and simple loops; all inputs are parameters of small
declared domains.  No decisions here: generation only."""
from minic_gen import E, S, Func, var, num, bin_, un, CMPS, MIRROR, NEGATE

INT_EDGES = [-2147483647 - 1, -2147483647, -65536, -256, -129, -128, -3, -2, -1, 0, 1, 2, 3, 4, 5, 7, 8, 9, 10, 100, 127, 128, 255, 256,
             1000, 65535, 65536, 2147483646, 2147483647]
KPOOL = [0, 1, 2, 3, 4, 5, 7, 8, 10, 15, 16, 100, 127, 128, 200, 255, 256]

PARAM_SETS = [
    [("unsigned char", "a", list(range(256)))],
    [("unsigned char", "a", list(range(256))), ("unsigned char", "b", list(range(256)))],
    [("unsigned char", "a", list(range(256))), ("_Bool", "c", [0, 1]), ("int", "p", list(range(-8, 16)))],
    [("signed char", "s", list(range(-128, 128))), ("int", "n", INT_EDGES)],
    [("unsigned char", "a", list(range(256))), ("int", "n", INT_EDGES), ("_Bool", "c", [0, 1])],
    [("signed char", "s", list(range(-128, 128))), ("unsigned char", "b", list(range(0, 256, 3)) + [255]), ("int", "p", list(range(-8, 16)))],
]


class Gen:
    def __init__(self, rng):
        self.rng = rng

    def function(self, name):
        rng = self.rng
        self.params = rng.choice(PARAM_SETS)
        pn = [n for _, n, _ in self.params]
        self.small = []          # atoms with small magnitude (usable in arithmetic)
        self.raw = []            # unbounded int atoms (comparisons / bit ops / division by constants only)
        for n in pn:
            if n == "p":
                self.small.append(lambda: bin_("&", var("p"), num(7)))
            elif n == "n":
                self.raw.append(lambda: var("n"))
            else:
                self.small.append((lambda nn: (lambda: var(nn)))(n))
        self.conds = []
        self.kpool = rng.sample(KPOOL, 5)
        self.uses_global = False
        self.assignable = []
        body = []
        for ln, lt in (("x", "int"), ("y", "int"), ("u", "unsigned char"), ("w", "unsigned")):
            if rng.random() < 0.6:
                body.append(S("decl", type=lt, name=ln, e=self.val(2)))
                self.small.append((lambda nn: (lambda: var(nn)))(ln))
                self.assignable.append(ln)
        if rng.random() < 0.25:
            self.uses_global = True
            self.raw.append(lambda: var("g"))
        body += self.stmts(rng.randint(2, 5), 0, False)
        body.append(S("return", e=self.val(1) if rng.random() < 0.7 else self.cond(1)))
        f = Func(name, self.params, body)
        f.uses_global = self.uses_global
        return f

    # ---- expressions
    def k(self):
        return self.rng.choice(self.kpool) if self.rng.random() < 0.8 else self.rng.choice(KPOOL)

    def atom(self):
        return self.rng.choice(self.small)()

    def val(self, depth):
        rng = self.rng
        r = rng.random()
        if depth <= 0 or r < 0.3:
            if self.raw and rng.random() < 0.15:
                n = rng.choice(self.raw)()
                op = rng.choice(["&", "%", "/", "|"])
                kk = rng.choice([1, 2, 3, 4, 7, 8, 10, 16, 255])
                return bin_(op, n, num(kk))
            return self.atom() if rng.random() < 0.9 else num(self.k())
        a = self.val(depth - 1)
        if r < 0.42:
            return bin_(rng.choice("+-"), a, num(rng.choice([1, 2, 3, 5, 10, 100])))
        if r < 0.52:
            return bin_(rng.choice("+-"), a, self.val(depth - 1))
        if r < 0.58:
            return bin_("*", a, num(rng.choice([2, 3, 4])))
        if r < 0.72:
            return bin_("&", a, num(rng.choice([1, 3, 7, 12, 15, 240, 255, 256])))
        if r < 0.78:
            return bin_("|", a, num(rng.choice([1, 2, 7, 8, 16, 128])))
        if r < 0.86:
            return bin_(rng.choice("%/"), a, num(rng.choice([2, 3, 4, 8, 10, 16])))
        if r < 0.91:
            return bin_(">>", a, num(rng.choice([1, 2, 4])))
        if r < 0.95:
            return bin_("<<", bin_("&", a, num(15)), num(rng.choice([1, 2, 4])))
        return bin_("^", a, num(rng.choice([1, 3, 255])))

    def cmp(self):
        rng = self.rng
        lhs = self.val(rng.choice([0, 0, 1, 1, 2]))
        if self.raw and rng.random() < 0.15:
            lhs = rng.choice(self.raw)()
        if rng.random() < 0.8:
            rhs = num(self.k() if rng.random() < 0.9 else -rng.choice([1, 2, 128, 129]))
        else:
            rhs = self.val(1)
        op = rng.choice(CMPS)
        if rng.random() < 0.15:
            return bin_(MIRROR[op], rhs, lhs)
        return bin_(op, lhs, rhs)

    def related(self):
        """a condition related to an earlier one of this function"""
        rng = self.rng
        c = rng.choice(self.conds)
        r = rng.random()
        if r < 0.3:
            return c.clone()
        if c.kind == "bin" and c.op in CMPS:
            if r < 0.45:
                return bin_(NEGATE[c.op], c.a.clone(), c.b.clone())
            if r < 0.55:
                return bin_(MIRROR[c.op], c.b.clone(), c.a.clone())
            if r < 0.65:
                return bin_(MIRROR[NEGATE[c.op]], c.b.clone(), c.a.clone())
            if r < 0.85:
                # same left operand, another operator and a nearby constant
                if c.b.kind == "num":
                    return bin_(rng.choice(CMPS), c.a.clone(), num(c.b.v + rng.choice([-2, -1, 0, 1, 2, 10]), c.b.suf))
                return bin_(rng.choice(CMPS), c.a.clone(), c.b.clone())
            return un("!", c.clone())
        if r < 0.6:
            return un("!", c.clone())
        return c.clone()

    def cond(self, depth):
        rng = self.rng
        r = rng.random()
        if self.conds and r < 0.35:
            c = self.related()
        elif depth > 0 and r < 0.5:
            c = bin_(rng.choice(["&&", "||"]), self.cond(depth - 1), self.cond(depth - 1))
        elif r < 0.58:
            c = self.atom() if rng.random() < 0.6 else self.val(1)
        elif r < 0.63:
            c = un("!", self.atom())
        else:
            c = self.cmp()
        if c.kind == "num":
            c = self.cmp()
        self.conds.append(c)
        return c

    # ---- statements
    def stmts(self, n, depth, in_loop):
        out = []
        for _ in range(n):
            out += self.stmt(depth, in_loop)
        return out

    def stmt(self, depth, in_loop):
        rng = self.rng
        r = rng.random()
        if r < 0.30 and depth < 3:
            c = self.cond(1)
            then = self.stmts(rng.randint(1, 3), depth + 1, in_loop)
            els = self.stmts(rng.randint(1, 2), depth + 1, in_loop) if rng.random() < 0.3 else None
            return [S("if", c=c, then=then, els=els)]
        if r < 0.42:
            c = self.cond(1)
            tail = [S("return", e=num(rng.randint(1, 9)))] if (not in_loop or rng.random() < 0.5) else [S(rng.choice(["break", "continue"]))]
            pre = [S("sink", e=self.val(1))] if rng.random() < 0.2 else []
            return [S("if", c=c, then=pre + tail, els=None)]
        if r < 0.60 and self.assignable:
            v = rng.choice(self.assignable)
            q = rng.random()
            if q < 0.5:
                return [S("assign", name=v, op="=", e=self.val(2) if rng.random() < 0.8 else num(self.k()))]
            if q < 0.7:
                return [S("incdec", name=v, op=rng.choice(["++", "--"]))]
            return [S("assign", name=v, op=rng.choice(["+=", "-=", "&=", "|="]), e=num(rng.choice([1, 2, 3, 7, 8])) if rng.random() < 0.7 else self.atom())]
        if r < 0.68 and depth < 2:
            iv = "i" if depth == 0 else "j"
            hi = rng.choice([2, 3, 4, 8])
            self.small.append((lambda nn: (lambda: var(nn)))(iv))
            body = self.stmts(rng.randint(1, 3), depth + 1, True)
            self.small.pop()
            self.conds = [c for c in self.conds if not any(e.kind == "var" and e.name == iv for e in c.walk())]
            return [S("for", var=iv, lo=0, c=bin_("<", var(iv), num(hi)), body=body)]
        if r < 0.75 and depth < 2 and self.assignable:
            v = rng.choice(self.assignable)
            kk = rng.choice([0, 1, 3, 10])
            body = [S("incdec", name=v, op="--")] + self.stmts(rng.randint(0, 2), depth + 1, True)
            if rng.random() < 0.5:
                body = body[1:] + body[:1]
            return [S("while", c=bin_(">", var(v), num(kk)), body=body)]
        if r < 0.80 and depth < 2:
            return [S("while", c=self.cond(0), body=self.stmts(rng.randint(1, 2), depth + 1, True))]
        if r < 0.88:
            return [S("sink", e=self.val(2) if rng.random() < 0.8 else self.cond(0))]
        if r < 0.93 and self.uses_global:
            return [S("ext")]
        if r < 0.96 and self.uses_global:
            return [S("assign", name="g", op="=", e=self.val(1))]
        return [S("sink", e=self.val(1))]


class AliasGen:
    """Second fixed family: a local initialised from another variable before a loop (`int al = x;`), nested or sequential
    conditions one on the alias and one on the source, and a modification of the source (or the alias) before, between or
    after the conditions in the body of a for / while / do-while loop (or no loop) -- the 'followVar' substitution of
    isSameExpression / isOppositeCond must see modifications that reach the conditions through the back edge."""

    PARAMS = [
        [("unsigned char", "a", list(range(0, 256, 5)) + [1, 2, 3, 4, 254, 255]), ("int", "p", list(range(-8, 16)))],
        [("signed char", "s", list(range(-128, 128, 3)) + [-1, 1, 2]), ("unsigned char", "b", list(range(0, 12)) + [100, 255])],
    ]

    def __init__(self, rng):
        self.rng = rng

    def function(self, name):
        rng = self.rng
        params = rng.choice(self.PARAMS)
        first = params[0][1]
        second = bin_("&", var("p"), num(7)) if params[1][1] == "p" else var("b")
        body = []
        # the source: the parameter itself or a local computed from it
        if rng.random() < 0.5:
            src = first
        else:
            src = "x"
            init = rng.choice([var(first), bin_("&", var(first), num(rng.choice([3, 7, 15]))), bin_("%", var(first), num(rng.choice([3, 4, 8]))),
                               bin_("-", var(first), num(rng.choice([1, 2, 100])))])
            body.append(S("decl", type="int", name="x", e=init))
        body.append(S("decl", type="int", name="al", e=var(src) if rng.random() < 0.85 else bin_("+", var(src), num(0))))
        body.append(S("decl", type="int", name="r", e=num(0)))
        k = rng.choice([0, 0, 1, 2, 3, 5])
        op = rng.choice(CMPS)
        v1, v2 = ("al", src) if rng.random() < 0.6 else (src, "al")
        c1 = bin_(op, var(v1), num(k))
        rel = rng.random()
        if rel < 0.4:
            c2 = bin_(NEGATE[op], var(v2), num(k))                 # opposite
        elif rel < 0.65:
            c2 = bin_(op, var(v2), num(k))                         # identical
        elif rel < 0.8:
            c2 = bin_(MIRROR[NEGATE[op]], num(k), var(v2))
        else:
            c2 = bin_(rng.choice(CMPS), var(v2), num(k + rng.choice([-1, 0, 1])))
        hit = [S("assign", name="r", op="+=", e=num(1))] if rng.random() < 0.7 else [S("sink", e=var("r"))]
        if rng.random() < 0.7:
            conds = [S("if", c=c1, then=[S("if", c=c2, then=hit, els=None)], els=None)]
        elif rng.random() < 0.5:
            conds = [S("if", c=c1, then=[S("sink", e=num(1))], els=None), S("if", c=c2, then=hit, els=None)]
        else:
            conds = [S("if", c=bin_("&&", c1, c2), then=hit, els=None)]
        target = src if rng.random() < 0.8 else "al"
        mod = rng.choice([S("incdec", name=target, op="++"), S("incdec", name=target, op="--"),
                          S("assign", name=target, op="+=", e=num(rng.choice([1, 2, 3]))),
                          S("assign", name=target, op="=", e=second), S("assign", name=target, op="=", e=num(rng.choice([0, 1, 5])))])
        where = rng.random()
        if where < 0.6:
            inner = conds + [mod]                                  # after the conditions: reaches them through the back edge
        elif where < 0.75 and conds[0].kind == "if" and len(conds) == 1 and conds[0].then and conds[0].then[0].kind == "if":
            conds[0].then.insert(0, mod)                           # between the outer and the inner condition
            inner = conds
        elif where < 0.9:
            inner = [mod] + conds
        else:
            inner = conds                                          # no modification at all
        if rng.random() < 0.3:
            inner.append(S("sink", e=var("al")))
        loop = rng.choice(["dowhile", "dowhile", "while", "for", "none"])
        n = rng.choice([2, 3, 4])
        if loop == "for":
            body.append(S("for", var="i", lo=0, c=bin_("<", var("i"), num(n)), body=inner))
        elif loop == "while":
            body.append(S("decl", type="int", name="i", e=num(0)))
            body.append(S("while", c=bin_("<", var("i"), num(n)), body=inner + [S("incdec", name="i", op="++")]))
        elif loop == "dowhile":
            body.append(S("decl", type="int", name="i", e=num(0)))
            body.append(S("dowhile", c=bin_("<", var("i"), num(n)), body=inner + [S("incdec", name="i", op="++")]))
        else:
            body += inner
        body.append(S("return", e=var("r")))
        return Func(name, params, body)
