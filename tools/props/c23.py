#!/usr/bin/env python3
"""C23  Suppressions hide exactly the matching findings.

prove:      coq/theories/Properties_C23.v  (glob language, matchglob machine = language,
            is_suppressed = documented rule, list query, logger forwarding over any sequence)
correspond: extracted model (Supp/Run.v) vs harness/vh_c23.cpp on the real matchglob,
            Suppression::isSuppressed, SuppressionList::isSuppressed, CppCheckLogger::reportErr
search:     any disagreement is evaluated against the *specification* (glob_spec / the
            documented rule as proved equal to the model); impl != spec is the failing input.
"""
import os
import sys

sys.path.insert(0, os.path.dirname(os.path.dirname(os.path.abspath(__file__))))
import vlib
from props import supp_common as G

PID = "C23"
CORPUS_GLOB = [(b"*?", b"a"), (b"*?", b"ab"), (b"a*?b", b"axb"), (b"**a", b"ba"), (b"**Pointer", b"nullPointer"),
               (b"*", b""), (b"", b""), (b"a\x00b", b"a"), (b"*a*a*a*b", b"aaaaaaaaaaaa"), (b"?*o", b"foo")]


def check(run, replay):
    quick = run.tier == "quick"
    rng = run.rng
    run.trusted_base += [
        "Coq 8.16.1 kernel (coqc); vm_compute only in the two non-vacuity Examples; no native_compute",
        "extraction: Require Extraction + ExtrOcamlBasic only (bool/option/unit/list/prod/sumbool/sumor, andb/orb inlined); Z/N/positive/nat stay Coq datatypes",
        "ocaml/driver.ml (I/O + int<->N conversion), harness/vh_common.h + vh_c23.cpp (decode a case, call matchglob / Suppression::isSuppressed / SuppressionList::isSuppressed / CppCheck::verifLogger().reportErr)",
        "PathMatch::match is a parameter `pm` of the theorems; the executable instance pm_plain (equality) is exercised only on plain file names (general paths: C31)",
        "modelled, not verified: lib/utils.cpp matchglob, lib/suppressions.cpp Suppression::isSuppressed/isMatch/SuppressionList::isSuppressed, lib/cppcheck.cpp CppCheckLogger::reportErr (non-safety mode, library.reportErrors true, no remark comments, macro names empty at logger level)",
        "termination of matchglob is proved (C23_matchglob_total: fuel (|name|+1)^(stars+1)+1 always suffices); the executable entry point still runs with a smaller polynomial fuel and reports exhaustion as a distinct result, never compared",
    ]
    run.assumptions += ["g++ compiles /repo faithfully", "hook commit 746d6ae (verifLogger/verifExitCode) only exposes the existing logger"]
    run.extra["rule"] = ("glob: patterns/names over {a,b,*,?,.} (+10% arbitrary bytes) len 0-8, half of the names derived from the pattern "
                         "(near-matches by one mutation); non-trivial = pattern has a wildcard, distinct (pattern,name). "
                         "issup/list/logger: small domains per criterion so that each of line/next-line/file/hash/id/block/symbol/macro "
                         "holds or fails independently; non-trivial = at least one suppression consulted, distinct case.")

    vlib.ensure_repo_build()
    ok = run.prove(extra_targets=["theories/Supp/Run.vo"])
    model = vlib.build_model(PID) if ok or os.path.exists(os.path.join(vlib.COQ, "theories/Supp/Run.vo")) else None
    if not ok:
        run.violation("proof:" + PID, "Properties_C23.vo does not build: " + str(run.proof_error())[:300],
                      {"broken": "proof", "detail": run.proof_error()}, found_input=False)
    if model is None:
        return
    vh = vlib.build_harness(PID)

    # ---- stream 1: matchglob
    n = 3000 if quick else 200000
    cases = list(CORPUS_GLOB) + [G.gen_glob_pair(rng) for _ in range(n)]
    if not quick:
        cases += list(G.exhaustive_glob(5))
    cases = [list(c) for c in dict.fromkeys(cases)]
    diffs = vlib.correspond(run, "matchglob", model, [vh, "glob"], cases, tag="glob",
                            nontrivial=lambda c, m, i: (c[0], c[1]) if (b"*" in c[0] or b"?" in c[0]) and m != [b"F"] else None,
                            bucket=lambda c, m, i: "fuel" if m == [b"F"] else ("match" if m == [b"1"] else "nomatch") + (",wild" if b"*" in c[0] or b"?" in c[0] else ",lit"))
    shown = 0
    for c, m, i in sorted(diffs, key=lambda d: len(d[0][0]) + len(d[0][1])):
        if m == [b"F"]:
            continue
        if shown >= 3:
            break
        shown += 1
        # evaluate the specification itself on this input (smallest disagreeing inputs first)
        _, so, _ = vlib.run_lines([model], [vlib.enc_case(["globspec"] + c)])
        spec = vlib.dec_line(so[0])
        if spec != i:
            run.violation("glob:%s:%s" % (c[0].hex(), c[1].hex()),
                          "matchglob(%r, %r) = %s but the glob language says %s" % (c[0], c[1], vlib.show(i), vlib.show(spec)),
                          {"input": {"pattern": vlib.show(c[0]), "name": vlib.show(c[1])}, "impl": vlib.show(i), "spec": vlib.show(spec),
                           "how": "echo '%s' | build/harness/vh_c23 glob   (or: cppcheck --suppress='%s' on a file with a finding whose id is '%s')"
                                  % (vlib.enc_case(c), c[0].decode('latin-1'), c[1].decode('latin-1'))})
        else:
            run.violation("globmodel:%s:%s" % (c[0].hex(), c[1].hex()),
                          "model and implementation disagree on matchglob(%r,%r) although impl = spec" % (c[0], c[1]),
                          {"broken": "correspondence matchglob", "case": vlib.show(c), "model": vlib.show(m), "impl": vlib.show(i)},
                          found_input=False)

    # ---- stream 2: Suppression::isSuppressed
    n = 3000 if quick else 100000
    cases = [G.gen_supp(rng) + G.gen_emsg(rng) for _ in range(n)]
    diffs = vlib.correspond(run, "isSuppressed", model, [vh, "issup"], cases, tag="issup",
                            nontrivial=lambda c, m, i: tuple(map(str, c)),
                            bucket=lambda c, m, i: (m[0].decode() if m else "?") + ",type%s" % c[5])
    report(run, "isSuppressed", diffs, lambda c: {"suppression": dict(zip("id file line begin end type symbol macro hash thisAndNextLine inline matched checked".split(), vlib.show(c[:13]))),
                                                   "finding": dict(zip("hash id file line symbols nmacros".split(), vlib.show(c[13:19]))), "macros": vlib.show(c[19:])})

    # ---- stream 3: list queries (suppressed? only; flags are C24's)
    n = 1500 if quick else 50000
    cs = [G.gen_list_case(rng) for _ in range(n)]
    nm = {id(c[0]): c for c in cs}
    diffs = vlib.correspond(run, "SuppressionList::isSuppressed", model, [vh, "list"], [c[0] for c in cs], tag="list",
                            canon=None,
                            nontrivial=lambda c, m, i: tuple(map(str, c)) if c[0] != 0 and (not i or i[0] != b"rejected") else None,
                            bucket=lambda c, m, i: "rejected" if i and i[0] == b"rejected" else "nsupp%s" % c[0])
    proj = []
    for c, m, i in diffs:
        if i and i[0] == b"rejected":
            continue
        k = nm[id(c)][2]
        if m[:k] != i[:k]:
            proj.append((c, m[:k], i[:k]))
    report(run, "SuppressionList::isSuppressed", proj, lambda c: {"case_fields": vlib.show(c)})

    # ---- stream 4: the logger gate (forwarded? only; exit code is C25's, flags C24's)
    n = 1000 if quick else 30000
    cs = [G.gen_logger_case(rng) for _ in range(n)]
    nm = {id(c[0]): c for c in cs}
    diffs = vlib.correspond(run, "CppCheckLogger::reportErr", model, [vh, "logger"], [c[0] for c in cs], tag="logger",
                            nontrivial=lambda c, m, i: tuple(map(str, c)) if (not i or i[0] != b"rejected") else None,
                            bucket=lambda c, m, i: "rejected" if i and i[0] == b"rejected" else "forwarded%d" % sum(1 for x in m[:nm[id(c)][3]] if x == b"1"))
    proj = []
    for c, m, i in diffs:
        if i and i[0] == b"rejected":
            continue
        k = nm[id(c)][3]
        if m[:k] != i[:k]:
            proj.append((c, m[:k], i[:k]))
    report(run, "CppCheckLogger::reportErr", proj, lambda c: {"case_fields": vlib.show(c)})

    # ---- streams 5-9: how suppressions are given
    parse_streams(run, model, vh, quick)
    pairing_stream(run, model, vh, quick)
    dispatch_stream(run, model, vh, quick)
    inline_file_stream(run, model, vh, quick)
    documented_forms(run)


def parse_streams(run, model, vh, quick):
    """how suppressions are given: parseLine, toString, parseFile, parseComment, parseMultiSuppressComment"""
    rng = run.rng
    n = 4000 if quick else 120000

    def simple(stream, cmd, cases, bucket):
        cases = [list(c) for c in dict.fromkeys(tuple(c) for c in cases)]
        diffs = vlib.correspond(run, stream, model, [vh, cmd], cases, tag=cmd,
                                nontrivial=lambda c, m, i: tuple(c), bucket=bucket)
        for c, m, i in sorted(diffs, key=lambda d: sum(len(x) for x in d[0]))[:2]:
            import hashlib
            key = stream + ":" + hashlib.sha1(vlib.enc_case(c).encode()).hexdigest()[:12]
            run.violation(key, "%s(%s): the documented syntax (model) gives %s, the implementation %s" % (stream, vlib.show(c), vlib.show(m), vlib.show(i)),
                          {"stream": stream, "input": vlib.show(c), "model": vlib.show(m), "impl": vlib.show(i), "case_line": vlib.enc_case(c),
                           "how": "echo <case_line> | build/harness/vh_c23 " + cmd})

    corpus_lines = [b"memleak:src/file1.cpp", b"uninitvar // suppress all uninitvar errors in all files", b"exceptNew:src/file1.cpp:12",
                    b"a:c:/x/Makefile", b"a:b.c:", b"a:", b":b.c", b"a:b.c:1:2", b"a::1", b"a:b.c:1 # x", b"a\nsymbol=s", b""]
    simple("parseLine", "pline", [[l] for l in corpus_lines] + [[G.gen_pline(rng)] for _ in range(n)],
           lambda c, m, i: (m[0].decode() if m else "?") + ("," + m[1].decode("latin-1") if m and m[0] == b"E" else (",line" if m and len(m) > 3 and m[3] != b"-1" else "")))
    simple("parseFile", "pfile", [[b""], [b"\n"], [b"a\r\nb\r\n"], [b"# c\n\n  // d\nmemleak:a.c\n"]] + [[G.gen_pfile(rng)] for _ in range(n // 2)],
           lambda c, m, i: "ok%d" % ((len(m) - 1) // 4) if m and m[0] == b"1" else "err%d" % ((len(m) - 1) // 4))
    simple("Suppression::parseComment", "pcomment", [[G.gen_pcomment(rng)] for _ in range(n)],
           lambda c, m, i: "no" if m == [b"0"] else ("yes" + (",sym" if m[2] else "") + (",extra" if m[3] else "") + (",badattr" if m[4] == b"0" else "")))
    simple("parseMultiSuppressComment", "pmulti", [[G.gen_pmulti(rng)] for _ in range(n)],
           lambda c, m, i: ("ok" if m[0] == b"1" else "err") + "%d" % ((len(m) - 1) // 2))
    ts = [[rng.choice(G.P_IDS), rng.choice(G.P_FILES), rng.choice([-1, -1, 0, 1, 7, 2147483647]), rng.choice([b"", b"foo", b"a b", b"x#y"])] for _ in range(n // 4)]
    simple("Suppression::toString", "tostr", ts, lambda c, m, i: ("file" if c[1] else "nofile") + (",line" if c[2] != -1 else "") + (",sym" if c[3] else ""))


KEY_COLON = "parseLine:colon-without-dot"


def pairing_stream(run, model, vh, quick):
    """begin/end pairing of addInlineSuppressions: model (Supp/PairDefs.v) vs Preprocessor::inlineSuppressions"""
    import hashlib
    rng = run.rng
    stream = "addInlineSuppressions begin/end pairing"
    n = 2500 if quick else 60000
    gen = [G.gen_pairing(rng) for _ in range(n)]
    gen = list({g[0]: g for g in gen}.values())
    rc1, mo, me = vlib.run_lines([model], [vlib.enc_case(["pair"] + ev) for _, ev in gen])
    rc2, io, ie = vlib.run_lines([vh, "inlsup"], [vlib.enc_case([src]) for src, _ in gen])
    if rc1 != 0 or len(mo) != len(gen) or len(io) != len(gen):
        raise vlib.BuildError("pairing stream failed: %s %s" % (me[-300:], ie[-300:]))
    shown = 0
    for (src, ev), a, b in zip(gen, mo, io):
        m, i = vlib.dec_line(a), vlib.dec_line(b)
        mb, seen = [], set()
        for k in range(1, len(m), 4):
            key = (m[k], m[k + 1], m[k + 2])
            if key not in seen:       # addSuppression refuses a second block with the same id, symbol and first line
                seen.add(key)
                mb.append((m[k], m[k + 1], m[k + 2], m[k + 3]))
        ib = [(i[k], i[k + 1], i[k + 4], i[k + 5]) for k in range(1, len(i), 7) if i[k + 2] == b"2"]
        other = [i[k + 2] for k in range(1, len(i), 7) if i[k + 2] != b"2"]
        ok = m[:1] == i[:1] and mb == ib and not other
        run.count(stream, None, nontrivial=src, bucket="blocks%d,bad%s" % (len(mb), m[0].decode() if int(m[0]) < 3 else "3+"))
        if not ok:
            run.stream(stream)["disagreements"] += 1
            shown += 1
            if shown <= 2:
                run.violation("pairing:" + hashlib.sha1(src).hexdigest()[:12],
                              "begin/end pairing: model %s bad + %s, preprocessor %s bad + %s" % (vlib.show(m[:1]), vlib.show(mb), vlib.show(i[:1]), vlib.show(ib)),
                              {"source": src.decode("latin-1"), "model": vlib.show(m), "impl": vlib.show(i),
                               "how": "echo <hex of source> | build/harness/vh_c23 inlsup"})


def dispatch_stream(run, model, vh, quick):
    """parseInlineSuppressionCommentToken: model (Supp/DispatchDefs.v) vs the preprocessor on
    'void f(void) {' / <comment> / '    x;' / '}' (comment on its own line, code before and after)"""
    import hashlib
    rng = run.rng
    stream = "parseInlineSuppressionCommentToken (comment after code, before code)"
    n = 3000 if quick else 80000
    cs = list(dict.fromkeys(G.gen_dispatch(rng) for _ in range(n)))
    rc1, mo, me = vlib.run_lines([model], [vlib.enc_case(["disp", c]) for c in cs])
    rc2, io, ie = vlib.run_lines([vh, "inlsup"], [vlib.enc_case([b"void f(void) {\n" + c + b"\n    x;\n}\n"]) for c in cs])
    if rc1 != 0 or len(mo) != len(cs) or len(io) != len(cs):
        raise vlib.BuildError("dispatch stream failed: %s %s" % (me[-300:], ie[-300:]))
    shown = 0
    for c, a, b in zip(cs, mo, io):
        m, i = vlib.dec_line(a), vlib.dec_line(b)
        ii = i[:1] + [x for k in range(1, len(i), 7) for x in (i[k], i[k + 1], i[k + 2])]
        placed = all(i[k + 3] == b"3" and i[k + 6] == b"0" for k in range(1, len(i), 7))
        ok = m == ii and placed
        run.count(stream, None, nontrivial=c, bucket="bad%s,added%d" % (m[0].decode(), (len(m) - 1) // 3))
        if not ok:
            run.stream(stream)["disagreements"] += 1
            shown += 1
            if shown <= 2:
                run.violation("dispatch:" + hashlib.sha1(c).hexdigest()[:12],
                              "inline comment %r: model %s, preprocessor %s" % (c, vlib.show(m), vlib.show(i)),
                              {"comment": vlib.show(c), "model": vlib.show(m), "impl": vlib.show(i),
                               "how": "build/harness/vh_c23 inlsup on the 4-line source (hex encoded)"})


def inline_file_stream(run, model, vh, quick):
    """addInlineSuppressions over whole files: model (Supp/InlineDefs.v, on the token sequence) vs Preprocessor::inlineSuppressions"""
    import hashlib
    rng = run.rng
    stream = "addInlineSuppressions (whole file: placement, file/macro/unique/block, thisAndNextLine)"
    n = 2500 if quick else 60000
    srcs = list({b"\n".join(l): l for l in (G.gen_inline_source(rng) for _ in range(n))}.values())
    rc1, mo, me = vlib.run_lines([model], [vlib.enc_case(["inline"] + G.flat(G.tokenize_lines(l))) for l in srcs])
    rc2, io, ie = vlib.run_lines([vh, "inlsup"], [vlib.enc_case([b"\n".join(l) + b"\n"]) for l in srcs])
    if rc1 != 0 or len(mo) != len(srcs) or len(io) != len(srcs):
        raise vlib.BuildError("inline stream failed: %s %s" % (me[-300:], ie[-300:]))
    shown = 0
    for l, a, b in zip(srcs, mo, io):
        m, i = vlib.dec_line(a), vlib.dec_line(b)
        types = sorted(set(m[k + 2].decode() for k in range(1, len(m), 7)))
        nxt = any(m[k + 6] == b"1" for k in range(1, len(m), 7))
        run.count(stream, None, nontrivial=b"\n".join(l), bucket="n%d,types%s%s" % (min((len(m) - 1) // 7, 4), "".join(types), ",next" if nxt else ""))
        if m != i:
            run.stream(stream)["disagreements"] += 1
            shown += 1
            if shown <= 2:
                src = b"\n".join(l) + b"\n"
                run.violation("inlinefile:" + hashlib.sha1(src).hexdigest()[:12],
                              "inline suppressions of a file: model %s, preprocessor %s" % (vlib.show(m), vlib.show(i)),
                              {"source": src.decode("latin-1"), "model": vlib.show(m), "impl": vlib.show(i),
                               "fields": "bad count, then per suppression: id symbol type line begin end thisAndNextLine",
                               "how": "echo <hex of source> | build/harness/vh_c23 inlsup"})


def documented_forms(run):
    """the property on the binary: every documented way of giving a suppression (manual.md) is accepted and hides the finding"""
    import shutil
    import subprocess
    import tempfile
    stream = "documented forms on the binary"
    d = tempfile.mkdtemp(prefix="vc23_")
    try:
        os.makedirs(os.path.join(d, "d:x"))
        body = ["void f(void) {", "    int *p = 0;", "%s", "    *p = 1;%s", "}"]
        open(os.path.join(d, "d:x", "hdr"), "w").write("static void hf(void) {\n    int *p = 0;\n    *p = 1;\n}\n")
        open(os.path.join(d, "h.c"), "w").write('#include "d:x/hdr"\nint g(int x) { return x + 1; }\n')

        def run_cpp(args):
            for _ in range(60):
                try:
                    p = subprocess.run([vlib.CPPCHECK, "-q", "--template={file}:{line}:{id}"] + args, cwd=d, stdout=subprocess.PIPE, stderr=subprocess.PIPE, timeout=60)
                    return p.returncode, p.stderr.decode("latin-1") + p.stdout.decode("latin-1")
                except OSError:
                    import time
                    time.sleep(2)
            raise vlib.BuildError("cannot run cppcheck")

        cases = []
        # plain text forms: [error id]:[filename]:[line] / [error id]:[filename2] / [error id]
        for how in ("cmdline", "file"):
            for spec in ("nullPointer", "nullPointer:d:x/hdr:3", "nullPointer:d:x/hdr", "null*:d:x/*", "nullPointer:**", "nullPointer:h.c"):
                cases.append((how, spec, None))
        # inline forms on f.c
        inl = [("before", "    // cppcheck-suppress nullPointer"), ("before", "    // cppcheck-suppress [nullPointer, zerodiv]"),
               ("before", "    // cppcheck-suppress[nullPointer,zerodiv]"), ("before", "    /* cppcheck-suppress nullPointer */"),
               ("before", "    // cppcheck-suppress nullPointer symbolName=p"), ("before", "    // cppcheck-suppress[nullPointer symbolName=p, zerodiv]"),
               ("before", "    // cppcheck-suppress[nullPointer] some comment"), ("before", "    // cppcheck-suppress nullPointer ; some comment"),
               ("before", "    // cppcheck-suppress nullPointer // some comment"), ("same", "  // cppcheck-suppress nullPointer"),
               ("same", "  // cppcheck-suppress[nullPointer,zerodiv]"), ("block", "nullPointer"), ("block", "[nullPointer, zerodiv]"),
               ("file", "// cppcheck-suppress-file nullPointer"), ("file", "// cppcheck-suppress-file [nullPointer, zerodiv]"),
               ("macro", "// cppcheck-suppress-macro nullPointer"), ("macro", "// cppcheck-suppress-macro [nullPointer, zerodiv]")]
        for kind, c in inl:
            cases.append(("inline", kind, c))
        for how, a, b in cases:
            if how == "inline":
                if a == "before":
                    txt = "\n".join(body) % (b, "")
                elif a == "same":
                    txt = "\n".join(body) % ("", b)
                elif a == "block":
                    txt = "\n".join(body[:2] + ["    // cppcheck-suppress-begin " + b, "    *p = 1;", "    // cppcheck-suppress-end " + b, "}"])
                elif a == "file":
                    txt = b + "\n" + "\n".join(body) % ("", "")
                else:
                    txt = b + "\n#define DEREF(q) (*(q) = 1)\nvoid f(void) {\n    int *p = 0;\n    DEREF(p);\n}"
                open(os.path.join(d, "f.c"), "w").write(txt + "\n")
                rc, out = run_cpp(["--inline-suppr", "f.c"])
                what, target = "inline %s: %s" % (a, b), "f.c"
            else:
                if how == "cmdline":
                    args = ["--suppress=" + a]
                else:
                    open(os.path.join(d, "s.txt"), "w").write("// comment\n\n" + a + " # note\n")
                    args = ["--suppressions-list=s.txt"]
                rc, out = run_cpp(args + ["h.c"])
                what, target = "%s %s" % (how, a), "h.c"
            hidden = "nullPointer" not in out
            ok = rc == 0 and hidden and "error" not in out and "invalidSuppression" not in out
            applies = not (how != "inline" and a == "nullPointer:h.c")    # the finding is in the header: h.c does not match it
            if not applies:
                ok = rc == 0 and not hidden
            run.count(stream, None, nontrivial=what, bucket="holds" if ok else "deviates")
            if not ok:
                run.stream(stream)["disagreements"] += 1
                caveat = how != "inline" and "invalid line number" in out and not a.rsplit(":", 1)[-1].isdigit()
                key = KEY_COLON if caveat else "documented-form:" + what.replace(" ", "_")[:60]
                run.violation(key, "the documented form '%s' is %s: rc %d, output %r" % (what, "rejected" if rc else "not effective", rc, out[:200]),
                              {"form": what, "rc": rc, "output": out[:500], "files": {"h.c": '#include "d:x/hdr"', "d:x/hdr": "static void hf(void) { int *p = 0; *p = 1; }"},
                               "how": "cppcheck %s %s" % (" ".join(args) if how != "inline" else "--inline-suppr", target)})
        # a block is opened for one id and closed for another: nothing documented makes that a
        # suppression of the second id (manual: -begin aaaa ... -end aaaa)
        open(os.path.join(d, "f.c"), "w").write("void f(void) {\n    int *p = 0;\n    // cppcheck-suppress-begin uninitvar\n    *p = 1;\n    // cppcheck-suppress-end nullPointer\n}\n")
        rc, out = run_cpp(["--inline-suppr", "f.c"])
        ok = "nullPointer" in out or "invalidSuppression" in out
        run.count(stream, None, nontrivial="begin uninitvar / end nullPointer", bucket="holds" if ok else "deviates")
        if not ok:
            run.stream(stream)["disagreements"] += 1
            run.violation("inline-begin-end:" + "id-not-compared", "'-begin uninitvar' ... '-end nullPointer' hides the nullPointer finding of the block and reports nothing invalid (rc %d, output %r)" % (rc, out[:200]),
                          {"files": {"f.c": "void f(void) {\n    int *p = 0;\n    // cppcheck-suppress-begin uninitvar\n    *p = 1;\n    // cppcheck-suppress-end nullPointer\n}\n"},
                           "how": "cppcheck -q --inline-suppr f.c   (prints nothing; without the two comments: nullPointer at f.c:4)"})
    finally:
        shutil.rmtree(d, ignore_errors=True)


def report(run, stream, diffs, describe):
    for c, m, i in sorted(diffs, key=lambda d: len(d[0]))[:2]:
        if m == [b"F"]:
            continue
        import hashlib
        key = stream + ":" + hashlib.sha1(vlib.enc_case(c).encode()).hexdigest()[:12]
        d = describe(c)
        d.update({"stream": stream, "documented_rule_says": vlib.show(m), "implementation_says": vlib.show(i),
                  "case_line": vlib.enc_case(c),
                  "how": "echo <case_line> | build/harness/vh_c23 <cmd>; the model result is proved equal to the documented rule (Properties_C23.v)"})
        run.violation(key, "%s deviates from the documented suppression rule: expected %s, got %s" % (stream, vlib.show(m), vlib.show(i)), d)


if __name__ == "__main__":
    vlib.main(check, PID)
