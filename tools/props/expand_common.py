"""C06 helpers: generated programs with typedef / using aliases (as declarator trees), their uses in
value-relevant positions, macro and template pairs, and the comparison of what the real binary reports
for a program and for its hand-expanded twin."""
import os
import re
import sys

sys.path.insert(0, os.path.dirname(os.path.dirname(os.path.abspath(__file__))))
import vlib
import dumpparse

PRELUDE = ["struct S { int m; int arr[2]; };", "int g;", "struct S gs;", "int buf[4];", "int fn(int);", "void sink(int);"]

BASES = [("b", "int"), ("b", "int"), ("b", "long"), ("b", "unsigned int"), ("b", "char"), ("s", "S")]


# ---- types / declarators as tuples (mirror of Expand/Defs.v; cross-checked against the model's `types`) ----
def build(d, t):
    k = d[0]
    if k == "I":
        return d[1], t
    if k == "P":
        return build(d[1], ("p", t))
    if k == "A":
        return build(d[2], ("a", d[1], t))
    return build(d[2], ("f", t, tuple(d[1])))


def resolve(env, t):
    k = t[0]
    if k in "bs":
        return t
    if k == "n":
        return env.get(t[1], t)
    if k == "p":
        return ("p", resolve(env, t[1]))
    if k == "a":
        return ("a", t[1], resolve(env, t[2]))
    return ("f", resolve(env, t[1]), tuple(resolve(env, x) for x in t[2]))


def valid(t, top=True):
    """C constraints on an alias-free type"""
    k = t[0]
    if k in "bs":
        return True
    if k == "n":
        return False
    if k == "p":
        return valid(t[1], False)
    if k == "a":
        return t[1] >= 1 and t[2][0] != "f" and valid(t[2], False)
    # function: only behind a pointer, returns no array/function, params are scalars or pointers
    if top:
        return False
    return t[1][0] not in "af" and valid(t[1], False) and all(p[0] in "bsp" and valid(p, False) for p in t[2])


def enc_ty(t):
    k = t[0]
    if k in "bsn":
        return [k, t[1]]
    if k == "p":
        return ["p"] + enc_ty(t[1])
    if k == "a":
        return ["a", str(t[1])] + enc_ty(t[2])
    out = ["f", str(len(t[2]))]
    for p in t[2]:
        out += enc_ty(p)
    return out + enc_ty(t[1])


def enc_dtor(d):
    k = d[0]
    if k == "I":
        return ["I", d[1]]
    if k == "P":
        return ["P"] + enc_dtor(d[1])
    if k == "A":
        return ["A", str(d[1])] + enc_dtor(d[2])
    out = ["F", str(len(d[1]))]
    for p in d[1]:
        out += enc_ty(p)
    return out + enc_dtor(d[2])


def enc_prog(items):
    out = []
    for it in items:
        if it[0] == "T":
            out += ["T"] + enc_ty(it[1]) + enc_dtor(it[2])
        elif it[0] == "U":
            out += ["U", it[1]] + enc_ty(it[2])
        else:
            out += ["D"] + enc_ty(it[1]) + enc_dtor(it[2])
    return out


def gen_dtor(rng, name, depth):
    d = ("I", name)
    for _ in range(depth):
        r = rng.random()
        if r < 0.4:
            d = ("P", d)
        elif r < 0.8:
            d = ("A", rng.choice([1, 2, 3, 4]), d)
        else:
            ps = tuple(rng.choice([("b", "int"), ("b", "char"), ("p", ("b", "int"))]) for _ in range(rng.randint(0, 2)))
            d = ("F", ps, ("P", d))
    return d


def gen_ty(rng, aliases, depth):
    t = rng.choice(BASES + [("n", a) for a in aliases])
    for _ in range(depth):
        r = rng.random()
        if r < 0.5:
            t = ("p", t)
        elif r < 0.85:
            t = ("a", rng.choice([1, 2, 3]), t)
        else:
            t = ("p", ("f", t, tuple(rng.choice([("b", "int"), ("p", ("b", "char"))]) for _ in range(rng.randint(0, 2)))))
    return t


def gen_alias_program(rng):
    """returns (items, final types of the declared variables) or None if some type is not valid C"""
    items, env, aliases, ainfo = [], {}, [], []
    nalias = rng.randint(1, 3)
    for i in range(nalias):
        name = "T%d" % i
        if rng.random() < 0.65:
            spec = rng.choice(BASES + [("n", a) for a in aliases] * 2)
            d = gen_dtor(rng, name, rng.choice([0, 1, 1, 1, 2]))
            _, t = build(d, spec)
            items.append(("T", spec, d))
        else:
            t = gen_ty(rng, aliases, rng.choice([0, 1, 1, 2]))
            items.append(("U", name, t))
        rt = resolve(env, t)
        if not valid(rt, True):
            return None
        env[name] = rt
        ainfo.append((items[-1][0], name, rt))
        aliases.append(name)
    decls = []
    for j in range(rng.randint(1, 4)):
        spec = ("n", rng.choice(aliases)) if rng.random() < 0.85 else rng.choice(BASES)
        d = gen_dtor(rng, "v%d" % j, rng.choice([0, 0, 1, 1, 2]))
        x, t = build(d, spec)
        rt = resolve(env, t)
        if not valid(rt, True):
            return None
        items.append(("D", spec, d))
        decls.append((x, rt))
    return items, decls, ainfo


def ptype(t, inner=""):
    """C++ type-id printer (mirror of Run.v ptype), for the g++ static_asserts"""
    k = t[0]
    par = lambda s: "(" + s + ")" if s.startswith("*") else s
    if k == "b":
        return t[1] + (" " + inner if inner else "")
    if k == "s":
        return "struct " + t[1] + (" " + inner if inner else "")
    if k == "n":
        return t[1] + (" " + inner if inner else "")
    if k == "p":
        return ptype(t[1], "*" + inner)
    if k == "a":
        return ptype(t[2], par(inner) + "[%d]" % t[1])
    return ptype(t[1], par(inner) + "(" + ", ".join(ptype(p) for p in t[2]) + ")")


def gen_uses(rng, x, t):
    """statements using variable x of alias-free type t in value-relevant positions"""
    k = t[0]
    out = []
    if k == "b":
        v = rng.choice([0, 1, 3, 4, 7])
        out += ["%s = %d;" % (x, v)]
        out += rng.sample(["if (%s == %d) { sink(1); }" % (x, v), "buf[%s] = 0;" % x, "sink(%s + 1);" % x, "sink(fn(%s));" % x,
                           "if (%s) { sink(2); }" % x, "sink(100 / %s);" % x], 3)
    elif k == "s":
        out += rng.sample(["%s.m = 2;" % x, "sink(%s.m);" % x, "%s.arr[%d] = 1;" % (x, rng.choice([1, 2])), "if (%s.m == 2) { sink(3); }" % x], 3)
    elif k == "p" and t[1][0] == "b":
        if rng.random() < 0.7:
            out.append("%s = %s;" % (x, rng.choice(["&g", "0"]) if t[1][1] == "int" else "0"))
        out += ["*%s = 1;" % x, "sink(*%s);" % x]
    elif k == "p" and t[1][0] == "s":
        if rng.random() < 0.7:
            out.append("%s = %s;" % (x, rng.choice(["&gs", "0"])))
        out += ["%s->m = 1;" % x, "sink(%s->arr[%d]);" % (x, rng.choice([0, 2]))]
    elif k == "p" and t[1][0] == "f":
        f = t[1]
        args = ", ".join("0" for _ in f[2])
        if rng.random() < 0.7:
            out.append("%s = 0;" % x)
        out.append("%s(%s);" % (x, args))
    elif k == "a" and t[2][0] == "b":
        n = t[1]
        out += ["%s[0] = 5;" % x, "sink(%s[%d]);" % (x, rng.choice([0, n - 1, n])), "%s[%d] = 2;" % (x, rng.choice([n - 1, n, n + 1]))]
        if rng.random() < 0.5:
            out.append("if (%s[0] == 5) { sink(4); }" % x)
    elif k == "a" and t[2][0] == "a" and t[2][2][0] == "b":
        n, m = t[1], t[2][1]
        out += ["%s[0][0] = 1;" % x, "%s[%d][%d] = 3;" % (x, n - 1, rng.choice([m - 1, m])), "sink(%s[%d][0]);" % (x, rng.choice([0, n]))]
    elif k == "a" and t[2][0] == "s":
        out += ["%s[0].m = 1;" % x, "sink(%s[%d].m);" % (x, rng.choice([0, t[1]]))]
    elif k == "a" and t[2][0] == "p":
        n = t[1]
        out += ["%s[%d] = 0;" % (x, rng.choice([0, n]))]
        if t[2][1][0] == "b":
            out += ["sink(*%s[0]);" % x]
        elif t[2][1][0] == "f":
            out += ["%s[0](%s);" % (x, ", ".join("0" for _ in t[2][1][2]))]
    elif k == "p" and t[1][0] == "a" and t[1][2][0] == "b":
        out += ["sink((*%s)[%d]);" % (x, rng.choice([0, t[1][1]]))]
    elif k == "p" and t[1][0] == "p":
        out += ["%s = 0;" % x, "sink(%s == 0);" % x]
    else:
        out += ["(void)%s;" % x]
    return out


def make_pair(alias_text, decl_text, expanded_text, uses):
    """the two translation units: aliases at file scope, declarations and uses in f()"""
    def unit(al, decls):
        lines = list(PRELUDE) + (al.split("\n") if al else [])
        lines.append("void f() {")
        base = len(lines)
        lines += ["  " + l for l in decls.split("\n")] + ["  " + u for u in uses]
        lines.append("}")
        return "\n".join(lines) + "\n", base
    return unit(alias_text, decl_text), unit("", expanded_text)


# ---- macros: object-like and function-like, parenthesised bodies and arguments ----
FBODIES1 = ["((x) + 1)", "((x) * 2)", "(-(x))", "((x) < 0 ? 0 : (x))", "((x) % 4)", "((x) - 3)"]
FBODIES2 = ["((x) < (y) ? (x) : (y))", "((x) > (y) ? (x) : (y))", "((x) + (y))", "((x) - (y))", "((x) * (y))", "((x) == (y))", "((y) ? (x) : 0)"]
MATOMS = ["0", "1", "2", "3", "4", "5", "7", "9", "20", "g", "buf[1]", "fn(2)"]


def gen_macro_set(rng):
    """2-4 function-like macros (parenthesised parameters), an object-like macro naming a function-like one,
    an object-like macro whose body is an invocation, an object-like constant"""
    fl = []
    for i in range(rng.randint(2, 4)):
        n = rng.choice([1, 2, 2])
        fl.append(dict(name="F%d" % i, params=["x", "y"][:n], body=rng.choice(FBODIES1 if n == 1 else FBODIES2)))
    t = rng.randrange(len(fl))
    t2 = rng.randrange(len(fl))
    obj = [dict(name="ALIAS", target=t),                                               # #define ALIAS F1
           dict(name="CALL", target=t2, args=[rng.choice(MATOMS[:9]) for _ in fl[t2]["params"]]),   # #define CALL F0(3, 1)
           dict(name="KONST", value="(%s)" % rng.choice(["0", "3", "4", "8"]))]
    return fl, obj


def gen_mexpr(rng, fl, obj, depth, mode):
    """invocation trees: mode 'same' nests one macro in itself, 'alt2'/'alt3' alternate macros, 'any' mixes"""
    def atom():
        r = rng.random()
        if r < 0.15:
            return ("K", "KONST")
        if r < 0.25:
            return ("K", "CALL")
        return ("a", rng.choice(MATOMS))

    cyc = {"same": [0], "alt2": [0, 1], "alt3": [0, 1, 2]}.get(mode)
    if cyc:
        order = list(range(len(fl)))
        rng.shuffle(order)
        cyc = [order[i % len(order)] for i in cyc]

    def go(d, level):
        if d == 0:
            return atom()
        if cyc:
            mi = cyc[level % len(cyc)]
        else:
            mi = rng.randrange(len(fl))
        r = rng.random()
        if not cyc and r < 0.2:
            return ("o", rng.choice(["+", "-", "*"]), go(d - 1, level), go(d - 1, level))
        m = fl[mi]
        args = []
        deep = rng.randrange(len(m["params"]))
        for k in range(len(m["params"])):
            if k == deep:
                args.append(go(d - 1, level + 1))
            else:
                sub = go(min(d - 1, rng.choice([0, 0, 1])), level + 1)
                # arguments that are themselves full expressions
                if rng.random() < 0.3:
                    sub = ("o", rng.choice(["+", "-"]), sub, ("a", rng.choice(MATOMS[:8])))
                args.append(sub)
        if not cyc and obj[0]["target"] == mi and rng.random() < 0.3:
            return ("k", "ALIAS", mi, args)          # macro reached through an object-like macro naming it
        return ("m", mi, args)
    return go(depth, 0)


def mexpr_src(e, fl):
    k = e[0]
    if k == "a":
        return e[1]
    if k == "K":
        return e[1]
    if k == "o":
        return "%s %s %s" % (mexpr_src(e[2], fl), e[1], mexpr_src(e[3], fl))
    name = fl[e[1]]["name"] if k == "m" else e[1]
    args = e[2] if k == "m" else e[3]
    return "%s(%s)" % (name, ", ".join(mexpr_src(a, fl) for a in args))


def mexpr_expand(e, fl, obj):
    """call-by-name expansion (the model's `inst`): every parameter occurrence `(p)` becomes `(<expanded argument>)`"""
    k = e[0]
    if k == "a":
        return e[1]
    if k == "K":
        o = [x for x in obj if x["name"] == e[1]][0]
        if "value" in o:
            return o["value"]
        return mexpr_expand(("m", o["target"], [("a", a) for a in o["args"]]), fl, obj)
    if k == "o":
        return "%s %s %s" % (mexpr_expand(e[2], fl, obj), e[1], mexpr_expand(e[3], fl, obj))
    mi = e[1] if k == "m" else e[2]
    args = e[2] if k == "m" else e[3]
    m = fl[mi]
    out = m["body"]
    sub = {p: mexpr_expand(a, fl, obj) for p, a in zip(m["params"], args)}
    return re.sub(r"\((x|y)\)", lambda mm: "(" + sub[mm.group(1)] + ")", out)


def mdepth(e):
    if e[0] in "aK":
        return 0
    if e[0] == "o":
        return max(mdepth(e[2]), mdepth(e[3]))
    return 1 + max([mdepth(a) for a in (e[2] if e[0] == "m" else e[3])] + [0])


MCTX = ["int r%d = %s;", "if (%s) { sink(1); }", "buf[%s] = 0;", "sink(%s);", "sink(fn(%s));", "sink(100 / (%s));", "sink(gs.arr[%s]);", "g = %s;"]


def gen_macro_pair(rng):
    fl, obj = gen_macro_set(rng)
    defs = ["#define %s(%s) %s" % (m["name"], ", ".join(m["params"]), m["body"]) for m in fl]
    defs.append("#define ALIAS %s" % fl[obj[0]["target"]]["name"])
    defs.append("#define CALL %s(%s)" % (fl[obj[1]["target"]]["name"], ", ".join(obj[1]["args"])))
    defs.append("#define KONST %s" % obj[2]["value"])
    uses_p, uses_x, depths, modes = [], [], [], []
    for _ in range(rng.randint(2, 4)):
        mode = rng.choice(["same", "alt2", "alt2", "alt3", "any", "any"])
        d = rng.choice([1, 2, 3, 3, 4])
        e = gen_mexpr(rng, fl, obj, d, mode)
        ctx = rng.choice(MCTX)
        inv, exp = mexpr_src(e, fl), mexpr_expand(e, fl, obj)
        if "%d" in ctx:
            k = len(uses_p)
            uses_p.append(ctx % (k, inv))
            uses_x.append(ctx % (k, exp))
        else:
            uses_p.append(ctx % inv)
            uses_x.append(ctx % exp)
        depths.append(mdepth(e))
        modes.append(mode)

    def unit(dl, uses):
        lines = list(PRELUDE) + dl + ["void f() {"]
        base = len(lines)
        lines += ["  " + u for u in uses] + ["}"]
        return "\n".join(lines) + "\n", base
    # the twin keeps as many (blank) lines as the original has #defines so that nothing but the invocations differs
    return unit(defs, uses_p), unit(["" for _ in defs], uses_x), dict(depth=max(depths), modes=modes)


def gcc_expand(text):
    """gcc -E -P on the original program; returns the token text of f()'s body lines or None if gcc is missing"""
    import shutil
    import subprocess
    if not shutil.which("gcc"):
        return None
    p = subprocess.run(["gcc", "-E", "-P", "-x", "c", "-"], input=text.encode(), stdout=subprocess.PIPE, stderr=subprocess.DEVNULL)
    if p.returncode != 0:
        return None
    return re.sub(r"\s+", "", p.stdout.decode())


# ---- templates: single-parameter function / class templates instantiated at one type ----
def gen_template_pair(rng):
    T = rng.choice(["int", "long", "char", "unsigned int"])
    kind = rng.choice(["fn", "class"])
    k = rng.choice([0, 1, 3, 4, 5])
    if kind == "fn":
        bodies = ["return x + 1;", "if (x == %d) { return 0; } return 100 / x;" % k, "T y = x; buf[y] = 0; return y;", "T a[3]; a[0] = x; return a[%d];" % rng.choice([0, 2, 3])]
        b = rng.choice(bodies)
        tdef = ["template <class T> T tf(T x) { %s }" % b]
        hdef = ["%s tf_h(%s x) { %s }" % (T, T, b.replace("T ", T + " "))]
        uses_p = ["sink(tf<%s>(%d));" % (T, k), "if (tf<%s>(%d) == 1) { sink(2); }" % (T, k)]
        uses_x = [u.replace("tf<%s>" % T, "tf_h") for u in uses_p]
    else:
        n = rng.choice([2, 3])
        tdef = ["template <class T> struct TC { T v[%d]; T get(int i) { return v[i]; } T last() { return v[%d]; } };" % (n, rng.choice([n - 1, n]))]
        hdef = [tdef[0].replace("template <class T> ", "").replace("TC", "TC_h").replace("T ", T + " ")]
        uses_p = ["TC<%s> c;" % T, "c.v[0] = %d;" % k, "sink(c.get(%d));" % rng.choice([0, n]), "sink(c.last());", "c.v[%d] = 1;" % rng.choice([n - 1, n])]
        uses_x = [u.replace("TC<%s>" % T, "TC_h") for u in uses_p]

    def unit(defs, uses):
        lines = list(PRELUDE) + defs + ["void f() {"]
        base = len(lines)
        lines += ["  " + u for u in uses] + ["}"]
        return "\n".join(lines) + "\n", base
    return unit(tdef, uses_p), unit(hdef, uses_x)


# ---- what the binary says ----
TEMPLATE = "{id}\t{line}\t{severity}\t{message}"


def analyse_dir(workdir, names, style_too=True):
    """--dump on all files, then a normal run; returns {name: (tokens, findings)}"""
    paths = [os.path.join(workdir, n) for n in names]
    flist = os.path.join(workdir, "files.txt")
    open(flist, "w").write("\n".join(paths) + "\n")
    for p in paths:
        try:
            os.remove(p + ".dump")
        except OSError:
            pass
    rc, o, _ = vlib.sh([vlib.CPPCHECK, "--dump", "--quiet", "-j4", "--file-list=" + flist], timeout=3000)
    rc, o, _ = vlib.sh([vlib.CPPCHECK, "--enable=warning,style,performance,portability", "--inconclusive", "--quiet", "-j4",
                        "--suppress=unusedVariable", "--suppress=unreadVariable", "--suppress=unusedStructMember", "--suppress=constVariablePointer",
                        "--suppress=constVariable", "--suppress=constParameterPointer", "--suppress=variableScope", "--suppress=unassignedVariable",
                        "--template={file}\t" + TEMPLATE, "--file-list=" + flist], timeout=3000)
    finds = {}
    for ln in o.split("\n"):
        f = ln.split("\t")
        if len(f) >= 5 and f[2].isdigit():
            if style_too or f[3] != "style":
                finds.setdefault(os.path.basename(f[0]), []).append((f[1], int(f[2]), f[4]))
    res = {}
    for n, p in zip(names, paths):
        if not os.path.exists(p + ".dump"):
            res[n] = None
            continue
        cfgs = dumpparse.parse_dump(p + ".dump")
        res[n] = (cfgs[0]["tokens"] if cfgs else [], sorted(finds.get(n, [])))
    return res


def canon_name(s, ren):
    return ren.get(s, s)


def body_tokens(toks):
    """tokens of f's body: from `void f ( ) {` on"""
    for i in range(len(toks) - 4):
        if toks[i].str == "void" and toks[i + 1].str == "f" and toks[i + 2].str == "(":
            return toks[i:]
    return []


def known_values(toks, base_line):
    """{(relative line, index in line): sorted Known/Impossible int values} on the use lines"""
    out = {}
    perline = {}
    for t in toks:
        k = perline.get(t.line, 0)
        perline[t.line] = k + 1
        vals = []
        for v in t.values:
            if "intvalue" in v and (v.get("known") == "true" or v.get("impossible") == "true"):
                vals.append(("K" if v.get("known") == "true" else "I", v.get("bound", "Point"), int(v["intvalue"])))
        # ':' is not an expression of its own: cppcheck parks the arm values on it (order dependent), nothing to compare
        if vals and t.str != ":":
            out[(t.line - base_line, k, t.str)] = sorted(vals)
    return out


# ---- fixed corpus of alias shapes on which fresh seeds found genuine differences (class key, program, uses) ----
_INT, _LONG, _S = ("b", "int"), ("b", "long"), ("s", "S")
ALIAS_CORPUS = [
    # using T0 = long[3]; T0 v0[2][4];   cppcheck: long v0[3][2][4]   (C: long v0[2][4][3])
    dict(cls="using-array-alias-dims",
         items=[("U", "T0", ("a", 3, _LONG)), ("D", ("n", "T0"), ("A", 4, ("A", 2, ("I", "v0"))))],
         uses=["v0[1][3][2] = 0;", "v0[1][3][3] = 0;", "sink(v0[0][0][0] == 0);"]),
    # typedef struct S T0[3]; using T1 = T0; T1 v0[1];   cppcheck leaves `T0 v0[1]`
    dict(cls="using-of-array-typedef",
         items=[("T", _S, ("A", 3, ("I", "T0"))), ("U", "T1", ("n", "T0")), ("D", ("n", "T1"), ("A", 1, ("I", "v0")))],
         uses=["v0[0][2].m = 1;", "sink(v0[0][3].m);"]),
    # typedef int T0[2]; T0 *(*v0)(int *, int);   cppcheck: int ( * ) [ 2 ] ( * v0 ) ( int * , int )
    dict(cls="fnptr-use",
         items=[("T", _INT, ("A", 2, ("I", "T0"))), ("D", ("n", "T0"), ("P", ("F", (("p", _INT), _INT), ("P", ("I", "v0")))))],
         uses=["v0 = 0;", "v0(0, 0);"]),
]
