"""C03 X2, primary oracle: encode a generated function for the Coq MiniC interpreter (VF/MiniC.v `exec`, extracted into
build/ocaml/C03/run, tag `sweep`) and read back, per observation site, the truth values seen in terminating UB-free
executions over a (thinned) product of the parameter domains.

Fragment: typed integer parameters and locals, declarations, (compound) assignments, ++/--, if/else, while, do-while, for
(desugared), return, sink; no break/continue, no ext()/global.  Observed sites: the root of every condition, and recursively the
operands that are evaluated unconditionally with it (left operands of && / ||, operands of ! and of comparisons); the right
operands of && / || are left to the gcc oracle."""
import vlib

TYPES = {"unsigned char": ("c", "u"), "signed char": ("c", "s"), "_Bool": ("b", "u"), "int": ("i", "s"), "unsigned": ("i", "u"),
         "unsigned int": ("i", "u")}
UNIX64 = ["8", "16", "32", "64", "64", "1"]


class NotInFragment(Exception):
    pass


def usites(e, out):
    """sites evaluated whenever e is evaluated"""
    if e.site is not None:
        out.append(e)
    if e.kind == "un":
        usites(e.e, out)
    elif e.kind == "bin":
        usites(e.a, out)
        if e.op not in ("&&", "||"):
            usites(e.b, out)
    return out


class Enc:
    def __init__(self, fn):
        self.fn = fn
        self.vars = {}          # name -> index
        self.types = []
        for t, n, _ in fn.params:
            self.add(n, t)
        self.nparams = len(self.vars)

    def add(self, n, t):
        if t not in TYPES:
            raise NotInFragment("type " + t)
        if n not in self.vars:
            self.vars[n] = len(self.vars)
            self.types.append(t)

    def expr(self, e):
        if e.kind == "var":
            if e.name not in self.vars:
                raise NotInFragment("variable " + e.name)
            return ["V", str(self.vars[e.name])]
        if e.kind == "num":
            if e.suf or not (-2 ** 31 <= e.v < 2 ** 31):
                raise NotInFragment("literal")
            return ["L", "i", "s", str(e.v)]
        if e.kind == "un":
            return ["U", e.op] + self.expr(e.e)
        return ["B", e.op] + self.expr(e.a) + self.expr(e.b)

    def obs(self, e):
        out = []
        for s in usites(e, []):
            out.append(["O", str(s.site)] + self.expr(s))
        return out

    def stmts(self, ss):
        out = []
        for s in ss:
            out += self.stmt(s)
        return out

    def block(self, ss):
        enc = self.stmts(ss)
        return [str(len(enc))] + [x for st in enc for x in st]

    def assign(self, name, e_fields):
        if name not in self.vars:
            raise NotInFragment("variable " + name)
        return ["A", str(self.vars[name])] + e_fields

    def stmt(self, s):
        k = s.kind
        if k == "decl":
            self.add(s.name, s.type)
            return self.obs(s.e) + [self.assign(s.name, self.expr(s.e))]
        if k == "assign":
            if s.op == "=":
                return self.obs(s.e) + [self.assign(s.name, self.expr(s.e))]
            return self.obs(s.e) + [self.assign(s.name, ["B", s.op[:-1], "V", str(self.vars.get(s.name, 0))] + self.expr(s.e))]
        if k == "incdec":
            return [self.assign(s.name, ["B", s.op[0], "V", str(self.vars.get(s.name, 0)), "L", "i", "s", "1"])]
        if k == "if":
            return self.obs(s.c) + [["I"] + self.expr(s.c) + self.block(s.then) + self.block(s.els or [])]
        if k == "while":
            o = self.obs(s.c)
            body = self.stmts(s.body) + o
            return o + [["W"] + self.expr(s.c) + [str(len(body))] + [x for st in body for x in st]]
        if k == "dowhile":
            o = self.obs(s.c)
            body = self.stmts(s.body) + o
            return body + [["W"] + self.expr(s.c) + [str(len(body))] + [x for st in body for x in st]]
        if k == "for":
            self.add(s.var, "int")
            o = self.obs(s.c)
            inc = [self.assign(s.var, ["B", "+", "V", str(self.vars[s.var]), "L", "i", "s", "1"])]
            body = self.stmts(s.body) + inc + o
            return [self.assign(s.var, ["L", "i", "s", str(s.lo)])] + o + [["W"] + self.expr(s.c) + [str(len(body))] + [x for st in body for x in st]]
        if k == "return":
            return self.obs(s.e) + [["R"]]
        if k == "sink":
            return self.obs(s.e)
        raise NotInFragment("statement " + k)


def thin(dom, limit):
    """a deterministic subset of a parameter domain that keeps the edges and small values"""
    dom = list(dom)
    if len(dom) <= limit:
        return dom
    keep = set(dom[:3] + dom[-3:] + [v for v in dom if -3 <= v <= 10 or v in (100, 127, 128, 200)])
    step = max(1, len(dom) // max(1, limit - len(keep)))
    keep |= set(dom[::step])
    return sorted(keep)


def encode(fn, budget):
    """field list for the `sweep` tag, or raises NotInFragment; the parameter domains are thinned so that the product <= budget"""
    enc = Enc(fn)
    body = enc.stmts(fn.body)        # also registers the locals
    per = max(2, int(budget ** (1.0 / max(1, len(fn.params)))))
    doms = [thin(d, per) for _, _, d in fn.params]
    f = ["sweep"] + UNIX64 + [str(len(fn.params))]
    for (t, n, _), d in zip(fn.params, doms):
        f += list(TYPES[t]) + [str(len(d))] + [str(v) for v in d]
    locs = enc.types[enc.nparams:]
    f += [str(len(locs))]
    for t in locs:
        f += list(TYPES[t]) + [""]
    f += ["4000", str(len(body))] + [x for st in body for x in st]
    ncalls = 1
    for d in doms:
        ncalls *= len(d)
    return f, ncalls


def sweep(model, funcs, budget):
    """{function name: (status, {site: row})}; status 'ok' | 'not-in-fragment: why' | 'ub' | 'bad'"""
    lines, names, res = [], [], {}
    for fn in funcs:
        try:
            f, n = encode(fn, budget)
            lines.append(vlib.enc_case(f))
            names.append(fn.name)
        except NotInFragment as e:
            res[fn.name] = ("not-in-fragment: %s" % e, {}, {})
    if lines:
        rc, out, err = vlib.run_lines([model], lines, timeout=3000)
        if rc != 0 or len(out) != len(lines):
            raise vlib.BuildError("MiniC sweep failed: " + err[-500:])
        for name, o in zip(names, out):
            t = [x.decode() for x in vlib.dec_line(o)]
            if not t or t[0] == "BAD":
                res[name] = ("bad-encoding", {}, {})
                continue
            ok, ub, fuel, bad = (int(x) for x in t[:4])
            rows = {}
            for i in range(4, len(t) - 6, 7):
                w = lambda s_: [] if s_ == "-" else [int(x) for x in s_.split(",")]
                rows[int(t[i])] = {"n": (int(t[i + 1]), int(t[i + 2])), "wit": (w(t[i + 3]), w(t[i + 4])), "vmin": int(t[i + 5]), "vmax": int(t[i + 6])}
            status = "ub" if ub else ("bad" if bad else "ok")
            res[name] = (status, rows, {"ok": ok, "ub": ub, "fuel": fuel, "bad": bad})
    return res
