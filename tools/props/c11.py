#!/usr/bin/env python3
"""C11  Preprocessing matches a conforming preprocessor  (partial: conditional skeleton + #if evaluator).

prove:      coq/theories/Properties_C11.v (ifstates machine = tree semantics of C 6.10.1 when conditions evaluate;
            refutation: #elif evaluated after a taken group; #if evaluator: machine-checked deviations from C 6.6,
            agreement on single binary operations)
correspond: extracted cond_file / ppeval (PP/Run.v) vs the real Preprocessor::preprocess / simplecpp::preprocess
            (harness/vh_c11.cpp), and vs `cppcheck -E` on a sample
search:     the specification (tree semantics, C 6.6 `ceval`) evaluated against the implementation; every deviation is
            shrunk, attributed to a known cause or reported; oracle for the replay: gcc -E -undef -nostdinc -P.
"""
import concurrent.futures
import hashlib
import os
import re
import subprocess
import sys
import tempfile

sys.path.insert(0, os.path.dirname(os.path.dirname(os.path.abspath(__file__))))
import vlib
from props import pp_common as P

PID = "C11"
L = lambda n: ("L", n, False)
U = lambda n: ("L", n, True)
WITNESS = [
    ("ifeval:constFoldUnaryNotPosNeg", ("1", "!", ("1", "!", L(1)))),
    ("ifeval:constFoldUnaryNotPosNeg", ("1", "-", ("1", "-", L(1)))),
    ("ifeval:constFoldUnaryNotPosNeg", ("1", "~", ("1", "~", L(1)))),
    ("ifeval:constFoldLogicalOp", ("2", "||", L(1), ("2", "&&", L(0), L(0)))),
    ("ifeval:constFoldComparison", ("2", "!=", L(0), ("2", ">", L(2), L(1)))),
    ("ifeval:constFoldQuestionOp", ("3", L(1), L(2), ("3", L(0), L(0), L(0)))),
    ("ifeval:unsigned-as-signed", ("2", "<", ("2", "-", L(0), L(1)), U(0))),
    ("ifeval:unsigned-as-signed", ("1", "!", U(0))),
    ("ifeval:division-in-unevaluated-operand", ("2", "&&", L(0), ("2", "/", L(1), L(0)))),
]
ELIF_WITNESS = [b"", b"I1", b"c7", b"EZ", b"c8", b"x", b"c9"]
RELOPS = ("<", "<=", ">", ">=")


def classify(e):
    sk = P.skeleton(e)
    if "U" in sk:
        return "ifeval:unsigned-as-signed"
    if (e[0] == "3" or (e[0] == "2" and e[1] in ("&&", "||"))) and ("/" in sk or "%" in sk):
        return "ifeval:division-in-unevaluated-operand"
    if e[0] == "1" or re.search(r"[!~+\-]\([!~+\-]\(", sk):      # a unary operator applied to a unary result, anywhere
        return "ifeval:constFoldUnaryNotPosNeg"
    if e[0] == "2" and e[1] == "||" and e[3][0] == "2" and e[3][1] == "&&":
        return "ifeval:constFoldLogicalOp"
    if e[0] == "2" and e[1] in ("==", "!=") and e[3][0] == "2" and e[3][1] in RELOPS:
        return "ifeval:constFoldComparison"
    if e[0] == "3":
        return "ifeval:constFoldQuestionOp"
    return "ifeval:" + sk.replace(" ", "")


def canon_cond(x):
    if x and x[0] == b"O":
        return x
    if x and (x[0] in (b"N", b"E") or x[0].startswith(b"err:")):
        return [b"ERR"]
    if x and x[0] == b"ok":
        return [b"O"] + re.findall(rb"L(\d+)", x[1] if len(x) > 1 else b"")
    return x


def spec_cond(fields, defs):
    """C 6.10.1 on a well-nested file: kept ids, 'ERR' (an evaluated condition fails), None (ill-nested)"""
    def ev(k, m):
        if k in "01":
            return k == "1"
        if k in "dD":
            return m in defs
        if k in "nN":
            return m not in defs
        if k == "M":
            return m in defs
        return None
    st, out = [], []          # entries: [state] with T taken-now, W waiting, D done ; X dead (enclosing not live)
    for f in fields:
        s = f.decode()
        live = all(x in ("T",) for x in st)
        if s[0] == "I":
            if not live:
                st.append("X")
            else:
                v = ev(s[1], s[2:].encode())
                if v is None:
                    return "ERR"
                st.append("T" if v else "W")
        elif s[0] == "E" or s == "e" or s == "x":
            if not st:
                return None
            if s == "x":
                st.pop()
            elif st[-1] == "X":
                pass
            elif st[-1] == "T":
                st[-1] = "D"
            elif st[-1] == "W":
                if s == "e":
                    st[-1] = "T"
                else:
                    v = ev(s[1], s[2:].encode())
                    if v is None:
                        return "ERR"
                    if v:
                        st[-1] = "T"
        elif live:
            out.append(int(s[1:]))
    return out if not st else None


def well_formed(fields):
    """every group closed, at most one #else, no #elif after #else"""
    st = []
    for f in fields:
        k = f[:1]
        if k == b"I":
            st.append(False)
        elif k == b"E" and f != b"e":
            if not st or st[-1]:
                return False
        elif f == b"e":
            if not st or st[-1]:
                return False
            st[-1] = True
        elif f == b"x":
            if not st:
                return False
            st.pop()
    return not st


def run_cmd(argv, timeout=120):
    import time
    for _ in range(60):              # the shared binary is briefly absent while another check relinks it
        if os.path.exists(argv[0]) or "/" not in argv[0]:
            break
        time.sleep(5)
    for attempt in range(4):         # a run that dies while the binary is being replaced (signal / exec error): repeat it
        try:
            r = subprocess.run(argv, stdout=subprocess.PIPE, stderr=subprocess.PIPE, timeout=timeout)
        except OSError:
            time.sleep(5)
            continue
        if r.returncode >= 0:
            break
        time.sleep(5)
    return r.returncode, r.stdout.decode("latin-1"), r.stderr.decode("latin-1")


def three_way(tmp, name, src, defs=()):
    """(cppcheck -E ids or 'ERR', gcc -E ids or 'ERR') for a source whose lines are `L<n>;`"""
    p = os.path.join(tmp, name)
    with open(p, "w") as fh:
        fh.write(src)
    d = ["-D" + x for x in defs]
    rc, out, err = run_cmd([vlib.CPPCHECK, "-E", "--max-configs=1", "-q"] + d + [p])
    c = "ERR" if "error:" in err or "error:" in out else [int(x) for x in re.findall(r"\bL(\d+)", out)]
    rc, out, err = run_cmd(["gcc", "-E", "-undef", "-nostdinc", "-P", "-x", "c"] + d + [p])
    g = "ERR" if rc != 0 else [int(x) for x in re.findall(r"\bL(\d+)", out)]
    os.remove(p)
    return c, g


def expr_src(e):
    return "#if %s\nL1;\n#else\nL0;\n#endif\n" % b" ".join(P.print_expr(0, e)).decode()


MACRO_WITNESS = [
    ("macro:stringize-escapes-apostrophe", ["#define S(x) #x"], "S('a')"),
    ("macro:stringize-whitespace", ["#define S(x) #x"], 'S(== "a")'),
    ("macro:paste-multi-token-argument-not-rescanned", ["#define S(x) #x", "#define C(a,b) x ## a b"], "C(1 S(q), 2)"),
    ("macro:empty-va-args-comma", ["#define F(p, ...) G(p, __VA_ARGS__, __VA_ARGS__)"], "F(1)"),
    ("macro:dot-number-merged", ["#define D(a) a"], "D(x . 42)"),
    ("macro:shift-assign-merged-across-blank", ["#define D(a) a"], "D(x << = 1)"),
    ("macro:function-name-not-joined-in-argument", ["#define F(a,b) b->", "#define ID(x) x", "#define W(y) y"], "W(ID(F)(foo,>))"),
    ("macro:recursive-table-reexpansion", ["#define A(x) B(x)", "#define B(y) A(y) y"], "A(B(1))"),
]


def both_E(tmp, name, src):
    p = os.path.join(tmp, name)
    with open(p, "w") as fh:
        fh.write(src)
    rc, out, err = run_cmd([vlib.CPPCHECK, "-E", "--max-configs=1", "-q", p])
    c = None if ("error:" in err or "error:" in out) else out
    rc, out, err = run_cmd(["gcc", "-E", "-undef", "-nostdinc", "-P", "-x", "c", p])
    g = None if rc != 0 else out
    os.remove(p)
    return c, g


def macro_compare(ct, gt):
    if ct == gt:
        return "same"
    if P.norm_apos(ct) == gt:
        return "apostrophe-escaped"
    if P.norm_ws(ct) == P.norm_ws(gt):
        return "stringize-whitespace"
    # an escaped apostrophe that is stringized again (\\\' in the result): compare without backslashes
    if any("\\\\\\'" in t for t in ct if t.endswith('"')):
        strip = lambda ts: [re.sub(r"[\\\\ \t]+", "", t) if t.endswith('"') and len(t) > 1 else t for t in ts]
        if strip(ct) == strip(gt):
            return "apostrophe-escaped (stringized twice)"
    return "DIFF"


def hash_stream(run, tmp, model, quick):
    rng = run.rng
    n = 240 if quick else 20000
    args = [[b'L"wide"'], [b'u8"a\\"b"'], [b"'a'"], [b"L'\\\\'"]] + [[t.encode("latin-1") for t in P.gen_hash_arg(rng)] for _ in range(n)]
    args = [list(a) for a in dict.fromkeys(tuple(a) for a in args)]
    _, mo, _ = vlib.run_lines([model], [vlib.enc_case([b"hash"] + a) for a in args])
    per = 40
    bad = 0
    for base in range(0, len(args), per):
        chunk = args[base:base + per]
        src = P.macro_source(["#define S(x) #x"], ["S(%s)" % b"".join(a).decode("latin-1") for a in chunk])
        c, g = both_E(tmp, "h.c", src)
        ct = P.split_uses(c, len(chunk)) if c is not None else None
        gt = P.split_uses(g, len(chunk)) if g is not None else None
        for k, a in enumerate(chunk):
            m = vlib.dec_line(mo[base + k])
            ms, mc = m[0].decode("latin-1"), m[1].decode("latin-1")
            cs = ct[k][0] if ct and ct[k] else None
            gs = gt[k][0] if gt and gt[k] else None
            pref = any(re.match(rb"(u8|u|U|L)[\"']", t) for t in a)
            run.count("hash", None, nontrivial=tuple(a) if any(t[:1] in b"\"'LuU" and len(t) > 1 for t in a) else None,
                      bucket="%s%s" % ("prefixed literal" if pref else "plain", "" if ms == mc else ", spelling differs (apostrophe)"))
            if cs == ms and gs == mc:
                continue
            bad += 1
            run.stream("hash")["disagreements"] += 1
            if bad <= 3:
                text = b"".join(a).decode("latin-1")
                run.violation("hash:" + hashlib.sha1(text.encode()).hexdigest()[:12],
                              "#define S(x) #x / S(%s): cppcheck -E %s (model of expandHash: %s), gcc -E %s (6.10.3.2p2: %s)" % (text, cs, ms, gs, mc),
                              {"source": P.macro_source(["#define S(x) #x"], ["S(%s)" % text]), "cppcheck_E": cs, "model_simplecpp": ms, "gcc_E": gs, "model_standard": mc},
                              found_input=(cs != gs and (ms == mc or cs != ms)))


def mx_stream(run, tmp, model, quick):
    """three-way on closed #/##-free macro tables: non-recursive tables must agree everywhere (model = cppcheck = gcc);
    on recursive tables a cppcheck != gcc difference is the known re-expansion finding iff the model sides with gcc"""
    rng = run.rng
    n = 80 if quick else 1200
    jobs = []
    for i in range(n):
        rec = i % 4 == 3
        table, uses = P.gen_mx(rng, rec)
        jobs.append((i, rec, table, uses))

    def job(j):
        i, rec, table, uses = j
        src = P.macro_source(P.mx_defs(table), [P.mx_render(u) for u in uses])
        p = os.path.join(tmp, "x%d.c" % i)
        with open(p, "w") as fh:
            fh.write(src)
        try:
            rc, out, err = run_cmd([vlib.CPPCHECK, "-E", "--max-configs=1", "-q", p], timeout=20)
            c = None if "error:" in err else P.split_uses(out, len(uses))
        except subprocess.TimeoutExpired:
            c = "TIMEOUT"
        rc, out, err = run_cmd(["gcc", "-E", "-undef", "-nostdinc", "-P", "-x", "c", p])
        g = None if rc != 0 else P.split_uses(out, len(uses))
        os.remove(p)
        return c, g, src
    with concurrent.futures.ThreadPoolExecutor(max_workers=6) as ex:
        outs = list(ex.map(job, jobs))
    mres = {}
    for (i, rec, table, uses), (c, g, src) in zip(jobs, outs):
        # one model process per table: an exponential recursive table may exhaust the model's stack
        try:
            rcm, mo, _ = vlib.run_lines([model], [vlib.enc_case(P.mx_case(table, u)) for u in uses], timeout=120)
        except subprocess.TimeoutExpired:
            mo = []
        for k, o in enumerate(mo[:len(uses)]):
            d = vlib.dec_line(o)
            mres[(i, k)] = [x.decode("latin-1") for x in d[1:]] + [";"] if d[:1] == [b"O"] else None
    nbad, known_rec, hang = 0, None, None
    for (i, rec, table, uses), (c, g, src) in zip(jobs, outs):
        if c == "TIMEOUT":
            run.count("mx", None, bucket="cppcheck -E > 20 s (%s table)" % ("recursive" if rec else "non-recursive"))
            hang = hang or (rec, src)
            continue
        for k, u in enumerate(uses):
            if (i, k) not in mres:
                run.count("mx", None, bucket="model resource limit (%s table, not judged)" % ("recursive" if rec else "non-recursive"))
                if not rec:
                    run.violation("mx-model:%d" % i, "the expansion model did not answer on a non-recursive table", {"source": src}, found_input=False)
                continue
            m = mres.get((i, k))
            ct = c[k] if c else None
            gt = g[k] if g else None
            if gt is None:
                run.count("mx", None, bucket="gcc rejects (not judged)")
                continue
            cls = "agree" if (m == ct == gt) else ("model=gcc!=cppcheck" if m == gt else ("model=cppcheck!=gcc" if m == ct else "all differ"))
            run.count("mx", None, nontrivial=(src, k) if any(x[0] == "C" and x[1][0] == "F" for x in u) else None,
                      bucket="%s, %s" % ("recursive" if rec else "non-recursive", cls))
            if cls == "agree":
                continue
            one = P.macro_source(P.mx_defs(table), [P.mx_render(u)])
            if rec and cls == "model=gcc!=cppcheck":
                if known_rec is None or len(one) < len(known_rec[0]):
                    known_rec = (one, ct, gt)
                continue
            nbad += 1
            run.stream("mx")["disagreements"] += 1
            if nbad <= 3:
                run.violation("mx:" + hashlib.sha1(one.encode()).hexdigest()[:12],
                              "macro expansion (%s table): model `%s`, cppcheck -E `%s`, gcc -E `%s`" %
                              ("recursive" if rec else "non-recursive", " ".join(m) if m else None, " ".join(ct) if ct else "error", " ".join(gt)),
                              {"source": one, "model": m, "cppcheck_E": ct, "gcc_E": gt}, found_input=(ct != gt))
    if known_rec:
        one, ct, gt = known_rec
        run.violation("macro:recursive-table-reexpansion", "recursive macro table: cppcheck -E `%s` != gcc -E `%s` (the hide-set model sides with gcc)" %
                      (" ".join(ct)[:300] if ct else "error", " ".join(gt)[:300]), {"source": one, "cppcheck_E": ct, "gcc_E": gt})
    if hang:
        run.notes.append("cppcheck -E did not finish within 20 s on a generated %s macro table" % ("recursive" if hang[0] else "non-recursive"))
        run.extra["mx_cppcheck_timeout_source"] = hang[1][:2000]


def macro_stream(run, tmp, quick):
    rng = run.rng
    # known deviations: fixed witnesses, replayed against gcc on every run
    for key, defs, use in MACRO_WITNESS:
        c, g = both_E(tmp, "w.c", P.macro_source(defs, [use]))
        ct = P.split_uses(c, 1) if c is not None else None
        gt = P.split_uses(g, 1) if g is not None else None
        if gt is not None and (ct is None or ct != gt):
            run.violation(key, "%s / %s : cppcheck -E `%s`, gcc -E `%s`" % ("; ".join(defs), use, " ".join(ct[0]) if ct else "error", " ".join(gt[0])),
                          {"source": P.macro_source(defs, [use]), "cppcheck_E": ct, "gcc_E": gt,
                           "how": "cppcheck -E --max-configs=1 t.c  vs  gcc -E -undef -nostdinc -P t.c"})
    nfiles = 150 if quick else 2000
    files = [P.gen_macro_file(rng) for _ in range(nfiles)]

    def job(idf):
        i, (defs, uses) = idf
        c, g = both_E(tmp, "f%d.c" % i, P.macro_source(defs, uses))
        ct = P.split_uses(c, len(uses)) if c is not None else None
        gt = P.split_uses(g, len(uses)) if g is not None else None
        res = []
        if ct is not None and gt is not None:
            return [(u, a, b) for u, a, b in zip(uses, ct, gt)]
        for k, u in enumerate(uses):             # localise: one use per file
            c, g = both_E(tmp, "f%d_%d.c" % (i, k), P.macro_source(defs, [u]))
            a = P.split_uses(c, 1) if c is not None else None
            b = P.split_uses(g, 1) if g is not None else None
            res.append((u, a[0] if a else None, b[0] if b else None))
        return res
    with concurrent.futures.ThreadPoolExecutor(max_workers=6) as ex:
        outs = list(ex.map(job, enumerate(files)))
    nbad = 0
    for (defs, uses), res in zip(files, outs):
        for u, a, b in res:
            if b is None:
                run.count("macro", None, bucket="gcc rejects (not judged)")
                continue
            cls = "cppcheck error" if a is None else macro_compare(a, b)
            feats = "".join(x for x, y in (("#", " #" in " ".join(defs) or "#p" in " ".join(defs)), ("P", "##" in " ".join(defs)), ("V", "__VA_ARGS__" in " ".join(defs)),
                                            ("L", bool(re.search(r"(?:u8|u|U|L)[\"']", u)))) if y)
            run.count("macro", None, nontrivial=(tuple(defs), u) if "(" in u else None, bucket="%s [%s]" % (cls, feats))
            if cls in ("DIFF", "cppcheck error"):
                nbad += 1
                run.stream("macro")["disagreements"] += 1
                if nbad > 4:
                    continue
                # drop definitions that are not needed for the difference
                keep = list(defs)
                for d in list(defs):
                    trial = [x for x in keep if x != d]
                    c, g = both_E(tmp, "s.c", P.macro_source(trial, [u]))
                    ta = P.split_uses(c, 1) if c is not None else None
                    tb = P.split_uses(g, 1) if g is not None else None
                    if tb is not None and (ta is None or macro_compare(ta[0], tb[0]) == "DIFF"):
                        keep = trial
                src = P.macro_source(keep, [u])
                c, g = both_E(tmp, "s.c", src)
                ta = P.split_uses(c, 1) if c is not None else None
                tb = P.split_uses(g, 1) if g is not None else None
                run.violation("macro:" + hashlib.sha1(src.encode()).hexdigest()[:12],
                              "macro expansion: cppcheck -E `%s` != gcc -E `%s` for %s" % (" ".join(ta[0]) if ta else "error", " ".join(tb[0]) if tb else "?", u[:80]),
                              {"source": src, "cppcheck_E": ta, "gcc_E": tb, "how": "cppcheck -E --max-configs=1 t.c  vs  gcc -E -undef -nostdinc -P t.c"})
    if len(run.samples) < 12 and files:
        run.samples.append({"stream": "macro", "source": P.macro_source(files[0][0], files[0][1])})


def check(run, replay):
    quick = run.tier == "quick"
    rng = run.rng
    run.level = "proof"
    run.trusted_base += [
        "Coq 8.16.1 kernel (coqc); vm_compute only in the deviation witnesses",
        "extraction: Require Extraction + ExtrOcamlBasic only; ocaml/driver.ml",
        "harness/vh_c11.cpp (renders the case as source text, calls Preprocessor::preprocess / simplecpp::preprocess with its IfCond list)",
        "modelled, not verified: simplecpp::preprocess directive loop (ifstates; the nextcond jump is assumed equivalent to stepping through the skipped directives), "
        "evaluate/constFold and its eight passes on decimal literals (optional u suffix), operators and parentheses; long long overflow / out-of-range shifts are "
        "reported as `F` by the model and not compared",
        "the C semantics `ceval` (intmax_t/uintmax_t, 6.6, 6.5.15 common type) is the specification; gcc -E -undef -nostdinc -P is used as oracle on every reported deviation",
        "NOT covered (no model): macro expansion (Macro::expand, #, ##, __VA_ARGS__, __VA_OPT__), #include resolution, -I/--include, __FILE__/__LINE__/__COUNTER__, "
        "sizeof/__has_include/character literals/hex/octal in #if, line splicing, trigraphs",
    ]
    run.assumptions += ["g++ compiles /repo faithfully", "gcc -E is a conforming preprocessor on these sources"]
    run.extra["rule"] = ("cond: files of depth 1-4, 0-3 items per level, groups with #if 0/1, #ifdef/#ifndef, defined(), !defined(), a macro name, 1/0 (p .3 in a third of the files), "
                         "#elif chains (p .35), #else (p .5), 12% made ill-nested by dropping/inserting one directive, each of 5 macros defined with p .4; "
                         "non-trivial = at least one group, distinct case. ifx: trees of depth 1-3 over literals {0,1,2,3,5,7,8,12} (10% with u suffix), 17 binary operators, "
                         "! ~ + -, ?: (p .12), printed with the parentheses the grammar requires; non-trivial = at least two operators, distinct token list")

    vlib.ensure_repo_build()
    ok = run.prove()
    have_model = ok or os.path.exists(os.path.join(vlib.COQ, "theories/PP/Run.vo"))
    if not ok:
        run.violation("proof:" + PID, "Properties_C11.vo does not build: " + str(run.proof_error())[:300],
                      {"broken": "proof", "detail": run.proof_error()}, found_input=False)
    if not have_model:
        return
    model = vlib.build_model(PID)
    vh = vlib.build_harness(PID)
    tmp = tempfile.mkdtemp(prefix="c11_")

    # ---- stream 1: conditional skeleton, model vs real preprocess
    n = 4000 if quick else 150000
    cases = [ELIF_WITNESS] + [P.gen_cond_case(rng) for _ in range(n)]
    cases = [list(c) for c in dict.fromkeys(tuple(c) for c in cases)]
    diffs = vlib.correspond(run, "cond", model, [vh, "cond"], cases, tag="cond", canon=canon_cond,
                            nontrivial=lambda c, m, i: tuple(c) if any(f[:1] == b"I" for f in c[1:]) else None,
                            bucket=lambda c, m, i: ("err" if m == [b"ERR"] else "ok") + ("" if well_formed(c[1:]) else ",ill-nested"))
    for c, m, i in sorted(diffs, key=lambda d: len(d[0]))[:3]:
        src = P.render_cond(c[1:])
        defs = [x.decode() for x in c[0].split(b";") if x]
        cc, g = three_way(tmp, "m.c", src, defs)
        found = well_formed(c[1:]) and cc != g
        run.violation("cond:" + hashlib.sha1(vlib.enc_case(c).encode()).hexdigest()[:12],
                      "conditional inclusion: model %s, real preprocess %s, cppcheck -E %s, gcc -E %s" % (vlib.show(m), vlib.show(i), cc, g),
                      {"source": src, "defines": defs, "model": vlib.show(m), "real": vlib.show(i), "cppcheck_E": cc, "gcc_E": g,
                       "how": "cppcheck -E --max-configs=1 -D... t.c  vs  gcc -E -undef -nostdinc -P -D... t.c"}, found_input=found)
    # the specification on the implementation (well-formed files only)
    _, io, _ = vlib.run_lines([vh, "cond"], [vlib.enc_case(c) for c in cases])
    ndev, unexplained = 0, []
    for c, o in zip(cases, io):
        if not well_formed(c[1:]):
            continue
        defs = set(x for x in c[0].split(b";") if x)
        sp = spec_cond(c[1:], defs)
        im = canon_cond(vlib.dec_line(o))
        imv = "ERR" if im == [b"ERR"] else [int(x) for x in im[1:]]
        run.count("cond-spec", None, nontrivial=tuple(c), bucket="deviates" if imv != sp else "agrees")
        if imv != sp:
            ndev += 1
            # known cause: an #elif that a conforming preprocessor skips is evaluated and fails
            c2 = [c[0]] + [b"E0" if f == b"EZ" else f for f in c[1:]]
            _, o2, _ = vlib.run_lines([vh, "cond"], [vlib.enc_case(c2)])
            im2 = canon_cond(vlib.dec_line(o2[0]))
            imv2 = "ERR" if im2 == [b"ERR"] else [int(x) for x in im2[1:]]
            if not (imv == "ERR" and imv2 == sp):
                unexplained.append((c, sp, imv))
    run.stream("cond-spec")["disagreements"] = ndev
    cc, g = three_way(tmp, "w.c", P.render_cond(ELIF_WITNESS[1:]))
    if cc != g:
        run.violation("cond:elif-evaluated-after-taken-group", "#if 1 / L7; / #elif 1/0 / L8; / #endif / L9;  cppcheck -E: %s, gcc -E: %s" % (cc, g),
                      {"source": P.render_cond(ELIF_WITNESS[1:]), "cppcheck_E": cc, "gcc_E": g})
    for c, sp, imv in unexplained[:2]:
        src = P.render_cond(c[1:])
        defs = [x.decode() for x in c[0].split(b";") if x]
        cc, g = three_way(tmp, "u.c", src, defs)
        run.violation("condspec:" + hashlib.sha1(vlib.enc_case(c).encode()).hexdigest()[:12],
                      "conditional inclusion deviates from C 6.10.1: expected %s, real preprocess %s (cppcheck -E %s, gcc -E %s)" % (sp, imv, cc, g),
                      {"source": src, "defines": defs, "expected": sp, "real": imv, "cppcheck_E": cc, "gcc_E": g}, found_input=(cc != g))

    # ---- stream 2: #if evaluator, model vs real evaluate()
    n = 6000 if quick else 300000
    exprs = [w for _, w in WITNESS] + [P.gen_expr(rng, rng.randint(1, 3)) for _ in range(n)]
    seen, ue = set(), []
    for e in exprs:
        k = tuple(P.print_expr(0, e))
        if k not in seen:
            seen.add(k)
            ue.append(e)
    ecases = [P.expr_case(e) for e in ue]
    cv = lambda x: x[:2] if x and x[0] == b"V" else x[:1]
    diffs = vlib.correspond(run, "ifx", model, [vh, "ifx"], ecases, tag="ifx", canon=cv,
                            nontrivial=lambda c, m, i: tuple(c[1:1 + int(c[0])]) if m != [b"F"] and sum(1 for t in c[1:1 + int(c[0])] if not t[:1].isdigit() and t not in (b"(", b")")) >= 2 else None,
                            bucket=lambda c, m, i: {b"V": "value", b"X": "exception", b"F": "range(not compared)"}.get(m[0] if m else b"?", "?"))
    real = [d for d in diffs if d[1] != [b"F"]]
    run.stream("ifx")["disagreements"] = len(real)
    for c, m, i in sorted(real, key=lambda d: len(d[0]))[:3]:
        text = b" ".join(c[1:1 + int(c[0])]).decode()
        run.violation("ifx:" + hashlib.sha1(text.encode()).hexdigest()[:12], "#if %s: model %s, simplecpp %s" % (text, vlib.show(m), vlib.show(i)),
                      {"expression": text, "model": vlib.show(m), "real": vlib.show(i), "how": "echo '%s' | build/harness/vh_c11 ifx" % vlib.enc_case(c)},
                      found_input=False)

    # ---- the specification (C 6.6) on the implementation
    def deviations(es):
        cs = [P.expr_case(e) for e in es]
        _, io, _ = vlib.run_lines([vh, "ifx"], [vlib.enc_case(c) for c in cs])
        _, so, _ = vlib.run_lines([model], [vlib.enc_case([b"spec"] + c) for c in cs])
        res = []
        for e, a, b in zip(es, io, so):
            im, sp = vlib.dec_line(a), vlib.dec_line(b)
            if sp[:1] != [b"1"] or len(sp) < 2:
                res.append(None)                      # printer mismatch / malformed: not judged
                continue
            if sp[1] == b"U":
                res.append(None)                      # undefined in C
                continue
            want = "ERR" if sp[1] == b"D" else (int(sp[2]) != 0)
            got = "ERR" if im[:1] == [b"X"] else (int(im[1]) != 0 if im[:1] == [b"V"] else "?")
            res.append((want, got) if want != got else False)
        return res

    dv = deviations(ue)
    by_key = {}
    judged = 0
    for e, d in zip(ue, dv):
        if d is None:
            continue
        judged += 1
        run.count("ifx-spec", None, nontrivial=tuple(P.print_expr(0, e)), bucket="deviates" if d else "agrees")
        if d:
            by_key.setdefault(None, []).append(e)
    devs = by_key.pop(None, [])
    run.stream("ifx-spec")["disagreements"] = len(devs)
    # shrink a bounded number of deviating expressions and name the cause
    causes = {}
    for e in sorted(devs, key=lambda x: len(P.print_expr(0, x)))[:(60 if quick else 400)]:
        cur = e
        for _ in range(40):
            cands = P.shrink_expr(cur)
            if not cands:
                break
            r = deviations(cands)
            nxt = next((c for c, d in zip(cands, r) if d), None)
            if nxt is None:
                break
            cur = nxt
        causes.setdefault(classify(cur), cur)
    run.extra["ifx_deviating_expressions"] = len(devs)
    run.extra["ifx_minimal_deviations"] = {k: b" ".join(P.print_expr(0, v)).decode() for k, v in causes.items()}
    reps = dict((k, w) for k, w in reversed(WITNESS))
    reps.update({k: v for k, v in causes.items() if k not in reps})
    for key, e in sorted(reps.items()):
        src = expr_src(e)
        cc, g = three_way(tmp, "e.c", src)
        text = b" ".join(P.print_expr(0, e)).decode()
        if cc != g:
            run.violation(key, "#if %s: cppcheck -E keeps %s, gcc -E keeps %s (L1 = group taken)" % (text, cc, g),
                          {"source": src, "cppcheck_E": cc, "gcc_E": g, "how": "cppcheck -E --max-configs=1 t.c  vs  gcc -E -undef -nostdinc -P t.c"})
        elif key in causes:
            run.violation("ifxspec:" + key, "#if %s: simplecpp deviates from the model's C semantics but gcc agrees with cppcheck" % text,
                          {"source": src, "cppcheck_E": cc, "gcc_E": g}, found_input=False)

    # ---- stream M: macro expansion, differential only (no model): cppcheck -E vs gcc -E, token by token
    macro_stream(run, tmp, quick)

    # ---- stream HASH: the stringizing model vs cppcheck -E (simplecpp's spelling) and gcc -E (the standard's)
    hash_stream(run, tmp, model, quick)

    # ---- stream MX: #/##-free closed fragment, extracted expansion model vs cppcheck -E vs gcc -E
    mx_stream(run, tmp, model, quick)

    # ---- stream 3: cppcheck -E and gcc -E on a sample (3-way with the model)
    n = 60 if quick else 1500
    sample = [c for c in cases if well_formed(c[1:])][:n]
    _, mo, _ = vlib.run_lines([model], [vlib.enc_case([b"cond"] + c) for c in sample])

    def job(ic):
        i, c = ic
        return three_way(tmp, "s%d.c" % i, P.render_cond(c[1:]), [x.decode() for x in c[0].split(b";") if x])
    with concurrent.futures.ThreadPoolExecutor(max_workers=6) as ex:
        outs = list(ex.map(job, enumerate(sample)))
    for c, o, (cc, g) in zip(sample, mo, outs):
        m = canon_cond(vlib.dec_line(o))
        mv = "ERR" if m == [b"ERR"] else [int(x) for x in m[1:]]
        run.count("cppcheck-E", None, nontrivial=tuple(c), bucket=("=gcc" if cc == g else "!=gcc"))
        if cc != mv:
            run.stream("cppcheck-E")["disagreements"] += 1
            run.violation("binary:" + hashlib.sha1(vlib.enc_case(c).encode()).hexdigest()[:12],
                          "cppcheck -E %s differs from the model %s (gcc %s)" % (cc, mv, g),
                          {"source": P.render_cond(c[1:]), "defines": vlib.show(c[0]), "cppcheck_E": cc, "model": mv, "gcc_E": g}, found_input=(cc != g))
        elif cc != g and not (cc == "ERR" and any(f == b"EZ" for f in c[1:])):
            run.violation("binarygcc:" + hashlib.sha1(vlib.enc_case(c).encode()).hexdigest()[:12],
                          "cppcheck -E %s != gcc -E %s" % (cc, g), {"source": P.render_cond(c[1:]), "defines": vlib.show(c[0]), "cppcheck_E": cc, "gcc_E": g})
    if len(run.samples) < 12:
        run.samples.append({"stream": "ifx-spec", "minimal_deviations": run.extra["ifx_minimal_deviations"]})
    try:
        os.rmdir(tmp)
    except OSError:
        pass


if __name__ == "__main__":
    vlib.main(check, PID)
