"""Case generators and comparators for the suppression model (C23, C24, C25).

All random choices come from run.rng (seeded by VERIF_SEED). Generators aim at
the case splits of Supp/Proofs.v: each criterion (line, this-and-next-line,
file, hash, id glob, block range, symbol glob, macro) is made to hold or fail
independently, on small domains so that hits and near-misses are both common.
"""
import itertools

IDS = [b"nullPointer", b"uninitvar", b"zerodiv", b"memleak", b"unmatchedSuppression", b"a", b"ab", b""]
ID_PATTERNS = [b"nullPointer", b"null*", b"*Pointer", b"**Pointer", b"*", b"**", b"uninit*", b"*var", b"*i*",
               b"zerodiv", b"memleak", b"unmatchedSuppression", b"a", b"a*", b"*b", b"a*b", b"**b", b"*a*", b""]
FILES = [b"a.c", b"b.c", b"x.h", b""]
# finding / analysed file names (PathMatch::match is C31's pm_model in the model): plain, with
# directories, with . and .. components, absolute
PATHS = [b"a.c", b"b.c", b"x.h", b"src/a.c", b"src/sub/b.c", b"src/../a.c", b"./b.c", b"inc/x.h", b"/abs/a.c", b"src/./sub/../a.c",
         # near misses: a suppression's file name is a character suffix/prefix of these, but not at a component boundary
         b"ba.c", b"xa.c", b"src/bb.c", b"xsrc/a.c", b"lib/xsub/b.c", b"a.cc", b"src/a.c.bak", b"/x/abs/a.c", b"ax.h", b"srcx/a.c"]
# suppression file names: the above (local) and wildcard patterns (global)
FILE_PATTERNS = [b"", b"a.c", b"b.c", b"x.h", b"src/a.c", b"sub/b.c", b"src/sub/b.c", b"src/../a.c", b"./b.c", b"/abs/a.c", b"src/",
                 b"*.c", b"src/*", b"*/a.c", b"**/b.c", b"src/**", b"?.c", b"a.*", b"*", b"inc/*.h", b"src/*/b.c", b"s?c/a.c", b"**.h"]
SYMS = [b"", b"foo\n", b"foo\nbar\n", b"bar", b"f\n\nb\n", b"\n"]
SYM_PATTERNS = [b"", b"foo", b"f*", b"*?", b"b?r", b"*", b"**r", b"?*o", b"x"]
MACROS = [b"M", b"N", b"ASSERT"]
TEXTS = [b"m1", b"m2", b"m3", b"", b"m1"]


def gen_glob_pair(rng):
    k = rng.random()
    if k < 0.15:
        return rng.choice(ID_PATTERNS), rng.choice(IDS)
    alpha_p = b"ab*?." if k < 0.9 else bytes(range(0, 256))
    alpha_n = b"ab.*?" if k < 0.9 else bytes(range(0, 256))
    wp = [3, 3, 4, 2, 1] if k < 0.9 else None
    p = bytes(rng.choices(alpha_p, weights=wp, k=rng.randint(0, 8)))
    if rng.random() < 0.5 and p:
        # derive a name that probably matches: expand wildcards
        n = b""
        for c in p:
            if c == 0x2a:
                n += bytes(rng.choices(b"ab.", k=rng.randint(0, 3)))
            elif c == 0x3f:
                n += bytes([rng.choice(b"ab.")])
            else:
                n += bytes([c])
        if rng.random() < 0.3 and n:
            i = rng.randrange(len(n))
            n = n[:i] + bytes([rng.choice(b"ab.")]) + n[i + 1:]
    else:
        n = bytes(rng.choices(alpha_n, k=rng.randint(0, 8)))
    return p, n


def exhaustive_glob(maxlen):
    alpha = b"ab*?"
    for lp in range(maxlen + 1):
        for p in itertools.product(alpha, repeat=lp):
            for ln in range(maxlen + 1):
                for n in itertools.product(b"ab", repeat=ln):
                    yield bytes(p), bytes(n)


def gen_supp(rng, for_list=False, flags=False):
    """fields: id file line begin end type symbol macro hash next inline matched checked"""
    ty = rng.choices([0, 1, 2, 3, 4, 5], weights=[8, 2, 4, 1, 1, 3])[0]
    sid = rng.choice(ID_PATTERNS)
    if for_list and sid == b"":
        sid = b"*"
    f = rng.choice(FILES) if rng.random() < 0.4 else rng.choice(FILE_PATTERNS)
    line = rng.choice([-1, -1, 1, 2, 3])
    bg = rng.choice([-1, 1, 2])
    en = rng.choice([-1, 2, 3, 4])
    sym = rng.choice(SYM_PATTERNS) if rng.random() < 0.4 else b""
    mac = rng.choice(MACROS) if ty == 5 else b""
    h = rng.choice([0, 0, 0, 7, 9])
    nxt = rng.random() < 0.25
    inl = rng.random() < 0.3
    mt = flags and rng.random() < 0.3
    ck = flags and rng.random() < 0.4
    return [sid, f, line, bg, en, ty, sym, mac, h, nxt, inl, mt, ck]


def gen_emsg(rng, plain_symbols=False, macros=True):
    """fields: hash id file line symbols nmacros macros..."""
    ms = sorted(set(rng.choices(MACROS, k=rng.randint(0, 2)))) if macros and rng.random() < 0.5 else []
    syms = rng.choice([b"", b"foo\n", b"foo\nbar\n", b"bar\n"]) if plain_symbols else rng.choice(SYMS)
    return [rng.choice([0, 7, 9]), rng.choice(IDS[:7] if plain_symbols else IDS), rng.choice(FILES[:3]) if rng.random() < 0.4 else rng.choice(PATHS),
            rng.choice([1, 2, 3, 4]), syms, len(ms)] + ms


def supp_key(s):
    # Suppression::isSameParameters
    return (s[0], s[1], s[2], s[6], s[8], s[9])


def gen_supp_list(rng, n, **kw):
    out, seen = [], set()
    for _ in range(n * 3):
        if len(out) >= n:
            break
        s = gen_supp(rng, for_list=True, **kw)
        if supp_key(s) in seen:
            continue
        seen.add(supp_key(s))
        out.append(s)
    return out


def flat(ls):
    return [len(ls)] + [x for s in ls for x in s]


def gen_list_case(rng):
    ss = gen_supp_list(rng, rng.randint(0, 5))
    es = []
    for _ in range(rng.randint(1, 6)):
        es.append(gen_emsg(rng) + [rng.random() < 0.7])
    return flat(ss) + flat(es), len(ss), len(es)


def gen_logger_case(rng):
    nomsg = gen_supp_list(rng, rng.randint(0, 4))
    nofail = gen_supp_list(rng, rng.randint(0, 3))
    ms = []
    for _ in range(rng.randint(1, 8)):
        ms.append(gen_emsg(rng, plain_symbols=True, macros=False) + [rng.choice(TEXTS)])
    g = rng.random() < 0.7
    return [g] + flat(nomsg) + flat(nofail) + flat(ms), len(nomsg), len(nofail), len(ms)


# ------------------------------------------------------------------ how suppressions are given
P_IDS = [b"nullPointer", b"uninitvar", b"*", b"null*", b"a", b"misra-c2012-10.1", b"", b"9lives", b"a b", b"a***", b"*?", b"id#1", b"x.y"]
P_FILES = [b"a.c", b"src/f.cpp", b"c:/x/Makefile", b"c:/x/f.c", b"dir.d/Makefile", b"a.b:c", b"x:y.c", b"f#1.c", b"a//b.c", b"./a.c",
           b"src/../a.c", b"*.c", b"src/**", b"a***.c", b"Makefile", b" a.c", b"a.c ", b""]
P_LINES = [b"1", b"10", b"+3", b"-2", b"007", b"0", b"", b" 5", b"5 ", b"2147483647", b"2147483648", b"-2147483648", b"-2147483649",
           b"x", b"1.5", b"0x10", b"12a", b"-", b"+", b"99999999999999999999", b"-0", b"+0", b"00"]
P_TAILS = [b"", b"", b"", b" # c", b" // c", b"#c", b"\t//x", b"  \t # a:b.c", b" //", b"#"]
P_EXTRAS = [b"", b"", b"", b"\nsymbol=foo", b"\nsymbol=", b"\npolyspace=1", b"\nbogus", b"\nsymbol=a\npolyspace=1", b"\nsymbol=a#b", b"\n"]


def gen_pline(rng, extras=True):
    if rng.random() < 0.25:
        return bytes(rng.choices(b":.#/a1 \t\n-+*", weights=[4, 3, 1, 3, 4, 3, 2, 1, 1 if extras else 0, 1, 1, 1], k=rng.randint(0, 10)))
    l = rng.choice(P_IDS)
    r = rng.random()
    if r < 0.75:
        l += b":" + rng.choice(P_FILES)
        if rng.random() < 0.5:
            l += b":" + rng.choice(P_LINES)
    l += rng.choice(P_TAILS)
    if extras:
        l += rng.choice(P_EXTRAS)
    return l


def gen_pfile(rng):
    out = b""
    for _ in range(rng.randint(0, 6)):
        k = rng.random()
        if k < 0.2:
            out += gen_pline(rng, extras=False)
        elif k < 0.55:
            out += rng.choice(IDS[:4]) + rng.choice([b"", b":a.c", b":src/b.c", b":b.c:3", b":*.c", b":c.c:12"]) + rng.choice(P_TAILS)
        elif k < 0.7:
            out += rng.choice([b"# comment", b"   // c", b"\t#x", b"//", b" / /x", b"#"])
        elif k < 0.85:
            out += rng.choice([b"", b" ", b"\t \t", b"\x0b\x0c"])
        else:
            out += rng.choice([b"uninitvar", b"memleak:a.c", b"zerodiv:b.c:3"])
        out += rng.choice([b"\n", b"\n", b"\r\n", b"\r", b"\n\n", b"\n\r"])
    if out and rng.random() < 0.3:
        out = out.rstrip(b"\r\n")
    return out


C_KW = [b"cppcheck-suppress", b"cppcheck-suppress", b"cppcheck-suppress-begin", b"cppcheck-suppress-end", b"cppcheck-suppress-file",
        b"cppcheck-suppress-macro", b"cppcheck-suppres", b"cppcheck-suppress-foo", b"cppcheck-suppress[", b"CPPCHECK-SUPPRESS", b"cppcheck-suppress-"]
C_ATTR = [b"symbolName=foo", b"symbolName=", b"symbolName=a,b", b"bogus", b"//", b"+", b"-*/", b"; note", b"// note", b";", b"symbolname=x",
          b"symbolName=x;y", b"#", b"\xc3\xa4 text", b"; \xc3\xa4x \t"]


def gen_pcomment(rng):
    if rng.random() < 0.1:
        return rng.choice([b"//", b"/**/", b"// ", b"/* */", b"//x", b"// cppcheck-suppress", b"//cppcheck-suppress "])
    c = rng.choice([b"//", b"//", b"//", b"/*", b"/*", b"///", b"/**"])
    c += rng.choice([b" ", b"", b"  ", b"\t", b" \t "])
    c += rng.choice(C_KW[:6]) if rng.random() < 0.8 else rng.choice(C_KW)
    c += rng.choice([b" ", b" ", b" ", b"  ", b"\t", b""])
    c += rng.choice([b"nullPointer", b"a", b"*", b"nullPointer", b"uninitvar", b"", b"id;x", b"a//b", b"[a,b]"])
    for _ in range(rng.randint(0, 3)):
        c += rng.choice([b" ", b"  ", b"\t", b""]) + rng.choice(C_ATTR)
    if c.startswith(b"/*"):
        c += rng.choice([b" */", b"*/", b" */ ", b""])
    return c


M_ITEMS = [b"a", b"  b ", b"c symbolName=x", b"", b" ", b"d bogus", b"e ; x", b"nullPointer", b"f\tsymbolName=y  symbolName=z", b"g +", b"h // c", b"*"]


def gen_pmulti(rng):
    c = rng.choice([b"// cppcheck-suppress[", b"// cppcheck-suppress[", b"/* cppcheck-suppress-begin[", b"// cppcheck-suppress [", b"// cppcheck-suppress", b"//[", b"[["])
    items = M_ITEMS if rng.random() < 0.4 else [b"a", b"  b ", b"c symbolName=x", b"nullPointer", b"", b"g +", b"*", b"f\tsymbolName=y  symbolName=z"]
    c += b",".join(rng.choice(items) for _ in range(rng.randint(0, 4)))
    c += rng.choice([b"]", b"]", b"]", b"]", b"", b"] trailing, x", b"]]", b" ]", b"] */"])
    return c


def gen_pairing(rng):
    """source with begin/end comments only; returns (source, model case fields)"""
    lines = [b"void f(void) {"]
    events = []
    pending = []
    for _ in range(rng.randint(1, 9)):
        k = rng.random()
        if k < 0.3:
            lines.append(b"    x;")
            continue
        if k < 0.42:
            # two C comments on one line: an end cannot close a begin of its own line
            i1, i2 = rng.choice([b"a", b"b"]), rng.choice([b"a", b"b"])
            first_end = rng.random() < 0.3
            kws = [b"cppcheck-suppress-end", b"cppcheck-suppress-begin"] if first_end else [b"cppcheck-suppress-begin", b"cppcheck-suppress-end"]
            lines.append(b"    /* " + kws[0] + b" " + i1 + b" */ /* " + kws[1] + b" " + i2 + b" */")
            events.append([first_end, i1, b"", len(lines)])
            events.append([not first_end, i2, b"", len(lines)])
            if first_end:
                pending = pending[:-1] + [(i2, b"")]
            else:
                pending = pending + [(i1, b"")]
            continue
        end = rng.random() < (0.7 if pending else 0.15)
        kw = b"cppcheck-suppress-end" if end else b"cppcheck-suppress-begin"
        items = [(rng.choice([b"a", b"a", b"b", b"c"]), rng.choice([b"", b"", b"", b"s", b"t"])) for _ in range(rng.choice([1, 1, 1, 2, 3]))]
        if end and pending and rng.random() < 0.75:
            items = [pending[-1]] if rng.random() < 0.7 else list(pending[-2:])
        pending = pending[:-len(items)] if end else pending + items
        if len(items) == 1 and rng.random() < 0.7:
            i, sy = items[0]
            c = b"// " + kw + b" " + i + (b" symbolName=" + sy if sy else b"")
        else:
            c = b"// " + kw + rng.choice([b"[", b" ["]) + b",".join(i + (b" symbolName=" + sy if sy else b"") for i, sy in items) + b"]"
        if rng.random() < 0.25:
            c = b"    x; " + c
        lines.append(c)
        for i, sy in items:
            events.append([end, i, sy, len(lines)])
    lines.append(b"}")
    return b"\n".join(lines) + b"\n", flat(events)


D_KW = [b"cppcheck-suppress", b"cppcheck-suppress", b"cppcheck-suppress-begin", b"cppcheck-suppress-end", b"cppcheck-suppress-file",
        b"cppcheck-suppress-macro", b"cppcheck-suppress-foo", b"cppcheck-suppressx", b"cppcheck-suppress-", b"cppcheck-suppres", b"cppcheck-suppress\t"]


def gen_dispatch(rng):
    """one comment (a single comment token: // to the end of the line, or a closed /* */)"""
    c_style = rng.random() < 0.25
    c = b"/*" if c_style else rng.choice([b"//", b"//", b"///", b"// *"])
    c += rng.choice([b" ", b"", b"  ", b"\t", b" \t "])
    c += rng.choice([D_KW[0], D_KW[0], D_KW[5]] + D_KW[:6]) if rng.random() < 0.75 else rng.choice(D_KW)
    form = rng.random()
    if form < 0.1:
        pass
    elif form < 0.55:
        c += rng.choice([b" ", b" ", b"  ", b"", b"\t"])
        c += rng.choice([b"nullPointer", b"a", b"*", b"uninitvar", b"", b"id;x", b"a//b", b"9x", b"a$"])
        for _ in range(rng.randint(0, 2)):
            c += rng.choice([b" ", b"  ", b"\t"]) + rng.choice(C_ATTR[:12])
    else:
        c += rng.choice([b"[", b" [", b"  [", b"["])
        items = [b"a", b"  b ", b"c symbolName=x", b"nullPointer", b"", b"a", b"g +", b"*", b"d bogus", b"9x", b" "]
        c += b",".join(rng.choice(items) for _ in range(rng.randint(0, 4)))
        c += rng.choice([b"]", b"]", b"]", b"", b"] note", b"] ; x"])
    if c_style:
        c = c.replace(b"*/", b"* /") + rng.choice([b" */", b"*/"])
    return c


import re
_TOK = re.compile(rb"//[^\n]*|/\*.*?\*/|[A-Za-z_][A-Za-z_0-9]*|[0-9]+|\S")


def tokenize_lines(lines):
    """the simplecpp tokens of the simple generated lines: (line, is_comment, text)"""
    out = []
    for n, l in enumerate(lines, 1):
        for m in _TOK.finditer(l):
            t = m.group(0)
            out.append([n, t.startswith(b"//") or t.startswith(b"/*"), t])
    return out


I_COMMENTS = [b"// cppcheck-suppress a", b"// cppcheck-suppress b symbolName=s", b"// cppcheck-suppress[a,b]", b"/* cppcheck-suppress c */",
              b"// cppcheck-suppress-begin a", b"// cppcheck-suppress-end a", b"// cppcheck-suppress-begin [a,b]", b"// cppcheck-suppress-end [a,b]",
              b"// cppcheck-suppress-file f", b"// cppcheck-suppress-macro m", b"// plain comment", b"// cppcheck-suppress", b"// cppcheck-suppress-foo x",
              b"// cppcheck-suppress a bogus", b"/* cppcheck-suppress-end b */", b"// cppcheck-suppress []"]
I_CODE = [b"    x;", b"    y = 1;", b"{", b"}", b"    if (x) {", b"#define M(q) q", b"    z"]


def gen_inline_source(rng):
    lines = []
    if rng.random() < 0.3:
        for _ in range(rng.randint(1, 2)):
            lines.append(rng.choice([b"// cppcheck-suppress-file f", b"// cppcheck-suppress-file [f,g]", b"// note", b"", b"// cppcheck-suppress a"]))
    if rng.random() < 0.8:
        lines.append(b"void f(void) {")
    for _ in range(rng.randint(1, 8)):
        k = rng.random()
        if k < 0.35:
            lines.append(rng.choice(I_CODE))
        elif k < 0.7:
            lines.append(b"    " + rng.choice(I_COMMENTS))
        elif k < 0.85:
            lines.append(rng.choice(I_CODE[:5]) + b" " + rng.choice(I_COMMENTS))
        elif k < 0.92:
            lines.append(b"")
        else:
            lines.append(b"    /* cppcheck-suppress a */ " + rng.choice(I_COMMENTS))
    if rng.random() < 0.7:
        lines.append(b"}")
    return lines
