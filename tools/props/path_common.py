"""Generators for C31 (path matching / file selection)."""
import itertools
import os

ALPHA = [b"a", b"b", b".", b"/", b"*", b"?"]
PALPHA = [b"a", b"b", b".", b"/"]
BASES = [b"", b"/r", b"/r/a", b"/a/b", b"r", b"/", b"/r/", b"a/..", b"/r/../a"]
EXTS = [b".c", b".cpp", b".C", b".h", b".cl", b".cc", b".txt", b".CPP", b".hpp", b".c++", b".Cl", b".ixx", b".H", b"", b".", b".c.bak", b".tpp"]


def pieces(rng, wild):
    toks = [b"a", b"b", b"ab", b".", b"..", b"/", b"/", b"a.c", b"b.c", b"x", b"./", b"../", b"//", b"/./", b"/../"]
    if wild:
        toks += [b"*", b"**", b"?", b"*", b"?*", b"*?", b"***", b"*.c", b"**/", b"/**", b"?a"]
    return toks


def gen_str(rng, wild, maxtok=6):
    toks = pieces(rng, wild)
    n = rng.randint(0, maxtok)
    s = b"".join(rng.choice(toks) for _ in range(n))
    if rng.random() < 0.03:
        k = rng.randint(0, len(s))
        s = s[:k] + bytes([rng.choice([0, 92, 32, 255, 63, 42])]) + s[k:]
    return s


def gen_pm_case(rng):
    """pattern path base mode syntax; half of the paths are derived from the pattern"""
    pattern = gen_str(rng, True)
    base = rng.choice(BASES) if rng.random() < 0.7 else gen_str(rng, False, 3)
    r = rng.random()
    if r < 0.5:
        # instantiate the wildcards, maybe prepend / append components
        path = b""
        for ch in pattern:
            c = bytes([ch])
            if c == b"*":
                path += rng.choice([b"", b"a", b"ab", b"b/a", b"/", b"?", b"a.c"])
            elif c == b"?":
                path += rng.choice([b"a", b"b", b"/", b"?", b"."])
            else:
                path += c
        if rng.random() < 0.4:
            path = rng.choice([b"a/", b"/r/", b"b/a/", b"x/", b"./", b"../"]) + path
        if rng.random() < 0.4:
            path += rng.choice([b"/a", b"/a.c", b"/b/a.c", b"a", b"/"])
    elif r < 0.6:
        path = pattern
    else:
        path = gen_str(rng, rng.random() < 0.15)
    mode = b"d" if rng.random() < 0.3 else b"f"
    return [pattern, path, base, mode, b"u"]


def exhaustive_strings(alpha, maxlen):
    for n in range(0, maxlen + 1):
        for t in itertools.product(alpha, repeat=n):
            yield b"".join(t)


def exhaustive_pm(maxp, maxt):
    """all patterns over ALPHA up to maxp x all paths over PALPHA up to maxt, empty base, both modes"""
    paths = list(exhaustive_strings(PALPHA, maxt))
    for p in exhaustive_strings(ALPHA, maxp):
        for t in paths:
            yield [p, t, b"", b"f", b"u"]
            if p.endswith(b"/"):
                yield [p, t, b"", b"d", b"u"]


def gen_iter_case(rng):
    a = gen_str(rng, rng.random() < 0.2, 5)
    b = gen_str(rng, rng.random() < 0.2, 5) if rng.random() < 0.6 else b""
    if rng.random() < 0.3 and not a.startswith(b"/"):
        a = b"/" + a
    return [a, b, b"u"]


def gen_simplify_case(rng):
    toks = [b"a", b"b", b"ab", b".", b"..", b"/", b"/", b"x.c", b"./", b"../", b"//", b"/./", b"/../", b"\\", b"...", b".a"]
    n = rng.randint(0, 7)
    return [b"".join(rng.choice(toks) for _ in range(n))]


def gen_accept_case(rng):
    stem = rng.choice([b"a", b"dir/a", b"a.b/c", b"x.y", b"", b".", b"d.c/e", b"A"])
    ext = rng.choice(EXTS)
    if rng.random() < 0.2:
        ext = bytes(rng.choice([c, c ^ 32]) if 65 <= (c & ~32) <= 90 else c for c in ext)
    path = stem + ext
    ne = rng.choice([0, 0, 1, 2])
    extra = [rng.choice([b".txt", b".qml", b".c.bak", b".CPP", b"", b".bak", b".h"]) for _ in range(ne)]
    return [path, str(ne).encode()] + extra


# ----------------------------------------------------------------- directory trees
NAMES_F = [b"a.c", b"b.c", b"a.cpp", b"m.C", b"h.h", b"n.txt", b"x y.c", b"q.c++", b"a.b.c", b".c", b"up.CPP", b"k.cl", b"noext", b"t.hpp", b"z$.cc", b"-d.c"]
NAMES_D = [b"src", b"sub", b"a", b"b", b"a.c", b"lib", b"t st", b".hid", b"x.d"]


def gen_tree(rng, depth=0, name=b"top"):
    """('D', name, [children]) / ('F', name); names unique per directory"""
    kids = []
    used = set()
    nk = rng.randint(1 if depth else 3, 6 if depth < 2 else 3)
    for _ in range(nk):
        if depth < 3 and rng.random() < 0.4:
            n = rng.choice(NAMES_D)
            if n in used:
                continue
            used.add(n)
            kids.append(gen_tree(rng, depth + 1, n))
        else:
            n = rng.choice(NAMES_F)
            if n in used:
                continue
            used.add(n)
            kids.append(("F", n))
    return ("D", name, kids)


def tree_fields(t):
    if t[0] == "F":
        return [b"F", t[1]]
    out = [b"D", t[1], str(len(t[2])).encode()]
    for k in t[2]:
        out += tree_fields(k)
    return out


def materialise(t, parent):
    p = os.path.join(os.fsencode(parent), t[1])
    if t[0] == "F":
        with open(p, "wb") as f:
            f.write(b"\n")
    else:
        os.makedirs(p, exist_ok=True)
        for k in t[2]:
            materialise(k, p)


def all_paths(t, prefix=b""):
    p = prefix + t[1]
    if t[0] == "F":
        return [(p, False)]
    out = [(p, True)]
    for k in t[2]:
        out += all_paths(k, p + b"/")
    return out


def subtree(t, rel):
    """node of t reached by the relative component list rel"""
    for c in rel:
        nxt = [k for k in t[2] if k[1] == c] if t[0] == "D" else []
        if not nxt:
            return None
        t = nxt[0]
    return t


def gen_pattern_for(rng, paths):
    """an -i / --file-filter pattern aimed at the given tree paths"""
    p, isdir = rng.choice(paths)
    comps = p.split(b"/")
    if len(comps) > 1 and rng.random() < 0.85:
        comps = comps[1:]       # mostly aim below the top directory
    r = rng.random()
    if r < 0.2:
        pat = rng.choice(comps)
    elif r < 0.35:
        pat = b"/".join(comps[rng.randint(0, len(comps) - 1):])
    elif r < 0.45:
        pat = p
    elif r < 0.55:
        pat = b"./" + p
    elif r < 0.7:
        pat = rng.choice([b"*.c", b"*.cpp", b"a*", b"s*", b"**/sub", b"*/a.c", b"?.c", b"**.c", b"top/*/*.c", b"top/*/**", b"s?b", b"*b/*", b"*.c++", b"**/a.c", b"lib/**"])
    elif r < 0.8:
        c = rng.choice(comps)
        k = rng.randint(0, len(c))
        pat = c[:k] + b"*"
    elif r < 0.9:
        c = rng.choice(comps)
        k = rng.randint(0, max(0, len(c) - 1))
        pat = c[:k] + b"?" + c[k + 1:]
    else:
        pat = rng.choice(comps) + b"/" + rng.choice([b"*", b"**", b"*.c"])
    if rng.random() < 0.2:
        pat += b"/"
    if pat.startswith(b"-"):
        pat = b"./" + pat
    return pat


# ----------------------------------------------------------------- windows syntax
WTOKS = [b"a", b"B", b"Ab", b".", b"..", b"/", b"\\", b"a.C", b"x", b"./", b"..\\", b"//", b"\\\\", b"/./", b"\\..\\", b"c:", b"C:\\", b"?", b":"]
WBASES = [b"", b"C:\\r", b"c:/R/a", b"\\\\srv\\share", b"//./C:/", b"\\\\?\\", b"/r", b"r", b"C:", b"\\"]


def gen_wstr(rng, wild, maxtok=6):
    toks = list(WTOKS) + ([b"*", b"**", b"?", b"*", b"*.c", b"**\\", b"?*"] if wild else [])
    return b"".join(rng.choice(toks) for _ in range(rng.randint(0, maxtok)))


def gen_witer_case(rng):
    a = gen_wstr(rng, False, 5)
    b = gen_wstr(rng, False, 4) if rng.random() < 0.6 else b""
    if rng.random() < 0.4:
        a = rng.choice([b"C:\\", b"c:", b"\\\\", b"//?/", b"\\\\.\\", b"/", b"\\", b"//x"]) + a
    return [a, b, b"w"]


def gen_wpm_case(rng):
    pattern = gen_wstr(rng, True)
    base = rng.choice(WBASES)
    r = rng.random()
    if r < 0.5:
        path = b""
        for ch in pattern:
            c = bytes([ch])
            if c == b"*":
                path += rng.choice([b"", b"a", b"Ab", b"b\\a", b"/", b"a.c"])
            elif c == b"?":
                path += rng.choice([b"a", b"B", b"\\", b"."])
            else:
                path += rng.choice([c, c.swapcase(), c])
        if rng.random() < 0.4:
            path = rng.choice([b"a\\", b"C:\\r\\", b"B/a/", b".\\", b"..\\"]) + path
        if rng.random() < 0.4:
            path += rng.choice([b"\\a", b"/A.c", b"\\b\\a.c", b"\\"])
    elif r < 0.6:
        path = pattern
    else:
        path = gen_wstr(rng, False)
    return [pattern, path, base, b"d" if rng.random() < 0.3 else b"f", b"w"]
