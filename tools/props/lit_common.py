"""Case generators and dump helpers for the literal / type models (C10, C09).

All random choices come from run.rng (seeded by VERIF_SEED).  The integer-literal generator
follows the grammar of coq/theories/Lit/Spec.v (base x digit string x suffix) and is aimed at
the case splits of the proofs: every base, every suffix shape, every digit count 1..25
(binary up to 70), leading zeros, both letter cases, and the 64-bit boundaries."""
import os
import re
import subprocess
import xml.etree.ElementTree as ET

U_S = [b"u", b"U"]
L_S = [b"l", b"L", b"ll", b"LL"]
Z_S = [b"z", b"Z"]
I_S = [b"i64", b"I64"]
GRAMMAR_SUFFIXES = ([b""] + U_S + L_S + [u + l for u in U_S for l in L_S] + [l + u for l in L_S for u in U_S] +
                    Z_S + [u + z for u in U_S for z in Z_S] + [z + u for z in Z_S for u in U_S] +
                    I_S + [u + i for u in U_S for i in I_S])
# accepted by the state machine although no compiler spells them
ODD_SUFFIXES = [b"lL", b"Ll", b"ulL", b"lLu", b"_x", b"_km", b"_", b"__", b"_1"]
BAD_SUFFIXES = [b"uu", b"lul", b"lll", b"i32", b"i6", b"i", b"ui", b"ui6", b"ulll", b"f", b"e", b"p", b"lz", b"zl",
                b"zz", b"uzu", b"ullu", b"llul", b"i644", b"g", b" ", b"u ", b"8", b"9", b"a", b"x"]
BOUNDS = [2 ** 31, 2 ** 32, 2 ** 63, 2 ** 64, 2 ** 15, 2 ** 16, 2 ** 7, 2 ** 8]
BASES = [2, 8, 10, 16]
PREFIX = {2: [b"0b", b"0B"], 8: [b"0"], 10: [b""], 16: [b"0x", b"0X"]}


def to_digits(v, base):
    if v == 0:
        return [0]
    ds = []
    while v:
        ds.append(v % base)
        v //= base
    return ds[::-1]


def spell_digits(rng, ds):
    out = bytearray()
    up = rng.random() < 0.3
    for d in ds:
        if d < 10:
            out.append(48 + d)
        else:
            out.append((55 if (up or rng.random() < 0.1) else 87) + d)
    return bytes(out)


def make_literal(rng, base, ds, sfx, lower_only=False):
    """returns (spelling, value, base, ndigits). For base 10 the first digit is non-zero
    (the grammar's decimal literal); a lone 0 is generated as the octal literal "0"."""
    v = 0
    for d in ds:
        v = v * base + d
    pre = PREFIX[base][0] if lower_only else rng.choice(PREFIX[base])
    return pre + spell_digits(rng, ds) + sfx, v, base, len(ds)


def grammar_literals(rng, quick):
    """systematic part: base x suffix x digit count, + boundaries"""
    out = []
    maxd = {2: 70, 8: 25, 10: 25, 16: 25}
    sfxs = GRAMMAR_SUFFIXES
    for base in BASES:
        for sfx in sfxs:
            counts = range(1, maxd[base] + 1)
            if quick:
                counts = sorted(set(list(range(1, 26, 3)) + [rng.randint(1, maxd[base]) for _ in range(3)]))
            for n in counts:
                ds = [rng.randrange(base) for _ in range(n)]
                if base == 10:
                    ds[0] = rng.randrange(1, 10)
                if base == 8 and n == 1 and rng.random() < 0.3:
                    ds = []            # "0" itself
                if rng.random() < 0.15 and base != 10:
                    ds[:1] = [0] * rng.randint(1, 3)        # leading zeros
                out.append(make_literal(rng, base, ds, sfx))
        for b in BOUNDS:
            for delta in (-1, 0, 1):
                v = b + delta
                for sfx in ([b"", b"u", b"l", b"ul", b"ll", b"ull", b"LLU", b"i64", b"z"] if quick else sfxs):
                    out.append(make_literal(rng, base, to_digits(v, base), sfx))
        # values around 2^64 with more digits
        for k in range(6 if quick else 40):
            v = 2 ** 64 + rng.choice([-1, 0, 1]) * rng.randrange(1, 2 ** rng.randint(1, 62))
            out.append(make_literal(rng, base, to_digits(v, base), rng.choice(sfxs)))
            v = rng.randrange(2 ** 64, 2 ** 90)
            out.append(make_literal(rng, base, to_digits(v, base), rng.choice(sfxs)))
    return out


MAL_ALPHA = b"0123456789abcdefABCDEFxXbBuUlLzZiI_.'+-eEpP \\\tg\"8"
MAL_W = [5 if c in b'01' else 3 if c in b'23456789xXuUlL' else 2 if c in b'abcdefbBzZ._+-eE' else 1 for c in MAL_ALPHA]


def malformed(rng, good):
    k = rng.random()
    if k < 0.35:
        return bytes(rng.choices(MAL_ALPHA, weights=MAL_W, k=rng.randint(0, 7)))
    s = bytearray(rng.choice(good))
    if k < 0.5:
        return bytes(s) + rng.choice(BAD_SUFFIXES + ODD_SUFFIXES)
    if k < 0.6:
        return rng.choice([b"+", b"-", b" ", b"\t", b"  +", b"-+", b"+ ", b"\n", b"0x", b"-0x", b"0b"]) + bytes(s)
    for _ in range(rng.randint(1, 2)):
        op = rng.random()
        i = rng.randrange(len(s) + 1)
        c = rng.choices(MAL_ALPHA, weights=MAL_W)[0]
        if op < 0.4:
            s.insert(i, c)
        elif op < 0.7 and s:
            del s[min(i, len(s) - 1)]
        elif s:
            s[min(i, len(s) - 1)] = c
    return bytes(s)


FLOATS = [b"1.0", b"1.", b".5", b"1e5", b"1E+5", b"1e-5", b"1.5f", b"1.5F", b"1.5l", b"1.5L", b"1.e3", b".5e3f", b"1e5f",
          b"0x1p3", b"0x1.8p3", b"0x.8p-1", b"0X1P+3f", b"0x1p3L", b"1._x", b"1.0_km", b"1e", b"1e+", b"1.5ff", b"0x1p",
          b"0x1.p1", b"0x.p1", b"1.5e3_x", b"1.f", b"1.L", b"-1.5", b"+.5", b"1..", b"1.5.", b"0x1.8", b"1e5L", b"1e5l",
          b"0e0", b"00.5", b"09.5", b"09", b"08", b"0778", b"1_e5", b"0x1e", b"0x1e5", b"0b1e5", b"0b12", b"1'000", b"0x"]


def gen_suffix_strings(rng, quick):
    alpha = b"uUlLzZiI64_a"
    out = [b""] + GRAMMAR_SUFFIXES + ODD_SUFFIXES + BAD_SUFFIXES
    if quick:
        for _ in range(2500):
            out.append(bytes(rng.choices(alpha, k=rng.randint(1, 5))))
    else:
        import itertools
        for n in range(1, 5):
            for t in itertools.product(alpha, repeat=n):
                out.append(bytes(t))
        for _ in range(20000):
            out.append(bytes(rng.choices(alpha, k=rng.randint(5, 7))))
    return list(dict.fromkeys(out))


# ---------------------------------------------------------------- character literals
SIMPLE_ESC = b"'\"?\\abfnrtveE%([{"
CPREFIX = [b"", b"u8", b"u", b"U", b"L"]


def utf8(cp):
    if cp < 0x80:
        return bytes([cp])
    if cp < 0x800:
        return bytes([0xc0 | cp >> 6, 0x80 | cp & 63])
    if cp < 0x10000:
        return bytes([0xe0 | cp >> 12, 0x80 | (cp >> 6) & 63, 0x80 | cp & 63])
    return bytes([0xf0 | cp >> 18, 0x80 | (cp >> 12) & 63, 0x80 | (cp >> 6) & 63, 0x80 | cp & 63])


def gen_citem(rng):
    """returns (bytes, kind)"""
    k = rng.random()
    if k < 0.25:
        return bytes([rng.choice(b"aZ09 ~!#x\x7f\x01")]), "plain"
    if k < 0.40:
        return b"\\" + bytes([rng.choice(SIMPLE_ESC)]), "simple"
    if k < 0.55:
        n = rng.choice([1, 1, 2, 2, 3, 3, 4])
        return b"\\" + bytes(rng.choices(b"01234567", k=n)), "oct%d" % n
    if k < 0.70:
        n = rng.choice([1, 2, 2, 3, 4, 8, 9, 16, 17])
        return b"\\x" + bytes(rng.choices(b"0123456789abcdefABCDEF", k=n)), "hex%d" % min(n, 9)
    if k < 0.80:
        big = rng.random() < 0.5
        n = (8 if big else 4) + rng.choice([0, 0, 0, 0, -1, 1])
        cp = rng.choice([0x41, 0x7f, 0x80, 0xff, 0x100, 0xd7ff, 0xd800, 0xdfff, 0xe000, 0xffff, 0x10000, 0x10ffff, 0x110000,
                         rng.randrange(0x110000)])
        digs = (b"%0*x" % (8 if big else 4, cp))[-(8 if big else 4):]
        if n < len(digs):
            digs = digs[:n]
        elif n > len(digs):
            digs += b"0"
        return b"\\" + (b"U" if big else b"u") + digs, "ucn"
    if k < 0.90:
        cp = rng.choice([0x80, 0xa9, 0x7ff, 0x800, 0xd7ff, 0xe000, 0xffff, 0x10000, 0x10ffff, rng.randrange(0x80, 0x110000)])
        if 0xd800 <= cp <= 0xdfff:
            cp = 0xe000
        b = bytearray(utf8(cp))
        if rng.random() < 0.25:
            j = rng.randrange(len(b))
            b[j] = rng.choice([0x80, 0xbf, 0xc0, 0xc1, 0xe0, 0xed, 0xf0, 0xf4, 0xf5, 0xff, 0x41, 0x9f, 0xa0, 0x8f, 0x90])
        if rng.random() < 0.1:
            b = b[:-1]
        return bytes(b), "utf8"
    if k < 0.95:
        return rng.choice([b"\\x 41", b"\\x+41", b"\\x-1", b"\\x-0", b"\\x0x41", b"\\x0X", b"\\x\t7", b"\\u +41", b"\\u0x41",
                           b"\\u-041", b"\\U  0x0041", b"\\x", b"\\8", b"\\9", b"\\q", b"\\", b"\\xg", b"\\0x1",
                           b"\\xffffffffffffffff", b"\\x10000000000000000", b"\\x100000000", b"\\xffffffff"]), "quirk"
    return rng.choice([b"'", b"\n", b"\"", b"\\\n"]), "raw"


def gen_charlit(rng):
    pre = rng.choice(CPREFIX) if rng.random() < 0.6 else b""
    n = rng.choice([1, 1, 1, 1, 2, 2, 3, 4, 4, 5, 8, 9, 0])
    items = [gen_citem(rng) for _ in range(n)]
    body = b"".join(i[0] for i in items)
    s = pre + b"'" + body + b"'"
    k = rng.random()
    if k < 0.04:
        s = s[:-1]
    elif k < 0.07:
        s = s + b"'"
    elif k < 0.09:
        s = rng.choice([b"x", b"l", b"u9", b"LL", b"U8"]) + s
    kinds = sorted(set(i[1] for i in items))
    return s, (pre.decode(), min(n, 5), ",".join(kinds))


# ---------------------------------------------------------------- dump parsing
def run_cppcheck(cppcheck, path, platform=None, std=None, extra=()):
    cmd = [cppcheck, "--dump", "-q"]
    if platform:
        cmd.append("--platform=" + platform)
    if std:
        cmd.append("--std=" + std)
    cmd += list(extra) + [path]
    p = subprocess.run(cmd, stdout=subprocess.PIPE, stderr=subprocess.STDOUT, timeout=900)
    return p.returncode, p.stdout.decode("utf-8", "replace")


def parse_dump(dump_path):
    """-> list of configurations; each: (tokens: list of dict, values: {id: [dict]})"""
    tree = ET.parse(dump_path)
    cfgs = []
    for d in tree.getroot().iter("dump"):
        toks = [dict(t.attrib) for t in d.iter("token")]
        vals = {}
        vf = d.find("valueflow")
        if vf is not None:
            for vs in vf.iter("values"):
                vals[vs.attrib["id"]] = [dict(v.attrib) for v in vs.iter("value")]
        cfgs.append((toks, vals))
    return cfgs


def known_int(tok, vals):
    """the Known int value of a token or None"""
    vid = tok.get("values")
    if not vid:
        return None
    for v in vals.get(vid, []):
        if (v.get("known") == "true" or v.get("valueKind") == "known") and "intvalue" in v:
            return int(v["intvalue"])
    return None


def have(cmd):
    try:
        return subprocess.run(cmd, stdout=subprocess.PIPE, stderr=subprocess.STDOUT, timeout=60).returncode == 0
    except (OSError, subprocess.TimeoutExpired):
        return False


def gcc_static_asserts(cc_cmd, exprs, workdir, cxx=False, prelude=""):
    """exprs: list of boolean constant expressions (strings). Returns list of True/False/None
    (None = the expression itself did not compile). One compiler run for all, then bisection by line."""
    os.makedirs(workdir, exist_ok=True)
    src = os.path.join(workdir, "oracle.cpp" if cxx else "oracle.c")
    kw = "static_assert" if cxx else "_Static_assert"
    with open(src, "w") as f:
        f.write(prelude + "\n")
        base = prelude.count("\n") + 2
        for e in exprs:
            f.write('%s(%s, "x");\n' % (kw, e))
    p = subprocess.run(list(cc_cmd) + ["-fsyntax-only", "-w", "-ferror-limit=0" if "clang" in cc_cmd[0] else "-fmax-errors=0", src],
                       stdout=subprocess.PIPE, stderr=subprocess.STDOUT, timeout=600)
    out = p.stdout.decode("utf-8", "replace")
    res = [True] * len(exprs)
    for m in re.finditer(r"oracle\.c(?:pp)?:(\d+):\d+: error: ([^\n]*)", out):
        i = int(m.group(1)) - base
        if 0 <= i < len(exprs):
            if "static assertion failed" in m.group(2) or "static_assert failed" in m.group(2) or "static assertion" in m.group(2):
                if res[i] is True:
                    res[i] = False
            else:
                res[i] = None
    return res
