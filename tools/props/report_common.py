"""Case generators for the report model (C26): byte strings aimed at the case splits of
Report/Proofs*.v (braces and field tokens inside values, XML/JSON special characters,
control bytes, NUL, bytes >= 0x80), templates built from the documented fields, messages."""

FIELDS = [b"{id}", b"{severity}", b"{cwe}", b"{message}", b"{remark}", b"{callstack}", b"{file}", b"{line}",
          b"{column}", b"{code}"]
LFIELDS = [b"{file}", b"{line}", b"{column}", b"{info}", b"{code}"]
COLORS = [b"{reset}", b"{bold}", b"{dim}", b"{red}", b"{green}", b"{blue}", b"{magenta}", b"{default}"]
IDS = [b"nullPointer", b"arrayIndexOutOfBounds", b"syntaxError", b"unknownMacro", b"internalError", b"a", b"misra-c2012-1.1",
       b"uninitvar", b"preprocessorErrorDirective"]
FILES = [b"a.c", b"dir/b.c", b"x.h", b"dir\\w.c", b"a b.c"]
HOT = b"{}<>&\"'\\/ \n\r\t:;[]-"
SEV_ALL = list(range(0, 9))
SEV_DOC = [1, 2, 3, 4, 5, 6]


def rbytes(rng, mode, maxlen=8):
    """mode: 'plain' printable without braces / specials, 'xml' adds xml+json specials,
    'brace' adds braces and field tokens, 'ctl' adds control bytes / NUL / high bytes, 'any' everything"""
    n = rng.randint(0, maxlen)
    out = b""
    for _ in range(n):
        k = rng.random()
        if mode == "plain":
            out += bytes([rng.choice(b"abcxyz01 ._-/")])
        elif mode == "xml":
            out += bytes([rng.choice(b"ab<>&\"' /\\")])
        elif mode == "brace":
            if k < 0.35:
                out += rng.choice(FIELDS + LFIELDS + [b"{inconclusive:", b"{inconclusive:x}", b"{info}"] + COLORS)
            else:
                out += bytes([rng.choice(b"ab{}{} :")])
        elif mode == "ctl":
            if k < 0.4:
                out += bytes([rng.choice([0, 1, 7, 8, 9, 10, 12, 13, 27, 31, 127, 128, 0xc3, 0xa4, 0xe4, 255])])
            else:
                out += bytes([rng.choice(b"ab.")])
        else:
            if k < 0.2:
                out += rng.choice(FIELDS)
            elif k < 0.6:
                out += bytes([rng.choice(HOT)])
            else:
                out += bytes([rng.randrange(256)])
    return out


def pick_mode(rng, weights=(40, 15, 15, 15, 15)):
    return rng.choices(["plain", "xml", "brace", "ctl", "any"], weights=weights)[0]


def gen_loc(rng, mode):
    f = rng.choice(FILES) if rng.random() < 0.4 else rbytes(rng, mode, 6)
    o = f if rng.random() < 0.7 else rbytes(rng, mode, 6)
    line = rng.choice([-1, 0, 1, 2, 7, 10, 123, 65536, -5, 2147483647, -2147483648]) if rng.random() < 0.5 else rng.randint(-2, 300)
    col = rng.choice([0, 1, 2, 5, 17, 80]) if rng.random() < 0.7 else rng.randint(0, 120)
    info = b"" if rng.random() < 0.4 else rbytes(rng, mode, 6)
    return [f, o, line, col, info]


def gen_msg(rng, mode=None, nlocs=None, sev=None):
    mode = mode or pick_mode(rng)
    mid = rng.choice(IDS) if rng.random() < 0.5 else rbytes(rng, mode, 6)
    gl = b"" if rng.random() < 0.75 else (rbytes(rng, mode, 5) or b"g")
    cl = b"" if rng.random() < 0.75 else (rbytes(rng, mode, 5) or b"c")
    sv = sev if sev is not None else rng.choice(SEV_ALL)
    cwe = 0 if rng.random() < 0.4 else rng.choice([1, 398, 476, 788, 65535])
    h = 0 if rng.random() < 0.7 else rng.choice([1, 2, 12345678901234567890 % (1 << 64), (1 << 64) - 1])
    inc = rng.random() < 0.4
    short = rbytes(rng, mode, 10)
    verbose = short if rng.random() < 0.5 else rbytes(rng, mode, 10)
    remark = b"" if rng.random() < 0.6 else rbytes(rng, mode, 6)
    f0 = b"" if rng.random() < 0.4 else (rng.choice(FILES) if rng.random() < 0.5 else rbytes(rng, mode, 6))
    syms = b"" if rng.random() < 0.5 else b"\n".join(rbytes(rng, mode if mode != "any" else "xml", 4) for _ in range(rng.randint(1, 3))) + (b"\n" if rng.random() < 0.5 else b"")
    n = nlocs if nlocs is not None else rng.choice([0, 1, 1, 2, 3])
    out = [mid, gl, cl, sv, cwe, h, inc, short, verbose, remark, f0, syms, n]
    for _ in range(n):
        out += gen_loc(rng, mode)
    return out


def gen_template(rng, fields=FIELDS, allow_inc=True, hostile=False):
    parts = []
    for _ in range(rng.randint(0, 6)):
        k = rng.random()
        if k < 0.5:
            parts.append(rng.choice(fields))
        elif k < 0.6 and allow_inc:
            parts.append(b"{inconclusive:" + bytes(rng.choices(b"ab ,:", k=rng.randint(0, 3))) + b"}")
        elif k < 0.7 and hostile:
            parts.append(rng.choice([b"{", b"}", b"{{id}", b"{fi{remark}le}", b"{file", b"{inconclusive:", b"\\n", b"\r", b"\r\n"]))
        else:
            parts.append(bytes(rng.choices(b"ab :,[]()\n\r|", k=rng.randint(0, 3))))
    return b"".join(parts)


def msg_is_clean_for_template(c):
    """no '{' in any value of the message part of a tostr case (c = fields after vb,tmpl,tloc)"""
    return all(not (isinstance(x, bytes) and b"{" in x) for x in c)


def describe_msg(c):
    names = "id guideline classification severity cwe hash inconclusive short verbose remark file0 symbols nlocs".split()
    d = dict(zip(names, c[:13]))
    locs = []
    r = c[13:]
    for k in range(int(c[12])):
        locs.append(dict(zip("file origfile line column info".split(), r[5 * k:5 * k + 5])))
    d["locations"] = locs
    return d
