#!/usr/bin/env python3
"""C20  An interrupted run never corrupts later incremental results.

prove:      coq/theories/Properties_C20.v (every proper prefix of a complete cache file is rejected by
            the loader, also after reopen and for another hash; the complete file is accepted;
            crash_then_complete: after a run killed anywhere the next complete run equals a fresh run)
correspond: the loader stand-in `accept` (Cache/Xml.v) vs tinyxml2 LoadFile + AnalyzerInformation::skipAnalysis
            (harness/vh_c20.cpp) on byte prefixes of real cache files written by the real binary
            (quick: ~2k random cut points + all cuts in the last 40 bytes; thorough: every cut), with the
            right and a wrong hash; writer header/footer = real bytes; item_ok holds for the real items
search:     the property on the real binary: hook VERIF_CRASH_AT=k kills the run at the k-th cache write
            (every k; with/without flushing; -j1 and -j2 with the whole process group killed; empty and
            pre-populated build dir), plus cache files truncated at random bytes; then a complete run
            with the build dir is compared with a run without it
"""
import os
import random
import sys

sys.path.insert(0, os.path.dirname(os.path.dirname(os.path.abspath(__file__))))
import vlib
from props import cache_common as C
from translate import keyfields

PID = "C20"

SRC_A = """#include "h.h"
int fa(int x)
{
  int a[2];
  a[2] = x;
  return hf(x) + 100 / 0;
}
int fa_e(int *p)
{
  int u;
  return u + *p;
}
"""
SRC_A_OLD = SRC_A.replace("a[2] = x;", "a[1] = x;")
SRC_B = """void fc(int *p);
void gb(void) { int *q = 0; fc(q); }
int fb(int x)
{
  char s[4] = "a<b&\\"c'";
  return 100 / 0 + s[0];
}
"""
SRC_C = """void fc(int *p) { *p = 0; }
"""
HDR = """static int hf(int x)
{
  int b[2];
  b[2] = x;
  return b[0];
}
"""
OPTS = ["-Iinc", "--enable=unusedFunction,information,warning,portability", "--inconclusive", "--suppress=memleak:a.c", "--suppress=nullPointer:zz.c"]
FILES = ["a.c", "b.c", "sub/c.c"]


def project(sc, old=False):
    sc.write("a.c", SRC_A_OLD if old else SRC_A)
    sc.write("b.c", SRC_B)
    sc.write("sub/c.c", SRC_C)
    sc.write("inc/h.h", HDR)


def check(run, replay):
    quick = run.tier == "quick"
    rng = run.rng
    run.trusted_base += [
        "Coq 8.16.1 kernel (coqc); vm_compute on closed terms only (scanner over the fixed header/end-tag bytes, 17 cut points of the end tag)",
        "extraction: Require Extraction + ExtrOcamlBasic only; ocaml/driver.ml",
        "harness/vh_common.h + vh_c20.cpp (tinyxml2::XMLDocument::LoadFile on the given bytes + AnalyzerInformation::skipAnalysis)",
        "STAND-IN, tested not proved: Cache/Xml.v `accept` (tag/quote/PI/depth scanner + exact header comparison) decides like tinyxml2 LoadFile==XML_SUCCESS && skipAnalysis==\"\" on every byte prefix of cache files written by the real binary (this run: see streams loader-*)",
        "premise item_ok of the prefix theorem (an item never closes the root and returns to depth 1) is checked on the real items of every sampled cache file (stream items); that ErrorMessage::toXML / FileInfo::toString always produce such items is not proved",
        "kill model: a killed process leaves of every file a byte prefix of what it had written (ofstream buffers may be lost) - OS assumption; the hook dies at write boundaries, arbitrary cut points are emulated by truncating complete cache files",
        "C20_crash_then_complete inherits the premises of C18 (faithful key, collision-free hash, unique files.txt lookup); the known C18 findings are outside its claim",
        "hook commit 3ca244e (VERIF_CRASH_AT/FLUSH/GROUP in lib/analyzerinfo.cpp, guarded, add-only)",
    ]
    run.assumptions += ["g++ compiles /repo faithfully", "a run of the binary without --cppcheck-build-dir and -j1 is the reference ('fresh')"]
    run.extra["rule"] = ("loader: cut points of real cache files (3 files x 2 option sets), each with the file's own hash and with hash+1; non-trivial = "
                         "distinct (file, cut, hash) ; crash: (initial build dir, jobs, flush, k) for every k until the run survives; non-trivial = "
                         "distinct tuple whose crashed run really died")

    vlib.ensure_repo_build()
    try:
        keyfields.generate(vlib.REPO, os.path.join(vlib.COQ, "theories", "Cache", "Gen_KeyFields.v"))
    except keyfields.TranslateError as e:
        # the key model is not the code: no proof / loader correspondence this run, the crash search still runs
        run.violation("translate:keyfields", "translator cannot read the key composition: %s" % e,
                      {"broken": "translator", "detail": str(e)}, found_input=False)
        run.extra["model_tie"] = "off"
        run.obligations = vlib.theorems_of(os.path.join(vlib.COQ, "theories", "Properties_%s.v" % PID))
        run.checker_cmd = "not run: the translator failed"
        crash_search(run, quick, rng)
        return
    ok = run.prove(extra_targets=["theories/Cache/Run.vo"])
    if not ok:
        run.violation("proof:" + PID, "Properties_C20.vo does not build: " + str(run.proof_error())[:300],
                      {"broken": "proof", "detail": run.proof_error()}, found_input=False)
    if not os.path.exists(os.path.join(vlib.COQ, "theories/Cache/Run.vo")):
        return
    model = vlib.build_model(PID)
    vh = vlib.build_harness(PID)
    T = C.Tools(model, vh)

    # ---------------- X1: the loader law on real cache files
    samples = []
    sc = C.Scratch("c20x1")
    try:
        project(sc)
        for opts in (OPTS, ["-Iinc"]):
            sc.reset_bd()
            C.cppcheck(sc, FILES, opts, builddir=True)
            for af in sorted(os.listdir(sc.bd)):
                if ".a" in af and not af.endswith(".txt"):
                    b = open(os.path.join(sc.bd, af), "rb").read()
                    k = C.cache_hash(sc, af)
                    if k:
                        samples.append((af, k, b))
    finally:
        sc.close()
    if not samples:
        run.violation("x1:nosamples", "the binary wrote no cache files", {"broken": "setup"}, found_input=False)
        return
    HEADER = lambda k: b'<?xml version="1.0"?>\n<analyzerinfo hash="' + k.encode() + b'">\n'
    FOOT = b"</analyzerinfo>\n"
    for af, k, b in samples:
        # writer = real bytes, item_ok on the real items
        body = b[len(HEADER(k)):-len(FOOT)] if b.startswith(HEADER(k)) and b.endswith(FOOT) else None
        if body is None:
            run.violation("tie:writer:" + af, "cache file %s does not have the header/footer of the model's writer" % af,
                          {"broken": "correspondence", "file": af, "head": vlib.show(b[:80]), "tail": vlib.show(b[-40:])}, found_input=False)
            continue
        r = T.model_run([["writer", k, body], ["itemok", body]])
        run.count("items", None, nontrivial=(af, len(b)), bucket="item_ok" if r[1] == [b"1"] else "item_bad")
        if r[0] != [b] or r[1] != [b"1"]:
            run.violation("tie:writer:" + af, "model writer/item_ok does not reproduce the real cache file %s" % af,
                          {"broken": "correspondence", "file": af, "item_ok": vlib.show(r[1])}, found_input=False)
    total = sum(len(b) + 1 for _, _, b in samples)
    run.extra["cache_file_bytes"] = total
    cuts = []
    for idx, (af, k, b) in enumerate(samples):
        if quick:
            per = max(50, 2000 // len(samples))
            pts = set(range(max(0, len(b) - 40), len(b) + 1)) | set(range(0, 70)) | set(rng.randrange(0, len(b) + 1) for _ in range(per))
        else:
            pts = set(range(len(b) + 1))
        for n in sorted(pts):
            cuts.append((idx, n, k))
            if n % 7 == 0 or n >= len(b) - 2:
                cuts.append((idx, n, str(int(k) + 1)))
    cases = [[k, samples[idx][2][:n]] for idx, n, k in cuts]
    meta = {id(c): (idx, n, k) for c, (idx, n, k) in zip(cases, cuts)}

    def canon(x):
        return x[:1]
    diffs = vlib.correspond(run, "loader-prefix", model, [vh, "loadskip"], cases, tag="accept", canon=canon,
                            nontrivial=lambda c, m, i: (meta[id(c)]),
                            bucket=lambda c, m, i: ("accepted" if i == [b"1"] else "rejected") +
                            (",full" if meta[id(c)][1] >= len(samples[meta[id(c)][0]][2]) - 1 else ",cut") +
                            (",ownhash" if meta[id(c)][2] == samples[meta[id(c)][0]][1] else ",otherhash"))
    T.vh_run("cleanup", [[]])
    for c, m, i in diffs[:3]:
        idx, n, k = meta[id(c)]
        af, k0, b = samples[idx]
        full = n >= len(b) - 1 and k == k0
        if i == [b"1"] and not full:
            # the real loader uses a truncated / foreign file: that is the property failing
            run.violation("loader-accepts-cut:%s:%d" % (af, n), "tinyxml2+skipAnalysis accept the first %d of %d bytes of %s (hash %s, file hash %s)" % (n, len(b), af, k, k0),
                          {"file": af, "cut": n, "length": len(b), "hash_asked": k, "prefix_tail": vlib.show(b[max(0, n - 60):n]),
                           "how": "echo <hash> <hex bytes> | build/harness/vh_c20 loadskip"})
        else:
            run.violation("tie:loader:%s:%d" % (af, n), "model accept=%s, tinyxml2+skipAnalysis=%s on the first %d bytes of %s" % (vlib.show(m), vlib.show(i), n, af),
                          {"broken": "correspondence", "file": af, "cut": n, "model": vlib.show(m), "impl": vlib.show(i)}, found_input=False)

    crash_search(run, quick, rng)


def crash_search(run, quick, rng):
    # ---------------- X2: kill the real binary at every cache write, then a complete run vs fresh
    sc = C.Scratch("c20x2")
    try:
        project(sc)
        fresh, _, _ = C.cppcheck(sc, FILES, OPTS, builddir=False, jobs=1)
        configs = [(init, jobs, flush) for init in ("empty", "old") for jobs in (1, 2) for flush in (False, True)]
        if quick:
            configs = [("empty", 1, True), ("old", 2, False)]
        for init, jobs, flush in configs:
            k = 0
            while True:
                k += 1
                if k > 200:
                    break
                sc.reset_bd()
                if init == "old":
                    project(sc, old=True)
                    C.cppcheck(sc, FILES, OPTS, builddir=True, jobs=1)
                    project(sc)
                env = {"VERIF_CRASH_AT": str(k)}
                if flush:
                    env["VERIF_CRASH_FLUSH"] = "1"
                if jobs > 1:
                    env["VERIF_CRASH_GROUP"] = "1"
                _, _, rc = C.cppcheck(sc, FILES, OPTS, builddir=True, jobs=jobs, env=env)
                died = rc in (137, -9)
                state = {af: os.path.getsize(os.path.join(sc.bd, af)) for af in sorted(os.listdir(sc.bd))}
                after, _, rc2 = C.cppcheck(sc, FILES, OPTS, builddir=True, jobs=jobs)
                run.count("crash", None, nontrivial=(init, jobs, flush, k) if died else None,
                          bucket="%s,j%d,%s,%s" % (init, jobs, "flush" if flush else "noflush", "died" if died else "survived"))
                if after != fresh:
                    dl = [l for l in after if l not in fresh] + [l for l in fresh if l not in after]
                    only_checkers = all(":checkersReport:" in l for l in dl)
                    run.violation("crash-loses-active-checkers" if only_checkers else
                                  "crash:%s:j%d:%s:k%d" % (init, jobs, "flush" if flush else "noflush", k),
                                  "after a run killed at cache write %d (%s build dir, -j%d, %s) the next complete run differs from a fresh run: only cached %s, only fresh %s" % (
                                      k, init, jobs, "flushed" if flush else "unflushed", [l for l in after if l not in fresh][:3], [l for l in fresh if l not in after][:3]),
                                  {"files": FILES, "options": OPTS, "env": env, "build_dir_after_kill": state, "cached": after, "fresh": fresh,
                                   "how": "sources in tools/props/c20.py (project()); VERIF_CRASH_AT=k cppcheck --cppcheck-build-dir=bd ...; then the same command without the variable; compare with a run without --cppcheck-build-dir"})
                if not died:
                    break
            run.extra.setdefault("crash_points", {})["%s,j%d,%s" % (init, jobs, "flush" if flush else "noflush")] = k - 1
        # arbitrary cut points: truncate cache files of a complete build dir
        ntr = 10 if quick else 400
        for t in range(ntr):
            sc.reset_bd()
            C.cppcheck(sc, FILES, OPTS, builddir=True, jobs=1)
            afs = [af for af in sorted(os.listdir(sc.bd)) if ".a" in af and not af.endswith(".txt")]
            victims = rng.sample(afs, rng.randint(1, len(afs)))
            cutinfo = {}
            for af in victims:
                p = os.path.join(sc.bd, af)
                size = os.path.getsize(p)
                n = rng.randrange(0, size - 1)
                with open(p, "r+b") as f:
                    f.truncate(n)
                cutinfo[af] = (n, size)
            jobs = rng.choice([1, 2])
            after, _, _ = C.cppcheck(sc, FILES, OPTS, builddir=True, jobs=jobs)
            run.count("truncate", None, nontrivial=tuple(sorted(cutinfo.items())), bucket="files%d,j%d" % (len(victims), jobs))
            if after != fresh:
                run.violation("truncate:" + ",".join("%s@%d" % (a, c[0]) for a, c in sorted(cutinfo.items())),
                              "with cache files truncated (%s) the next complete run differs from a fresh run" % cutinfo,
                              {"files": FILES, "options": OPTS, "truncated": cutinfo, "cached": after, "fresh": fresh})
    finally:
        sc.close()
    run.samples.append({"stream": "crash", "case": "VERIF_CRASH_AT=3 VERIF_CRASH_FLUSH=1 cppcheck -j1 --cppcheck-build-dir=bd a.c b.c sub/c.c; then the same without the variable",
                        "model": "truncated a.a1 is rejected (C20_proper_prefix_rejected) and rewritten; report = fresh (C20_crash_then_complete)"})


if __name__ == "__main__":
    vlib.main(check, PID)
