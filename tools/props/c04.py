#!/usr/bin/env python3
"""C04  Definite runtime-error findings are true positives (partial: severity gating and the straight-line
leak machine proved; everything else decided per generated program by running it under sanitizers; docs/C04.md).

prove:      coq/theories/Properties_C04.v
correspond: X1 severity gating: single-site programs per checker x value kind x settings on the real binary vs `severity_of`
            X2 straight-line malloc/free/assign/deref/return programs (length 1..12): findings of the real binary vs
               `leak_run` (equality per statement) and vs the concrete heap semantics `exec` (+ ASan/LSan on a sample)
            X3 correct-by-construction programs (a guard before every potentially undefined operation) run under
               gcc -fsanitize=address,undefined over their whole input domain: an error-severity finding on a
               line that a clean program reaches is the failing input (findings in unreachable code are counted)
"""
import os
import re
import shutil
import sys
import tempfile
import random

sys.path.insert(0, os.path.dirname(os.path.dirname(os.path.abspath(__file__))))
sys.path.insert(0, os.path.dirname(os.path.abspath(__file__)))
import vlib
import verdict_common as vc
import c04_gen

PID = "C04"
ERROR_IDS = ("nullPointer", "zerodiv", "arrayIndexOutOfBounds", "negativeIndex", "uninitvar", "memleak", "doubleFree", "deallocuse",
             "integerOverflow", "shiftTooManyBits", "shiftTooManyBitsSigned", "shiftNegative", "invalidFunctionArg", "deallocret",
             "bufferAccessOutOfBounds", "uninitdata", "legacyUninitvar", "nullPointerArithmetic", "containerOutOfBounds")


def model_lines(model, lines):
    rc, out, err = vlib.run_lines([model], [vlib.enc_case(l) for l in lines])
    if rc != 0 or len(out) != len(lines):
        raise vlib.BuildError("model run failed: " + err[-500:])
    return [vlib.dec_line(o) for o in out]


# ------------------------------------------------------------------ X1 severity gating on the real binary
# per checker: id of the finding, program text per value kind.  `@` marks the line of the site.
SITES = {
    "n": ("nullPointer", {
        "K": "void f(void) { int *p = 0;\n *p = 1; }",
        "P": "int g1; void f(int c) { int *p = 0; if (c) p = &g1;\n *p = 1; }",
        "C": "void f(int *p) {\n *p = 1;\n if (p) { *p = 2; } }",
    }),
    "z": ("zerodiv", {
        "K": "int f(void) { int x = 0;\n return 10 / x; }",
        "P": "int f(int c) { int x = 0; if (c) x = 1;\n return 10 / x; }",
        "C": "int f(int x) { int r =\n 10 / x;\n if (x == 0) r = 1; return r; }",
    }),
    "a": ("arrayIndexOutOfBounds", {
        "K": "int f(void) { int a[4] = {0}; int x = 4;\n return a[x]; }",
        "P": "int f(int c) { int a[4] = {0}; int x = 4; if (c) x = 1;\n return a[x]; }",
        "C": "int f(int x) { int a[4] = {0}; int r =\n a[x];\n if (x == 4) r = 1; return r; }",
    }),
    "s": ("shiftTooManyBits", {
        "K": "unsigned f(unsigned v) { int x = 40;\n return v << x; }",
        "P": "unsigned f(unsigned v, int c) { int x = 40; if (c) x = 1;\n return v << x; }",
        "C": "unsigned f(unsigned v, int x) { unsigned r =\n v << x;\n if (x == 40) r = 1; return r; }",
    }),
    "o": ("integerOverflow", {
        "K": "int f(void) { int x = 2147483647;\n return x + 1; }",
        "P": "int f(int c) { int x = 2147483647; if (c) x = 1;\n return x + 1; }",
        "C": "int f(int x) { int r =\n x + 1;\n if (x == 2147483647) r = 1; return r; }",
    }),
    "i": ("invalidFunctionArg", {
        "K": "#include <stdlib.h>\nlong f(const char *s) { int x = 1;\n return strtol(s, 0, x); }",
        "P": "#include <stdlib.h>\nlong f(const char *s, int c) { int x = 1; if (c) x = 10;\n return strtol(s, 0, x); }",
        "C": "#include <stdlib.h>\nlong f(const char *s, int x) { long r =\n strtol(s, 0, x);\n if (x == 1) r = 1; return r; }",
    }),
}
COND_IDS = {"nullPointer": "nullPointerRedundantCheck", "zerodiv": "zerodivcond", "arrayIndexOutOfBounds": "arrayIndexOutOfBoundsCond",
            "shiftTooManyBits": "shiftTooManyBits", "integerOverflow": "integerOverflowCond", "invalidFunctionArg": "invalidFunctionArg"}


def run_severity(run, model, work):
    cases, lines = [], []
    for ck, (fid, progs) in sorted(SITES.items()):
        for kind, text in sorted(progs.items()):
            for warn in (False, True):
                cases.append((ck, fid, kind, text, warn))
                lines.append(["sev", ck, "1" if warn else "0", "0", "K" if kind == "K" else "P", "1" if kind == "C" else "0", "0", "0"])
    ker = model_lines(model, lines)
    diffs = []
    for (ck, fid, kind, text, warn), k in zip(cases, ker):
        path = os.path.join(work, "sev_%s_%s.c" % (ck, kind))
        open(path, "w").write(text + "\n")
        fs = vc.cppcheck_findings(path, "unix64", enable="warning" if warn else "", inconclusive=False, extra=("--library=std",)) \
            if warn else vc.cppcheck_findings(path, "unix64", enable="portability", inconclusive=False, extra=("--library=std",))
        got = "N"
        for f in fs:
            if f.id in (fid, COND_IDS[fid]):
                got = "E" if f.severity == "error" else "W"
        want = k[0].decode() if k else "?"
        run.count("severity", None, nontrivial=(ck, kind, warn), bucket="%s:%s" % (ck, want))
        if want != got:
            diffs.append(((ck, fid, kind, warn), want, got, text))
    return diffs


SHIFT_TYPES = [("_Bool", "b", 1), ("unsigned char", "c", 8), ("signed char", "c", 8), ("unsigned short", "h", 16), ("short", "h", 16),
               ("unsigned int", "i", 32), ("int", "i", 32), ("unsigned long", "l", 64), ("long", "l", 64), ("unsigned long long", "q", 64)]


def run_shift_sites(run, model, work):
    """single-site shifts with a Known count at the width boundaries, plain and compound, every operand type:
    shiftTooManyBits (error) iff the count reaches the width of the PROMOTED left operand"""
    cases, src = [], []
    for t, b, w in SHIFT_TYPES:
        for op in ("<<", ">>", "<<=", ">>="):
            if t == "_Bool" and op.endswith("="):
                continue
            for c in sorted({w - 1, w, 31, 32, 63, 64} - {0}):
                i = len(cases)
                if op.endswith("="):
                    src.append("unsigned long long f%d(%s v) { v %s %d; return v; }" % (i, t, op, c))
                else:
                    src.append("unsigned long long f%d(%s v) { return v %s %d; }" % (i, t, op, c))
                cases.append((t, b, op, c))
    path = os.path.join(work, "shift_sites.c")
    open(path, "w").write("\n".join(src) + "\n")
    got = {}
    for f in vc.cppcheck_findings(path, "unix64", enable="warning", inconclusive=False):
        if f.id == "shiftTooManyBits":
            got[f.line - 1] = "E" if f.severity == "error" else "W"
    ker = model_lines(model, [["shift", "32", "64", "64", b, str(c)] for (t, b, op, c) in cases])
    diffs = []
    for i, (case, k) in enumerate(zip(cases, ker)):
        want = k[0].decode() if k else "?"
        run.count("shift-sites", None, nontrivial=case, bucket="%s/%s" % (case[2], want))
        if want != got.get(i, "N"):
            diffs.append((case, want, got.get(i, "N"), src[i]))
    return diffs


# ------------------------------------------------------------------ X2 straight-line alloc/free programs
STMTS = ["mp", "mq", "fp", "fq", "ap", "aq", "np", "nq", "dp", "dq", "rp", "rq", "r-"]
RENDER = {"m": "%s = malloc(10);", "f": "free(%s);", "n": "%s = 0;", "d": "*%s = 1;"}
KIND_OF_ID = {"memleak": "L", "doubleFree": "D", "deallocuse": "U", "deallocret": "R"}


def render_leak(prog, name):
    lines = ["char *%s(void) {" % name, "  char *p = 0;", "  char *q = 0;"]
    for s in prog:
        k, v = s[0], s[1]
        if k == "a":
            lines.append("  %s = %s;" % (v, "q" if v == "p" else "p"))
        elif k == "r":
            lines.append("  return %s;" % ("0" if v == "-" else v))
        else:
            lines.append("  " + RENDER[k] % v)
    terminated = any(s[0] == "r" for s in prog)
    if not terminated:
        lines.append("  return 0;")
    lines.append("}")
    return lines


def gen_leak_prog(rng):
    n = rng.randint(1, 12)
    prog = []
    for _ in range(n):
        s = rng.choice(STMTS[:10]) if rng.random() < 0.93 else rng.choice(STMTS[10:])
        prog.append(s)
        if s[0] == "r":
            break
    return prog


def run_leak(run, model, work, nprog, name):
    rng = run.rng
    progs, seen = [], set()
    while len(progs) < nprog:
        p = gen_leak_prog(rng)
        if tuple(p) not in seen:
            seen.add(tuple(p))
            progs.append(p)
    src, first = ["#include <stdlib.h>"], []
    for i, p in enumerate(progs):
        first.append(len(src) + 1)
        src += render_leak(p, "f%d" % i)
    path = os.path.join(work, name + ".c")
    open(path, "w").write("\n".join(src) + "\n")
    owner = {}
    for i, a in enumerate(first):
        b = first[i + 1] if i + 1 < len(first) else len(src) + 1
        for ln in range(a, b):
            owner[ln] = i
    got = [set() for _ in progs]
    for f in vc.cppcheck_findings(path, "unix64", enable="warning", inconclusive=False, extra=("--library=std",)):
        if f.id in KIND_OF_ID and f.line in owner:
            i = owner[f.line]
            m = re.search(r"(?:leak: |by '|Dereferencing '|Returning/dereferencing ')(\w)", f.msg)
            idx = f.line - first[i] - 3          # statement index (3 = header + two declarations)
            if idx == len(progs[i]) + 1:         # closing brace: same as the appended return
                idx = len(progs[i])
            got[i].add("%d:%s%s" % (idx, KIND_OF_ID[f.id], m.group(1) if m else "?"))
    ker = model_lines(model, [["leak", "".join(p)] for p in progs])
    sem = model_lines(model, [["exec", "".join(p)] for p in progs])
    diffs, wrong = [], []
    prefixes, powner = [], []
    for i, p in enumerate(progs):
        want = set(x.decode() for x in ker[i]) - {"-"}
        v = sem[i][0].decode()
        run.count("leak", None, nontrivial=tuple(p) if (want or got[i]) else None, bucket="len%d/%s/%s" % (len(p), v, "findings" if got[i] else "none"))
        if want != got[i]:
            diffs.append((p, sorted(want), sorted(got[i]), render_leak(p, "f")))
        for g_ in got[i]:
            idx, kv = g_.split(":")
            prefixes.append(["exec", "".join(p[:int(idx) + 1])])
            powner.append((i, g_))
    pv = model_lines(model, prefixes) if prefixes else []
    for (i, g_), v in zip(powner, pv):
        v = v[0].decode()
        kind = g_.split(":")[1][0]
        ok = {"L": v in "lDUN", "D": v in "DUN", "U": v in "UDN", "R": v in "UDNlc"}[kind]
        if not ok:
            wrong.append((progs[i], g_, v, render_leak(progs[i], "f")))
    return diffs, wrong, progs, sem


def asan_run(work, lines, call, name):
    """compile one function + main under ASan/UBSan/LSan; returns 'clean' | 'leak' | 'asan' | 'ubsan'"""
    path = os.path.join(work, name + "_asan.c")
    open(path, "w").write("#include <stdlib.h>\n" + "\n".join(lines) + "\nint main(void) { %s return 0; }\n" % call)
    exe = os.path.join(work, name + "_asan")
    vc.gcc_build(path, exe, flags=("-fsanitize=address,undefined", "-fno-omit-frame-pointer"), opt="-O0")
    rc, out, err = vc.run_exe(exe, timeout=60)
    if "LeakSanitizer" in err:
        return "leak"
    if "AddressSanitizer" in err:
        return "asan"
    if "runtime error" in err:
        return "ubsan"
    return "clean" if rc == 0 else "rc%d" % rc


# ------------------------------------------------------------------ X3 guarded programs
def run_guarded(run, work, nfuncs, name):
    # fixed family (independent of VERIF_SEED; quick = a prefix of thorough), as for C03's X2
    gen = (c04_gen.WidthGen if name.startswith("w") else c04_gen.Gen)(random.Random("C04-x3-family-%s" % name))
    funcs = [gen.function("f%d" % i) for i in range(nfuncs)]
    plain = gen.prologue() + "\n".join(t for f in funcs for t in f.text) + "\n"
    path = os.path.join(work, name + ".c")
    open(path, "w").write(plain)
    spans, ln = {}, gen.prologue().count("\n") + 1
    for f in funcs:
        spans[f.name] = (ln, ln + len(f.text) - 1)
        f.first_line = ln
        ln += len(f.text)
    findings = vc.cppcheck_findings(path, "unix64", enable="warning", inconclusive=False, extra=("--library=std",))
    errs = {}
    for fd in findings:
        if fd.severity == "error":
            for fn, (a, b) in spans.items():
                if a <= fd.line <= b:
                    errs.setdefault(fn, []).append(fd)
    # run everything under the sanitizers: one process per file, a function with any report is "not clean"
    drv = [plain, "#include <stdio.h>", "int main(void) {"]
    for f in funcs:
        drv.append("  " + f.driver)
    drv += ["  return 0;", "}"]
    rpath = os.path.join(work, name + "_run.c")
    open(rpath, "w").write("\n".join(drv) + "\n")
    exe = os.path.join(work, name + "_run")
    vc.gcc_build(rpath, exe, flags=("-fsanitize=address,undefined", "-fno-omit-frame-pointer"), opt="-O1")
    rc, out, err = vc.run_exe(exe, timeout=600, env={"ASAN_OPTIONS": "detect_leaks=1:halt_on_error=0:exitcode=0", "UBSAN_OPTIONS": "halt_on_error=0"})
    dirty = set()
    for m in re.finditer(r"%s:(\d+)" % re.escape(os.path.basename(rpath)), err):
        l0 = int(m.group(1))
        for fn, (a, b) in spans.items():
            if a <= l0 <= b:
                dirty.add(fn)
    if "AddressSanitizer" in err and not dirty:
        dirty = set(spans)      # cannot attribute: judge nothing
    cand = []
    for f in funcs:
        run.count("guarded", None, nontrivial=(name, f.name), bucket=",".join(sorted(f.ops)) + ("/dirty" if f.name in dirty else ""))
        if f.name in dirty:
            continue
        for fd in errs.get(f.name, []):
            cand.append((f, fd))
    # the property speaks about expressions that some execution evaluates: count how often the flagged line is reached
    bad = []
    if cand:
        out_l = [gen.prologue(), "#include <stdio.h>", "static long long hit_[%d]; static int w_[%d][3]; static int a_[3];" % (len(cand) + 1, len(cand) + 1)]
        drv = ["int main(void) {"]
        for k, (f, fd) in enumerate(cand):
            a, b = spans[f.name]
            text = list(f.text)
            text[0] = text[0].replace(f.name + "(", "%s_%d(" % (f.name, k))
            rel = fd.line - a
            text.insert(rel, "  if (hit_[%d]++ == 0) { w_[%d][0] = a_[0]; w_[%d][1] = a_[1]; w_[%d][2] = a_[2]; }" % (k, k, k, k))
            out_l += text
            params = re.findall(r"int (\w)", f.text[0].split("(", 1)[1])
            loops = "".join("for (int %s = %d; %s <= %d; %s++) " % (p_, c04_gen.DOM[0], p_, c04_gen.DOM[-1], p_) for p_ in params)
            sets = " ".join("a_[%d] = %s;" % (i, p_) for i, p_ in enumerate(params))
            drv.append("  { volatile int s_ = 0; %s{ %s s_ += %s_%d(%s); } }" % (loops, sets, f.name, k, ", ".join(params)))
            drv.append("  printf(\"H %d %%lld %%d %%d %%d\\n\", hit_[%d], w_[%d][0], w_[%d][1], w_[%d][2]);" % (k, k, k, k, k))
        drv += ["  return 0;", "}"]
        hpath = os.path.join(work, name + "_hit.c")
        open(hpath, "w").write("\n".join(out_l + drv) + "\n")
        hexe = os.path.join(work, name + "_hit")
        vc.gcc_build(hpath, hexe, flags=(), opt="-O0")
        rc, out, err = vc.run_exe(hexe, timeout=600)
        hits = {}
        for l in out.split("\n"):
            t = l.split()
            if len(t) == 6 and t[0] == "H":
                hits[int(t[1])] = (int(t[2]), [int(x) for x in t[3:6]])
        for k, (f, fd) in enumerate(cand):
            n, w = hits.get(k, (None, None))
            if n is None:
                raise vlib.BuildError("reachability run failed for %s: %s" % (f.name, err[-300:]))
            run.count("guarded-error-findings", None, nontrivial=(name, f.name, fd.id), bucket=fd.id + (":dead-code" if n == 0 else ":reached"))
            if n > 0:
                params = re.findall(r"int (\w)", f.text[0].split("(", 1)[1])
                bad.append((f, fd, dict(zip(params, w)), n))
    return bad, len(dirty), findings


def classify_guarded(f, fd):
    # recorded: shiftTooManyBitsSigned (error) is also raised for a RIGHT shift of a signed value by width-1, which is defined
    # for non-negative values (and implementation-defined, never undefined, for negative ones)
    if fd.id == "shiftTooManyBitsSigned":
        rel = fd.line - f.first_line
        if 0 <= rel < len(f.text) and ">>" in f.text[rel] and "<<" not in f.text[rel]:
            return "shift-signed-right-by-width-minus-1"
    return None


def check(run, replay):
    quick = run.tier == "quick"
    run.trusted_base += [
        "Coq 8.16.1 kernel; extraction ExtrOcamlBasic only; ocaml/driver.ml",
        "concrete heap semantics `exec` (Sev/Defs.v): cells numbered in allocation order, malloc never fails, free(NULL) is a no-op, "
        "double free / use after free / null dereference are explicit UB outcomes; cross-checked against gcc ASan/LSan on a sample",
        "X3 oracle: gcc 12 -fsanitize=address,undefined over the whole declared input domain of each generated function; generator tools/props/c04_gen.py",
        "partial: value flow, uninitvar, buffer and lifetime analysis are not modelled; their error findings are validated per generated program only",
    ]
    run.extra["rule"] = ("X1: one program per checker x value kind (Known / Possible / conditional) x --enable=warning on/off. "
                         "X2 non-trivial = a distinct straight-line program for which the model or the binary reports a finding. "
                         "X3 non-trivial = a distinct guarded function whose exhaustive sanitizer run is clean.")
    vlib.ensure_repo_build()
    ok = run.prove(extra_targets=["theories/Sev/Run.vo"])
    if not ok:
        run.violation("proof:" + PID, "Properties_C04.vo does not build: " + str(run.proof_error())[:300],
                      {"broken": "proof", "detail": run.proof_error()}, found_input=False)
    model = vlib.build_model(PID)
    work = tempfile.mkdtemp(prefix="c04_", dir=vlib.BUILD)
    try:
        # ---------------- X1
        for case, want, got, text in run_severity(run, model, work):
            run.stream("severity")["disagreements"] += 1
            run.violation("severity:%s:%s:%s" % (case[0], case[2], case[3]), "severity_of says %s, the binary reports %s for checker %s value kind %s warning=%s"
                          % (want, got, case[1], case[2], case[3]), {"broken": "correspondence severity_of", "program": text, "model": want, "binary": got},
                          found_input=False)
        for case, want, got, line in run_shift_sites(run, model, work):
            run.stream("shift-sites")["disagreements"] += 1
            run.violation("shift-site:%s:%s:%d" % (case[0], case[2], case[3]),
                          "shift_too_many says %s, the binary reports %s for `%s` (the left operand is promoted: width %s)" % (want, got, line, "int/long"),
                          {"program": line + "\n", "model": want, "binary": got,
                           "how": "cppcheck --enable=warning --platform=unix64 t.c; the count is %s the width of the promoted left operand" % ("at least" if want == "E" else "smaller than")},
                          found_input=(want == "N"))
        # ---------------- X2
        diffs, wrong, progs, sem = [], [], [], []
        for chunk in range(1 if quick else 6):      # the analyser is slow on very large files: 2000 programs per file
            d_, w_, p_, s_ = run_leak(run, model, work, 1500 if quick else 2000, "leak%d" % chunk)
            diffs += d_
            wrong += w_
            progs += p_
            sem += s_
        run.stream("leak")["disagreements"] += len(diffs)
        for p, want, got, lines in diffs[:3]:
            run.violation("leak-model:" + "".join(p), "leak_run says %s, the binary reports %s for %s" % (want, got, "".join(p)),
                          {"broken": "correspondence leak_run", "program": "#include <stdlib.h>\n" + "\n".join(lines) + "\n", "model": want, "binary": got},
                          found_input=False)
        seen = set()
        for p, g_, v, lines in sorted(wrong, key=lambda w: len(w[0])):
            kind, vname = g_.split(":")[1][0], g_.split(":")[1][1]
            idx = int(g_.split(":")[0])
            env_, fresh_ = {"p": None, "q": None}, 0      # which cell each variable points to before statement idx
            for st_ in p[:idx]:
                if st_[0] == "m":
                    fresh_ += 1
                    env_[st_[1]] = fresh_
                elif st_[0] == "a":
                    env_[st_[1]] = env_["q" if st_[1] == "p" else "p"]
                elif st_[0] == "n":
                    env_[st_[1]] = None
            never_set = env_.get(vname) is None
            key = "doublefree-null-pointer" if (kind == "D" and never_set) else "leak-wrong:" + kind + ":" + "".join(p)
            if key in seen:
                continue
            seen.add(key)
            conf = asan_run(work, lines, "free(f());", "conf")
            run.violation(key, "finding %s on a program whose execution up to there is %s (ASan/LSan: %s)" % (g_, v, conf),
                          {"program": "#include <stdlib.h>\n" + "\n".join(lines) + "\n", "finding": g_, "semantics": v, "sanitizers": conf})
        # cross-check the Coq heap semantics against ASan/LSan
        k = 15 if quick else 60
        sample = run.rng.sample(range(len(progs)), k)
        def returns_dangling(p_):
            # the driver frees the returned pointer: not applicable when the function returns an already freed cell
            env_, fresh_, freed_ = {"p": None, "q": None}, 0, set()
            for st_ in p_:
                if st_[0] == "m":
                    fresh_ += 1
                    env_[st_[1]] = fresh_
                elif st_[0] == "a":
                    env_[st_[1]] = env_["q" if st_[1] == "p" else "p"]
                elif st_[0] == "n":
                    env_[st_[1]] = None
                elif st_[0] == "f" and env_[st_[1]] is not None:
                    freed_.add(env_[st_[1]])
                elif st_[0] == "r":
                    return st_[1] != "-" and env_[st_[1]] in freed_
            return False
        for i in sample:
            if returns_dangling(progs[i]):
                run.count("heap-semantics-vs-asan", None, bucket="skipped:returns-freed-pointer")
                continue
            v = sem[i][0].decode()
            lines = render_leak(progs[i], "f")
            got = asan_run(work, lines, "free(f());", "x")
            want = {"c": "clean", "l": "leak", "D": "asan", "U": "asan", "N": "asan"}[v]
            if want == "asan" and got in ("asan", "ubsan", "rc-11", "rc1"):
                got = "asan"
            run.count("heap-semantics-vs-asan", None, nontrivial=tuple(progs[i]), bucket=v)
            if want != got:
                run.stream("heap-semantics-vs-asan")["disagreements"] += 1
                run.violation("semantics:" + "".join(progs[i]), "heap semantics says %s, ASan/LSan run says %s for %s" % (v, got, "".join(progs[i])),
                              {"broken": "reference semantics", "program": "\n".join(lines)}, found_input=False)
        # ---------------- X3
        rounds = 3 if quick else 30
        tot_dirty = 0
        wrounds = 2 if quick else 10      # third family (integer widths / compound assignments), own constant seeds
        for rd in range(rounds + wrounds):
            bad, ndirty, findings = run_guarded(run, work, 80 if quick else 150, "g%d" % rd if rd < rounds else "w%d" % (rd - rounds))
            tot_dirty += ndirty
            seen = set()
            for f, fd, inp, nhit in bad:
                key = classify_guarded(f, fd) or "guarded:%s:%s" % (fd.id, re.sub(r"\s+", " ", " ".join(f.text))[-160:])
                if key in seen:
                    continue
                seen.add(key)
                run.stream("guarded")["disagreements"] += 1
                run.violation(key, "error finding %s on a function whose every execution is clean under ASan/UBSan; the flagged line is reached %d times, first for %s: %s"
                              % (fd.id, nhit, inp, fd.msg[:120]),
                              {"program": c04_gen.Gen(None).prologue() + "\n".join(f.text) + "\n", "finding": fd.show(), "domain": f.domain, "input": inp,
                               "how": "cppcheck --enable=warning --library=std t.c; gcc -fsanitize=address,undefined, call the function over `domain`"})
            if len(run.samples) < 8:
                run.samples += [{"stream": "guarded", "finding": fd.show()} for fd in findings if fd.severity == "error"][:2]
        run.extra["guarded_dirty_functions"] = tot_dirty
    finally:
        shutil.rmtree(work, ignore_errors=True)


if __name__ == "__main__":
    vlib.main(check, PID)
