"""Case generators for C15 (message codec, hasToLog) and helpers shared with C21.

All random choices come from the rng handed in (run.rng, seeded by VERIF_SEED).
The generators aim at the case splits of Par/CodecProofs.v: printable vs
non-printable bytes in the three fixInvalidChars fields, tab / no tab in the
frame file names, digits and blanks at field boundaries (length parsing),
extreme numbers, 0..5 frames.
"""
import os
import sys

sys.path.insert(0, os.path.dirname(os.path.dirname(os.path.abspath(__file__))))
import vlib

INT_MIN, INT_MAX = -2**31, 2**31 - 1
SEVS = 9


def gen_bytes(rng, maxlen=12, tabs=True):
    k = rng.random()
    n = rng.randint(0, maxlen)
    if k < 0.08:
        return b""
    if k < 0.45:
        alpha = b"abcXYZ09 _-.:/[]$"
    elif k < 0.6:
        alpha = b"0123456789 +-"            # looks like a length prefix
    elif k < 0.75:
        alpha = b"ab \t\n\r\x0b\x0c" if tabs else b"ab \n\r\x0b\x0c"
    elif k < 0.87:
        alpha = bytes(range(0, 32)) + b"\x7f\x80\xff\\"
    else:
        alpha = bytes(range(256))
    s = bytes(rng.choices(alpha, k=n))
    if not tabs:
        s = s.replace(b"\t", b"_")
    return s


def gen_num(rng, lo, hi):
    k = rng.random()
    if k < 0.5:
        return rng.choice([lo, hi, 0, 1, max(lo, -1), min(hi, 9), min(hi, 10), min(hi, 99), min(hi, 100), hi - 1, lo + 1])
    if k < 0.75:
        return rng.randint(max(lo, -300), min(hi, 300))
    return rng.randint(lo, hi)


def gen_file(rng, hostile):
    """a frame file name; hostile = may contain a tab"""
    k = rng.random()
    if k < 0.5:
        return rng.choice([b"a.c", b"b.c", b"src/x.h", b"/abs/dir/f.cpp", b"x y.c", b"", b"..", b"../a.c"])
    return gen_bytes(rng, 8, tabs=hostile)


def gen_msg(rng, hostile_files=0.15, nframes=None):
    """fields: id sev cwe hash remark file0 inc short verbose symbols nframes (line col file orig info)*"""
    nf = rng.randint(0, 5) if nframes is None else nframes
    f = [gen_bytes(rng, 10), rng.randrange(SEVS), gen_num(rng, 0, 65535), gen_num(rng, 0, 2**64 - 1),
         gen_bytes(rng), gen_file(rng, True), rng.random() < 0.3, gen_bytes(rng, 16), gen_bytes(rng, 16), gen_bytes(rng), nf]
    for _ in range(nf):
        h = rng.random() < hostile_files
        f += [gen_num(rng, INT_MIN, INT_MAX), gen_num(rng, 0, 2**32 - 1), gen_file(rng, h), gen_file(rng, h), gen_bytes(rng)]
    return f


def msg_has_tab_in_files(c):
    nf = c[10]
    for k in range(nf):
        if b"\t" in c[11 + 5 * k + 2] or b"\t" in c[11 + 5 * k + 3]:
            return True
    return False


def msg_nonprintable(c):
    return any(any(b < 32 or b > 126 for b in c[i]) for i in (4, 7, 8))


def frame_files(c):
    return [(11 + 5 * k + 2) for k in range(c[10])]


def mutate_wire(rng, w):
    """a malformed (or still well-formed) variant of a wire string"""
    w = bytearray(w)
    k = rng.random()
    if k < 0.2 and w:
        del w[rng.randrange(len(w)):]                      # truncate
    elif k < 0.35 and w:
        i = rng.randrange(len(w))
        w[i] = rng.choice(b"0123456789 \t+-x")             # overwrite one byte
    elif k < 0.5:
        i = rng.randrange(len(w) + 1)
        w[i:i] = rng.choice([b" ", b"\t", b"\n", b"+", b"0", b"00", b"-0", b"-4294967295", b"9"])
    elif k < 0.6 and w:
        i = rng.randrange(len(w))
        del w[i:i + rng.randint(1, 3)]
    elif k < 0.7:
        w += rng.choice([b"", b" ", b"1 ", b"3 a\tb", b"7 1\t2\tf\to", b"9 1\t2\tf\to\ti", b"5 x\t1\tf\to", b"6 1\t-1\tf\to", b"8 01\t1\tf\to\t"])
    elif k < 0.8:
        return bytes(rng.choices(b"0123456789 \tab+-", k=rng.randint(0, 40)))
    elif k < 0.9 and w:
        # bump a digit of some length prefix
        idx = [i for i, b in enumerate(w) if 48 <= b <= 57]
        if idx:
            i = rng.choice(idx)
            w[i] = 48 + (w[i] - 48 + rng.randint(1, 9)) % 10
    return bytes(w)


def wire_is_heavy(w):
    """a digit run that, read as a length, would make deserialize allocate > 10 MB
    (temp.resize(len) happens before the read); such mutated wires are not sent"""
    import re
    for m in re.finditer(rb"-?[0-9]+", w):
        t = m.group(0)
        v = int(t)
        if v < 0:
            v = (2**32 + v) if -2**32 < v else 2**32
        if 10**7 < v < 2**32:
            return True
    return False


# error message of ErrorMessage::deserialize -> model error code
ERR_CODES = [
    (b"invalid length (stack)", 9), (b"invalid separator (stack)", 10), (b"premature end of data (stack)", 11),
    (b"invalid length", 1), (b"invalid separator", 2), (b"premature end of data", 3), (b"invalid CWE ID", 5),
    (b"invalid hash", 6), (b"invalid stack size", 7), (b"Deserializing of error message failed", 12),
    (b"runtime_error:", 13),
]


def canon_deser(out):
    """map the implementation's exception text to the model's error code"""
    if out and out[0] == b"E" and len(out) == 2 and not out[1].isdigit():
        for pat, code in ERR_CODES:
            if pat in out[1]:
                return [b"E", str(code).encode()]
        return [b"E", b"?" + out[1]]
    return out


# ---- full messages for hasToLog with a location template: small domains so that equal head lines
# (last frame, id, message) with different note trails, and exact duplicates, are both frequent
H_FILES = [b"a.c", b"b.c", b"x.h"]
H_INFOS = [b"", b"n1", b"n2"]


def gen_htl_msg(rng, ids, texts):
    nf = rng.choice([0, 1, 1, 2, 2, 3])
    sev = 8 if rng.random() < 0.08 else rng.choice([1, 2, 3])
    t = rng.choice(texts)
    f = [rng.choice(ids), sev, 0, rng.choice([0, 0, 7, 9]), b"", rng.choice(H_FILES), False, t, t + rng.choice([b"", b"!"]),
         rng.choice([b"", b"foo\n", b"foo\nbar\n"]), nf]
    for _ in range(nf):
        f += [rng.choice([1, 2, 3]), rng.choice([1, 5]), rng.choice(H_FILES), rng.choice(H_FILES), rng.choice(H_INFOS)]
    return f


# ---- suppression-state records (REPORT_SUPPR wire)
W_IDS = [b"nullPointer", b"zerodiv", b"uninitvar", b"*", b"null*", b"misra-c2012-1.1", b"a_b", b""]
W_FILES = [b"", b"a.c", b"src/x.h", b"dir/sub/f.cpp", b"C:/x/y.c", b"a:b", b"a:b.c", b"dir:1", b"x", b"*.c", b"a.c:", b"f.c:12"]
W_SYMS = [b"", b"foo", b"ns::f", b"a b", b"x*"]
W_COMMENTS = [b"", b"why", b"a;b", b";", b"x;;y", b"see #12", b"// c"]
W_SERR = [(b"filename is missing", 21), (b"invalid line number", 22), (b"unexpected extra", 23), (b"converting", 24)]


def gen_ws(rng):
    """fields: id file line symbol poly col checked matched comment"""
    hostile = rng.random() < 0.2

    def h(pool):
        if hostile and rng.random() < 0.5:
            return bytes(rng.choices(b"ab:;#/.\n =1", k=rng.randint(0, 6)))
        return rng.choice(pool)
    line = rng.choice([-1, -1, -1, 0, 1, 12, 2**31 - 1])
    return [h(W_IDS), h(W_FILES), line, h(W_SYMS), rng.random() < 0.1, rng.choice([0, 0, 1, 5, -1, 2**31 - 1]),
            rng.random() < 0.5, rng.random() < 0.5, h(W_COMMENTS)]


def gen_wire_garbage(rng):
    parts = [bytes(rng.choices(b"ab:#/.\n =1-", k=rng.randint(0, 8))) for _ in range(rng.randint(5, 7))]
    if rng.random() < 0.7:
        parts[1] = rng.choice([b"0", b"1", b"-1", b"12", b"x", b"", b"+3", b"007", b"99999999999"])
    return b";".join(parts)


def canon_sread(out):
    if out and out[0] == b"E" and len(out) == 2 and not out[1].isdigit():
        for pat, code in W_SERR:
            if pat in out[1]:
                return [b"E", str(code).encode()]
        return [b"E", b"?" + out[1]]
    return out
