"""Generators shared by the C30 check: <valid> expressions, argument values, cfg/C files."""
import re

I64_MIN, I64_MAX = -(1 << 63), (1 << 63) - 1
SIGMA_INT = b"0123456789:,-+!"
CORPUS_VALID = [b"1:2:3", b"-:1", b"1,,2", b"!0", b"1e.5", b"1:2,3:", b"", b":", b",", b"1,", b",1", b"1:,2", b":1:",
                b"+5", b"1e5", b"-1e-5", b"1-2", b"!-5", b"!!5", b"1!2", b"e", b"e5", b"1:e", b":,", b":,1", b"!", b"-",
                b"5:!6", b"010", b"08", b"-010", b":+5", b"00", b"-0", b"0:", b":0", b"5:3", b"3:5", b"-5:-3", b"-3:-5",
                b"18446744073709551615", b"18446744073709551616", b"-9223372036854775809", b"9223372036854775808:",
                b"9223372036854775807", b"-9223372036854775808", b":-9223372036854775808", b"01777777777777777777777",
                b"02000000000000000000000", b"-18446744073709551615", b"1:2,", b"1 :2", b" 1", b"1\x00:x", b".5", b"1.", b"1.5",
                b":.5", b",.5", b"1.5.5", b"1.5:2.5", b"1ee5", b"1e5e", b"1e5:2e5", b"0,2:36", b":-1,1:", b"-10:20", b"0,3,5",
                b"1:5,8", b"-1,5", b":1,5", b"0:1023", b"-7:0", b"1+2", b"1:+2", b"+1:2", b"1:2:", b"::", b"1::2", b"-1:-1",
                b"7,7,7", b":5,:3", b"5:,3:", b"99999999999999999999:", b"1,99999999999999999999", b"99999999999999999999,1"]


def num_pool(rng):
    k = rng.random()
    if k < 0.55:
        return rng.randint(-20, 20)
    if k < 0.75:
        return rng.randint(-300, 70000)
    if k < 0.85:
        return rng.choice([I64_MAX, I64_MIN, I64_MAX - 1, I64_MIN + 1, (1 << 31) - 1, -(1 << 31), (1 << 32) - 1, 1 << 32])
    if k < 0.92:
        return rng.choice([1 << 63, (1 << 64) - 1, 1 << 64, -(1 << 63) - 1, -(1 << 64) + 1, -(1 << 64), 10 ** 20, -10 ** 20])
    return rng.randint(I64_MIN, I64_MAX)


def gen_item(rng, ordered=True):
    k = rng.randrange(4)
    a, b = num_pool(rng), num_pool(rng)
    if ordered and a > b and rng.random() < 0.9:
        a, b = b, a
    if k == 0:
        return "%d" % a
    if k == 1:
        return "%d:%d" % (a, b)
    if k == 2:
        return "%d:" % a
    return ":%d" % b


def gen_grammar(rng):
    """An expression of the documented language: !v (8%) or item(,item)*."""
    if rng.random() < 0.08:
        return ("!%d" % num_pool(rng)).encode()
    n = rng.choice([1, 1, 1, 2, 2, 3, 4])
    return ",".join(gen_item(rng) for _ in range(n)).encode()


def mutate(rng, s, alphabet):
    s = bytearray(s)
    for _ in range(rng.choice([1, 1, 2, 3])):
        k = rng.randrange(4)
        pos = rng.randrange(len(s) + 1)
        if k == 0 or not s:
            s.insert(pos, rng.choice(alphabet))
        elif k == 1:
            del s[min(pos, len(s) - 1)]
        elif k == 2:
            s[min(pos, len(s) - 1)] = rng.choice(alphabet)
        else:
            j = rng.randrange(len(s))
            s.insert(pos, s[j])
    return bytes(s)


def gen_valid_text(rng):
    """Mixed stream: grammar (40%), near-grammar over the integer alphabet (35%), random over it (15%),
    with '.', 'e', 'E', space or another byte (10%). Never contains XML specials or NUL."""
    k = rng.random()
    if k < 0.40:
        return gen_grammar(rng)
    if k < 0.75:
        return mutate(rng, gen_grammar(rng), SIGMA_INT)
    if k < 0.90:
        return bytes(rng.choice(SIGMA_INT) for _ in range(rng.randint(1, 7)))
    alpha = SIGMA_INT + b".eE.eE x_/a\t"
    return mutate(rng, gen_grammar(rng), alpha)


def gen_any_text(rng):
    """For isCompliantValidationExpression alone: any bytes incl. NUL and >= 0x80."""
    k = rng.random()
    if k < 0.7:
        return gen_valid_text(rng)
    alpha = SIGMA_INT * 3 + b".eE.eE" + bytes([0, 1, 9, 32, 47, 59, 60, 127, 128, 255, 0x30 + 128])
    return bytes(rng.choice(alpha) for _ in range(rng.randint(0, 8)))


def wrap64(x):
    return (x + (1 << 63)) % (1 << 64) - (1 << 63)


def values_for(rng, text, extra=3):
    """Argument values around every bound of the expression (+-1), under the decimal and the
    octal reading, wrapped to 64 bit, plus 0/+-1, the extremes and a few random ones."""
    vals = {0, 1, -1, I64_MIN, I64_MAX}
    for m in re.finditer(rb"-?[0-9]+", text):
        t = m.group(0)
        for base in (10, 8):
            try:
                v = int(t, base)
            except ValueError:
                continue
            for d in (-1, 0, 1):
                for w in (v + d, -v + d):
                    if I64_MIN <= w <= I64_MAX:
                        vals.add(w)
                    vals.add(wrap64(w))
    for _ in range(extra):
        vals.add(num_pool(rng) if rng.random() < 0.5 else rng.randint(-40, 40))
    return sorted(v for v in vals if I64_MIN <= v <= I64_MAX)


def shape(text):
    """Bucket for the input distribution."""
    if any(c in text for c in b".eE"):
        return "float-ish"
    if any(c not in SIGMA_INT for c in text):
        return "foreign-char"
    n = text.count(b",") + 1
    return "int,%d-item%s%s%s" % (min(n, 4), ",neg" if b"-" in text else "", ",bang" if b"!" in text else "", ",plus" if b"+" in text else "")
