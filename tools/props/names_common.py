"""Shared by C05 and C08: VariableMap op generators, trace conversion, a generator of scoped C/C++
programs, the clang reference (AST json) and the cppcheck dump reader for name links.
Nothing is decided here: these are inputs and projections of the two tools' outputs."""
import json
import os
import re
import subprocess
import sys
import xml.etree.ElementTree as ET

sys.path.insert(0, os.path.dirname(os.path.dirname(os.path.abspath(__file__))))
import vlib

NAMES = [b"a", b"b", b"x", b"i", b"n"]


# ------------------------------------------------------------------ op sequences (class level)
def gen_ops(rng, wellformed=False):
    """Random VariableMap scripts. wellformed=False also produces Leave on an empty stack, redeclaration
    inside a frame, g flags inside frames."""
    ops, depth = [], 0
    declared = [set()]
    for _ in range(rng.randint(1, 24)):
        r = rng.random()
        if r < 0.14:
            ops.append(b"E"); depth += 1; declared.append(set())
        elif r < 0.28:
            if depth > 0 or not wellformed:
                ops.append(b"L")
                if depth > 0:
                    depth -= 1; declared.pop()
        elif r < 0.55:
            n = rng.choice(NAMES)
            if wellformed and depth > 0 and n in declared[-1]:
                continue
            g = (depth == 0) if wellformed or rng.random() < 0.7 else rng.random() < 0.5
            declared[-1].add(n)
            ops.append(b"A" + (b"1" if g else b"0") + n)
        elif r < 0.85:
            ops.append(b"U" + (b"1" if rng.random() < 0.2 else b"0") + (b"1" if rng.random() < 0.25 else b"0") + rng.choice(NAMES))
        elif r < 0.93:
            ops.append(b"F" + (b"1" if rng.random() < 0.3 else b"0") + rng.choice(NAMES))
        else:
            ops.append(b"N")
    return ops


def rename_ops(ops, rho):
    out = []
    for o in ops:
        c = o[:1]
        if c in (b"A", b"F"):
            out.append(o[:2] + rho(o[2:]))
        elif c == b"U":
            out.append(o[:3] + rho(o[3:]))
        else:
            out.append(o)
    return out


# ------------------------------------------------------------------ traces (setVarIdPass1 level)
def run_trace(src_path, lang_args=(), extra=()):
    """Run the hooked binary with the VariableMap trace on; returns (dump_path, [trace per translation unit])."""
    tr = src_path + ".vmtrace"
    try:
        os.remove(tr)
    except OSError:
        pass
    env = dict(os.environ, CPPCHECK_VERIF_VMTRACE=tr)
    subprocess.run([vlib.CPPCHECK, "-q", "--dump"] + list(lang_args) + list(extra) + [src_path], env=env,
                   stdout=subprocess.PIPE, stderr=subprocess.PIPE, timeout=120)
    units, curu = [], None
    if os.path.exists(tr):
        for line in open(tr, encoding="latin-1"):
            f = line.rstrip("\n").split(" ")
            if f[0] == "B":
                curu = []
                units.append(curu)
            elif curu is not None:
                curu.append(f)
        os.remove(tr)
    return src_path + ".dump", units


def trace_to_case(unit):
    """One traced unit -> (ops fields, expected outputs, use sites). Gaps in the id counter become Fresh ops
    (setVarIdStructMembers takes ids through getVarId())."""
    ops, exp, sites = [], [], []
    nxt = 0
    for f in unit:
        k = f[0]
        if k == "E":
            ops.append(b"E"); exp.append(0)
        elif k == "L":
            ops.append(b"L"); exp.append(int(f[1]))
        elif k == "A":
            name, g, idv = f[1].encode("latin-1"), f[2], int(f[3])
            while nxt + 1 < idv:
                nxt += 1
                ops.append(b"N"); exp.append(nxt)
            nxt = idv
            ops.append(b"A" + g.encode() + name); exp.append(idv)
        elif k == "U":
            name = f[1].encode("latin-1")
            ops.append(b"U" + f[2].encode() + f[3].encode() + name); exp.append(int(f[4]))
            sites.append((len(ops) - 1, int(f[5]), int(f[6])))
        elif k == "Z":
            pass
    return ops, exp, sites


# ------------------------------------------------------------------ scoped program generator
class Gen:
    """Generates a translation unit rich in shadowing. Well-formedness is approximated by a scope
    environment; clang is the judge (ill-formed programs are dropped and counted)."""

    VN = ["a", "b", "x", "i", "n", "p"]

    def __init__(self, rng, cpp):
        self.rng, self.cpp = rng, cpp
        self.out = []
        self.scopes = []          # list of dict name -> kind ('int', 'struct:S', 'arr')
        self.funcs = []           # (name, nparams)
        self.structs = {}         # name -> members
        self.nfun = 0
        self.features = set()
        self.local_structs = set()
        self.nlam = 0

    # -- environment
    def visible(self, kind="int"):
        seen, res = set(), []
        for sc in reversed(self.scopes):
            for n, k in sc.items():
                if k == "forbidden":
                    continue
                if n not in seen:
                    seen.add(n)
                    if k == kind:
                        res.append(n)
        return res

    def fresh_in_scope(self, extra_forbidden=()):
        cand = [n for n in self.VN if n not in self.scopes[-1] and n not in extra_forbidden]
        return self.rng.choice(cand) if cand else None

    # -- expressions
    def expr(self, d=0):
        r = self.rng.random()
        vis = self.visible()
        if vis and r < 0.55:
            return self.rng.choice(vis)
        if r < 0.65:
            vis_s = [n for n in self.visible_struct()]
            if vis_s:
                s = self.rng.choice(vis_s)
                self.features.add("member")
                return "%s.%s" % (s[0], self.rng.choice(self.structs[s[1]]))
        if r < 0.72 and self.funcs and d < 2:
            f, k = self.rng.choice(self.funcs)
            self.features.add("call")
            return "%s(%s)" % (f, ", ".join(self.expr(d + 1) for _ in range(k)))
        if r < 0.8 and d < 2:
            return "(%s %s %s)" % (self.expr(d + 1), self.rng.choice("+-*<"), self.expr(d + 1))
        if self.cpp and r < 0.84 and "a" in self.scopes[0] and self.scopes[0]["a"] == "int":
            self.features.add("::global")
            return "::a"
        return str(self.rng.randint(0, 9))

    def visible_struct(self):
        seen, res = set(), []
        for sc in reversed(self.scopes):
            for n, k in sc.items():
                if k == "forbidden":
                    continue
                if n not in seen:
                    seen.add(n)
                    if k.startswith("struct:"):
                        res.append((n, k[7:]))
        return res

    # -- statements
    def stmt(self, depth, ind):
        r = self.rng.random()
        pad = "  " * ind
        if r < 0.22:
            n = self.fresh_in_scope()
            if n:
                self.scopes[-1][n] = "int"
                init = self.expr()
                st = self.rng.random()
                if st < 0.15:
                    self.features.add("static-local")
                    return [pad + "static int %s = %d;" % (n, self.rng.randint(0, 9))]
                return [pad + "int %s = %s;" % (n, init)]
        if r < 0.42:
            vis = self.visible()
            if vis:
                return [pad + "%s = %s;" % (self.rng.choice(vis), self.expr())]
        if r < 0.47:
            vs = self.visible_struct()
            if vs:
                s = self.rng.choice(vs)
                self.features.add("member")
                return [pad + "%s.%s = %s;" % (s[0], self.rng.choice(self.structs[s[1]]), self.expr())]
        if depth <= 0:
            return [pad + "(void)%s;" % self.expr()]
        if r < 0.57:
            self.features.add("block")
            return [pad + "{"] + self.block(depth - 1, ind + 1) + [pad + "}"]
        if r < 0.69:
            # for statement: the init declaration and (C only) a redeclaration inside the body block
            n = self.rng.choice(self.VN)
            self.features.add("for")
            self.scopes.append({n: "int"})
            head = pad + "for (int %s = %s; %s < 3; %s++) {" % (n, self.rng.randint(0, 2), n, n)
            if self.cpp:
                body = self.block_in_current(depth - 1, ind + 1)
            else:
                body = self.block(depth - 1, ind + 1)      # C: the body is a block of its own
                if n in self._last_block_decls:
                    self.features.add("for-body-redecl")
            self.scopes.pop()
            return [head] + body + [pad + "}"]
        if r < 0.79:
            c = self.expr()
            self.features.add("if")
            if self.cpp and self.rng.random() < 0.35:
                n = self.rng.choice(self.VN)
                self.features.add("if-decl")
                self.scopes.append({n: "int"})
                res = [pad + "if (int %s = %s) {" % (n, c)] + self.block(depth - 1, ind + 1, forbid=n)
                if self.rng.random() < 0.6:
                    res += [pad + "} else {"] + self.block(depth - 1, ind + 1, forbid=n)
                self.scopes.pop()
                return res + [pad + "}"]
            res = [pad + "if (%s) {" % c] + self.block(depth - 1, ind + 1)
            if self.rng.random() < 0.5:
                res += [pad + "} else {"] + self.block(depth - 1, ind + 1)
            return res + [pad + "}"]
        if r < 0.84:
            self.features.add("while")
            return [pad + "while (%s) {" % self.expr()] + self.block(depth - 1, ind + 1) + [pad + "  break;", pad + "}"]
        if r < 0.88 and self.structs:
            n = self.fresh_in_scope()
            if n:
                s = self.rng.choice(sorted(set(self.structs) - self.local_structs) or [None])
                if s is None:
                    return [pad + ";"]
                self.scopes[-1][n] = "struct:" + s
                self.features.add("local-struct-var")
                return [pad + "struct %s %s = {0};" % (s, n)]
        if r < 0.92:
            n = self.fresh_in_scope()
            m = self.rng.choice(self.VN)
            if n:
                nm = "A%d" % self.rng.randint(0, 99)
                if nm not in self.structs:
                    self.structs[nm] = [m]
                    self.local_structs.add(nm)
                    self.scopes[-1][n] = "struct:" + nm
                    self.features.add("local-struct-def")
                    return [pad + "struct %s { int %s; } %s = {0};" % (nm, m, n)]
        if r < 0.95 and self.cpp:
            self.nlam += 1
            n = "lam%d" % self.nlam
            if n:
                pn = self.rng.choice(self.VN)
                self.features.add("lambda")
                self.scopes.append({pn: "int"})
                body = self.block_in_current(depth - 1, ind + 1)
                self.scopes.pop()
                self.scopes[-1][n] = "lambda"
                return [pad + "auto %s = [&](int %s) {" % (n, pn)] + body + [pad + "};"]
        if r < 0.98 and not self.cpp:
            # block-scope prototypes: parameter names must not become variables of the block
            self.features.add("local-prototype")
            ps = self.rng.sample(self.VN, 2)
            return [pad + "int proto%d(int %s, int %s);" % (self.rng.randint(0, 9), ps[0], ps[1])]
        return [pad + "(void)%s;" % self.expr()]

    def block(self, depth, ind, forbid=None):
        self.scopes.append({forbid: "forbidden"} if forbid else {})
        res = self.block_in_current(depth, ind)
        self._last_block_decls = set(self.scopes[-1])
        self.scopes.pop()
        return res

    def block_in_current(self, depth, ind):
        res = []
        for _ in range(self.rng.randint(1, 4)):
            res += self.stmt(depth, ind)
        self._last_block_decls = set(self.scopes[-1])
        return res

    # -- top level
    # -- C++ class hierarchies: single inheritance, members redeclared in the derived class, member functions and
    #    constructors defined outside the class body, this-> / qualified / unqualified uses, static members, nested classes
    def member_expr(self, own, base, statics, local, bname, d=0):
        r = self.rng.random()
        allm = sorted(set(own) | set(base))
        if r < 0.35 and allm:
            return self.rng.choice(allm)                                   # unqualified
        if r < 0.5 and allm:
            return "this->" + self.rng.choice(allm)
        if r < 0.62 and base and bname:
            return "%s::%s" % (bname, self.rng.choice(sorted(base)))       # qualified: the base member
        if r < 0.72 and statics:
            return self.rng.choice(sorted(statics))
        if r < 0.8 and local:
            return self.rng.choice(sorted(local))
        if r < 0.9 and d < 2:
            return "(%s %s %s)" % (self.member_expr(own, base, statics, local, bname, d + 1), self.rng.choice("+-*"),
                                   self.member_expr(own, base, statics, local, bname, d + 1))
        return str(self.rng.randint(0, 9))

    def member_body(self, own, base, statics, params, bname, ind):
        pad = "  " * ind
        local = set(params)
        lines = []
        for _ in range(self.rng.randint(1, 4)):
            r = self.rng.random()
            allm = sorted(set(own) | set(base))
            if r < 0.2:
                n = self.rng.choice(self.VN)
                if n not in local:
                    lines.append(pad + "int %s = %s;" % (n, self.member_expr(own, base, statics, local, bname)))
                    local.add(n)
                    continue
            if r < 0.3:
                n = self.rng.choice(self.VN)
                lines.append(pad + "{ int %s = %s; (void)%s; }" % (n, self.member_expr(own, base, statics, local, bname), n))
                continue
            if allm and r < 0.8:
                tgt = self.rng.choice([self.rng.choice(allm), "this->" + self.rng.choice(allm)] +
                                      (["%s::%s" % (bname, self.rng.choice(sorted(base)))] if base and bname else []))
                if tgt in local and not tgt.startswith("this"):
                    tgt = "this->" + tgt
                lines.append(pad + "%s = %s;" % (tgt, self.member_expr(own, base, statics, local, bname)))
            else:
                lines.append(pad + "(void)%s;" % self.member_expr(own, base, statics, local, bname))
        return lines

    def class_hierarchy(self):
        self.nfun += 1
        k = self.nfun
        B, D = "B%d" % k, "D%d" % k
        bm = self.rng.sample(self.VN, self.rng.randint(2, 3))
        st = [m for m in self.VN if m not in bm][:1]
        redecl = self.rng.sample(bm, self.rng.randint(1, len(bm)))
        dm = redecl + [m for m in self.VN if m not in bm and m not in st][:self.rng.randint(0, 1)]
        self.features.update(["class-hierarchy", "member-redeclared-in-derived", "out-of-class-member-function", "static-member"])
        nested = self.rng.random() < 0.5
        out = ["struct %s {" % B] + ["  int %s;" % m for m in bm] + ["  static int %s;" % m for m in st] + \
              ["  %s();" % B, "  int getb();"]
        if nested:
            self.features.add("nested-class")
            nm = self.rng.sample(self.VN, 2)
            out += ["  struct In { int %s; int %s; int sum() const { return %s + %s; } };" % (nm[0], nm[1], nm[0], nm[1])]
        out += ["};", "struct %s : %s {" % (D, B)] + ["  int %s;" % m for m in dm] + \
               ["  %s();" % D, "  int get() const;", "  void set(int %s);" % bm[0], "  int inl() const { return %s; }" % self.member_expr(dm, bm, st, set(), B), "};"]
        out += ["int %s::%s = 0;" % (B, m) for m in st]
        out += ["%s::%s() : %s {}" % (B, B, ", ".join("%s(%d)" % (m, i) for i, m in enumerate(bm)))]
        out += ["int %s::getb() {" % B] + self.member_body(bm, [], st, [], None, 1) + ["  return %s;" % self.member_expr(bm, [], st, set(), None), "}"]
        out += ["%s::%s() : %s {}" % (D, D, ", ".join("%s(%d)" % (m, i + 5) for i, m in enumerate(dm)))]
        out += ["int %s::get() const {" % D, "  return %s;" % self.member_expr(dm, bm, st, set(), B), "}"]
        out += ["void %s::set(int %s) {" % (D, bm[0])] + self.member_body(dm, bm, st, [bm[0]], B, 1) + ["}"]
        return out

    def toplevel(self):
        r = self.rng.random()
        g = self.scopes[0]
        if self.cpp and r < 0.22:
            return self.class_hierarchy()
        if r < 0.3:
            cand = [n for n in self.VN if n not in g]
            if cand:
                n = self.rng.choice(cand)
                g[n] = "int"
                self.features.add("global")
                return ["%sint %s = %d;" % ("static " if self.rng.random() < 0.3 else "", n, self.rng.randint(0, 9))]
        if r < 0.42:
            nm = "S%d" % len(self.structs)
            ms = self.rng.sample(self.VN, self.rng.randint(1, 3))
            self.structs[nm] = ms
            self.features.add("struct")
            res = ["struct %s { %s };" % (nm, " ".join("int %s;" % m for m in ms))]
            cand = [n for n in self.VN if n not in g]
            if cand and self.rng.random() < 0.6:
                n = self.rng.choice(cand)
                g[n] = "struct:" + nm
                res.append("struct %s %s;" % (nm, n))
            return res
        if r < 0.52 and self.cpp:
            ns = "N%d" % self.rng.randint(0, 3)
            n = self.rng.choice(self.VN)
            self.features.add("namespace")
            self.scopes.append({n: "int"})
            f = self.function(1)
            self.scopes.pop()
            return ["namespace %s {" % ns, "  int %s = 1;" % n] + f + ["}"]
        if r < 0.6 and self.cpp:
            cn = "C%d" % self.rng.randint(0, 9)
            if cn in self.structs:
                return []
            ms = self.rng.sample(self.VN, 2)
            self.structs[cn] = [ms[0]]
            self.features.add("class")
            self.scopes.append({ms[0]: "int", ms[1]: "int"})
            self.scopes.append({})
            body = self.block_in_current(2, 2)
            self.scopes.pop()
            self.scopes.pop()
            return ["struct %s {" % cn, "  int %s;" % ms[0], "  static int %s;" % ms[1],
                    "  int m() {"] + body + ["    return %s;" % ms[0], "  }", "};", "int %s::%s = 0;" % (cn, ms[1])]
        return self.function(0)

    def function(self, ind):
        self.nfun += 1
        name = "f%d" % self.nfun
        k = self.rng.randint(0, 3)
        ps = self.rng.sample(self.VN, k)
        pad = "  " * ind
        self.scopes.append({p: "int" for p in ps})
        body = self.block_in_current(self.rng.randint(1, 3), ind + 1)
        self.scopes.pop()
        sig = "%sint %s(%s)" % ("static " if self.rng.random() < 0.3 else "", name,
                                ", ".join("int " + p for p in ps) if ps else ("" if self.cpp else "void"))
        res = [pad + sig + " {"] + body + [pad + "  return 0;", pad + "}"]
        if ind == 0:
            self.funcs.append((name, k))
        return res

    def program(self):
        self.scopes = [{}]
        lines = []
        for _ in range(self.rng.randint(2, 7)):
            lines += self.toplevel()
        if not self.funcs:
            lines += self.function(0)
        return "\n".join(lines) + "\n"


def gen_program(rng, cpp):
    g = Gen(rng, cpp)
    return g.program(), sorted(g.features)


# ------------------------------------------------------------------ clang reference
def clang_ast(path, cpp):
    std = ["-x", "c++", "-std=c++17"] if cpp else ["-x", "c", "-std=c11"]
    p = subprocess.run(["clang", "-fsyntax-only", "-w", "-Xclang", "-ast-dump=json"] + std + [path],
                       stdout=subprocess.PIPE, stderr=subprocess.PIPE, timeout=120)
    if p.returncode != 0:
        return None
    try:
        return json.loads(p.stdout.decode("utf-8", "replace"))
    except ValueError:
        return None


def clang_links(ast):
    """Walk the AST json in document order (clang omits `line`/`file` when unchanged from the previously
    printed location). Returns (decls, uses):
      decls: id -> dict(kind, name, line, col, prev)      (only declarations located in the main file)
      uses:  list of (line, col, name, referenced decl id, kind)   for DeclRefExpr and MemberExpr."""
    st = {"line": 0, "file": None, "main": None}
    decls, uses = {}, []

    def loc(o):
        # returns (line, col, in_main) and updates the running state
        if not isinstance(o, dict):
            return None
        if "spellingLoc" in o or "expansionLoc" in o:
            a = loc(o.get("spellingLoc"))
            b = loc(o.get("expansionLoc"))
            return b or a
        if "file" in o:
            st["file"] = o["file"]
            if st["main"] is None:
                st["main"] = o["file"]
        if "line" in o:
            st["line"] = o["line"]
        if "col" not in o:
            return None
        return (st["line"], o["col"], o.get("includedFrom") is None)

    def walk(n, parent=""):
        if not isinstance(n, dict):
            return
        l = loc(n["loc"]) if "loc" in n else None
        rb = re_ = None
        if "range" in n:
            rb = loc(n["range"].get("begin"))
            re_ = loc(n["range"].get("end"))
        k = n.get("kind", "")
        if k.endswith("Decl") and "id" in n and l:
            decls[n["id"]] = {"kind": k, "name": n.get("name"), "line": l[0], "col": l[1], "prev": n.get("previousDecl"),
                              "implicit": n.get("isImplicit", False), "file": st["file"], "parent": parent}
        if k == "DeclRefExpr" and rb and "referencedDecl" in n:
            rd = n["referencedDecl"]
            # a qualified name (N::a, ::a) begins at the qualifier: the name token is at range.end
            pos = re_ if re_ else rb
            uses.append((pos[0], pos[1], rd.get("name"), rd.get("id"), rd.get("kind")))
        if k == "MemberExpr" and re_ and "referencedMemberDecl" in n:
            uses.append((re_[0], re_[1], n.get("name"), n["referencedMemberDecl"], "FieldDecl"))
        for c in n.get("inner", []):
            walk(c, k)

    walk(ast)
    return decls, uses


def clang_entity(decls, did):
    """All declaration locations of the entity `did` belongs to (redeclaration chain)."""
    chain, seen = [], set()
    d = did
    while d and d in decls and d not in seen:
        seen.add(d)
        chain.append(d)
        d = decls[d]["prev"]
    first = chain[-1] if chain else did
    res = set()
    for k, v in decls.items():
        # every declaration whose chain reaches `first`
        x, guard = k, 0
        while x and x in decls and guard < 50:
            if x == first:
                res.add((v["line"], v["col"]))
                break
            x = decls[x]["prev"]
            guard += 1
    return res


# ------------------------------------------------------------------ cppcheck dump: name links
def dump_links(dump_path):
    """Returns (uses, nvars): uses = list of (line, col, str, varId, decl_loc or None, funcdecl_locs or None)."""
    root = ET.parse(dump_path).getroot()
    res = []
    for d in root.iter("dump"):
        tokloc = {}
        tl = d.find("tokenlist")
        if tl is None:
            continue
        for t in tl.findall("token"):
            tokloc[t.get("id")] = (int(t.get("linenr", "0")), int(t.get("column", "0")))
        var_decl = {}
        for vs in d.iter("variables"):
            for v in vs.findall("var"):
                var_decl[v.get("id")] = tokloc.get(v.get("nameToken"))
        fun_decl = {}
        for sc in d.iter("scope"):
            fl = sc.find("functionList")
            if fl is not None:
                for f in fl.findall("function"):
                    fun_decl[f.get("id")] = {tokloc.get(f.get("tokenDef")), tokloc.get(f.get("token"))} - {None}
        uses = []
        for t in tl.findall("token"):
            if t.get("type") != "name":
                continue
            v, f = t.get("variable"), t.get("function")
            if v or f or t.get("varId"):
                uses.append((int(t.get("linenr")), int(t.get("column")), t.get("str"), int(t.get("varId", "0")),
                             var_decl.get(v) if v else None, fun_decl.get(f) if f else None))
        res.append(uses)
    return res


def is_member_vs_global(decls, cppcheck_decl, clang_did):
    """classification of one known defect class: clang resolved a class member (field, or static member declared in a
    record), cppcheck linked a declaration that clang has at namespace scope (a global, or the out-of-class definition
    of another static member)"""
    d = decls.get(clang_did)
    if not d:
        return False
    first = d
    while first.get("prev") in decls:
        first = decls[first["prev"]]
    if not (d["kind"] == "FieldDecl" or first["parent"] in ("CXXRecordDecl", "RecordDecl")):
        return False
    for v in decls.values():
        if (v["line"], v["col"]) == tuple(cppcheck_decl) and v["kind"] == "VarDecl" and v["parent"] in ("TranslationUnitDecl", "NamespaceDecl", ""):
            return True
    return False


def compare_with_clang(dump_uses, decls, cl_uses):
    """Per use site both tools link: does cppcheck's declaration belong to the entity clang resolved?
    Returns (n_compared, mismatches[(line, col, name, cppcheck_decl, clang_decls)])."""
    cl = {}
    for (l, c, name, did, kind) in cl_uses:
        cl[(l, c)] = (name, did, kind)
    n, bad = 0, []
    for (l, c, s, vid, vdecl, fdecl) in dump_uses:
        if (l, c) not in cl:
            continue
        name, did, kind = cl[(l, c)]
        if name != s:
            continue
        ent = clang_entity(decls, did)
        if not ent:
            continue
        if vdecl is not None and kind in ("VarDecl", "ParmVarDecl", "FieldDecl", "BindingDecl"):
            n += 1
            if vdecl not in ent:
                bad.append((l, c, s, vdecl, sorted(ent), "member-vs-global" if is_member_vs_global(decls, vdecl, did) else ""))
        elif fdecl and kind in ("FunctionDecl", "CXXMethodDecl"):
            n += 1
            if not (fdecl & ent):
                bad.append((l, c, s, sorted(fdecl), sorted(ent), ""))
    return n, bad


def varid_partition_check(dump_uses):
    """distinct declarations never share an identity / one declaration has one identity:
    varId -> set of declaration locations must be a bijection on linked tokens."""
    by_id, by_decl = {}, {}
    for (l, c, s, vid, vdecl, fdecl) in dump_uses:
        if vid and vdecl:
            by_id.setdefault(vid, set()).add(vdecl)
            by_decl.setdefault(vdecl, set()).add(vid)
    return [(k, sorted(v)) for k, v in by_id.items() if len(v) > 1], [(k, sorted(v)) for k, v in by_decl.items() if len(v) > 1]


# ------------------------------------------------------------------ overload sets (Scope::findFunction fragment)
TYNAMES = ["short", "unsigned short", "int", "unsigned int", "long", "unsigned long", "long long", "unsigned long long",
           "float", "double", "long double"]


def gen_overloads(rng, has_best=None):
    """-> (source, sigs [(param type codes, ndefault)], calls [(line, arg type codes)]): one overload set `ov`, each
    overload defined on its own line (line = index + 1), then one caller per call; arguments are parameters of the caller"""
    nf = rng.randint(2, 4)
    arity = rng.randint(1, 3)
    pool = rng.sample(range(11), rng.randint(3, 6))
    sigs, seen = [], set()
    for _ in range(nf):
        k = arity if rng.random() < 0.8 else rng.randint(1, 3)
        ps = tuple(rng.choice(pool) for _ in range(k))
        nd = rng.randint(0, 1) if k > 1 and rng.random() < 0.25 else 0
        if ps in seen:
            continue
        seen.add(ps)
        sigs.append((list(ps), nd))
    lines = []
    for i, (ps, nd) in enumerate(sigs):
        prm = ", ".join("%s p%d%s" % (TYNAMES[t], j, " = 0" if j >= len(ps) - nd else "") for j, t in enumerate(ps))
        lines.append("int ov(%s) { return %d; }" % (prm, i))
    cand = []
    for c in range(8):
        na = arity if rng.random() < 0.85 else rng.randint(1, 3)
        cand.append([rng.choice(pool + list(range(11))) for _ in range(na)])
    # keep the calls that have a best viable function per the specification (the others are ill-formed: ambiguous / no match)
    keep = [at for at, ok in zip(cand, has_best(sigs, cand)) if ok][:5] if has_best else cand[:4]
    calls = []
    for c, at in enumerate(keep):
        prm = ", ".join("%s a%d" % (TYNAMES[t], j) for j, t in enumerate(at))
        lines.append("int c%d(%s) { return ov(%s); }" % (c, prm, ", ".join("a%d" % j for j in range(len(at)))))
        calls.append((len(lines), at))
    return "\n".join(lines) + "\n", sigs, calls


def ff_case(sigs, args):
    f = [str(len(sigs))]
    for ps, nd in sigs:
        f += [str(len(ps)), str(nd)] + [str(t) for t in ps]
    return [x.encode() for x in f + [str(t) for t in args]]
