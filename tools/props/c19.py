#!/usr/bin/env python3
"""C19  Incremental analysis is transparent across option changes.

prove:      coq/theories/Properties_C19.v (option-change histories are transparent under a faithful key;
            status of the obligation key_covers key_fields c19_options for the current source; every
            listed option that is not streamed into toolinfo is invisible to the key)
translate:  tools/translate/keyfields.py -> Cache/Gen_KeyFields.v : the members CppCheck::calculateHash streams
correspond: model toolinfo (renderings of the members in key_fields order) -> std::hash  vs  the real
            CppCheck::calculateHash on Settings built from the same option set (harness/vh_c18.cpp toolhash)
search:     for every option of the property's list: a two-run history on the real binary that changes only
            this option over a file whose findings depend on it (both directions), cached vs fresh; an
            option the model reports missing and whose history differs is a finding `toolinfo-omits-<member>`
"""
import os
import sys

sys.path.insert(0, os.path.dirname(os.path.dirname(os.path.abspath(__file__))))
import vlib
from props import cache_common as C
from translate import keyfields

PID = "C19"

# member -> (file name, source, extra files, options A, options B)   A and B differ only in the option
SCEN = {
    "inconclusive": ("a.c", "int f(int x)\n{\n  if (x == 1);\n  {\n    x = 2;\n  }\n  return x;\n}\n", {}, ["--enable=warning"], ["--enable=warning", "--inconclusive"]),
    "unusedFunction": ("a.c", "int f(int x)\n{\n  return x + 1;\n}\n", {}, [], ["--enable=unusedFunction"]),
    "missingInclude": ("a.c", "#include \"nothere.h\"\nint f(int x)\n{\n  return x + 1;\n}\n", {}, [], ["--enable=missingInclude"]),
    "userUndefs": ("a.c", "#ifdef A\nint f(int x)\n{\n  return x / 0;\n}\n#endif\nint g(int x)\n{\n  return x;\n}\n", {}, [], ["-UA"]),
    "includePaths": ("a.c", "#include \"h.h\"\nint f(int x)\n{\n  return hf(x);\n}\n",
                     {"inc/h.h": "static int hf(int x)\n{\n  int b[2];\n  b[2] = x;\n  return b[0];\n}\n",
                      "inc2/h.h": "static int hf(int x)\n{\n  int b[2];\n  b[2] = x;\n  return b[0];\n}\n"}, ["-Iinc"], ["-Iinc2"]),
    "standards": ("a.cpp", "#if __cplusplus >= 201103L\nint f(int x) { return x / 0; }\n#endif\nint g(int x) { return x; }\n", {}, ["--std=c++03"], ["--std=c++11"]),
    "enforcedLang": ("a.c", "#ifdef __cplusplus\nint f(int x)\n{\n  return x / 0;\n}\n#endif\nint g(int x)\n{\n  return x;\n}\n", {}, ["--language=c"], ["--language=c++"]),
    "platform": ("a.c", "int f(void)\n{\n  return 100 / (int)(sizeof(long) - 8);\n}\n", {}, ["--platform=unix64"], ["--platform=win64"]),
    "libraries": ("a.c", "#include <fcntl.h>\nvoid f(void)\n{\n  int fd = open(\"a\", 0);\n  if (fd == 3) {}\n}\n", {}, [], ["--library=posix"]),
    # options that are streamed today: must be transparent
    "userDefines": ("a.c", "#ifdef A\nint f(int x)\n{\n  return x / 0;\n}\n#endif\nint g(int x)\n{\n  return x;\n}\n", {}, ["-DB"], ["-DA"]),
    "style": ("a.c", "int f(int x)\n{\n  int y = x;\n  y = 2;\n  return 1;\n}\n", {}, [], ["--enable=style"]),
    "warning": ("a.c", "int f(int x)\n{\n  if (x = 1) { return 2; }\n  return sizeof(sizeof(int));\n}\n", {}, [], ["--enable=warning"]),
    "performance": ("a.cpp", "#include <string>\nint f(std::string s)\n{\n  return s.size();\n}\n", {}, [], ["--enable=performance"]),
    "portability": ("a.c", "void f(void)\n{\n  int *p = (int*)0;\n  long l = (long)p; int i = p;\n}\n", {}, [], ["--enable=portability"]),
    "information": ("a.c", "int f(int x)\n{\n  return x;\n}\n", {}, ["--suppress=zerodiv:a.c"], ["--suppress=zerodiv:a.c", "--enable=information"]),
    "suppressions": ("a.c", "int f(int x)\n{\n  return x / 0;\n}\n", {}, [], ["--suppress=zerodiv"]),
    "inlineSuppr": ("a.c", "int f(int x)\n{\n  int a[2];\n  a[2] = x; // cppcheck-suppress arrayIndexOutOfBounds\n  return a[0];\n}\n", {},
                    ["--enable=information"], ["--enable=information", "--inline-suppr"]),
    "inlineSupprMisspelt": ("a.c", "int f(int x)\n{\n  int a[2];\n  a[2] = x; // cppcheck-suppress arrayIndexOutOfBound\n  return a[0];\n}\n", {},
                            ["--enable=information"], ["--enable=information", "--inline-suppr"]),
    "maxConfigs": ("a.c", "#ifdef A\nint f(int x) { return x / 0; }\n#endif\n#ifdef B\nint g(int x) { int a[2]; a[2] = x; return 0; }\n#endif\nint h(void) { return 0; }\n", {}, [], ["--max-configs=1"]),
    "checkLevel": ("a.c", "int f(int x)\n{\n  return x / 0;\n}\n", {}, [], ["--check-level=exhaustive"]),
    "force": ("a.c", "".join("#ifdef C%d\nint f%d(int x) { return x / 0; }\n#endif\n" % (i, i) for i in range(14)) + "int h(void) { return 0; }\n", {}, [], ["--force"]),
}
# hidden defaults: the option's default equals an explicit value, but "was it assigned" changes the behaviour
MANYCFG = "".join("#ifdef C%d\nint f%d(int x) { return x / 0; }\n#endif\n" % (i, i) for i in range(15)) + "int h(void) { return 0; }\n"
INFO = ["--enable=information"]
SCEN.update({
    "hidden-maxconfigs-default-vs-12": ("a.c", MANYCFG, {}, INFO, INFO + ["--max-configs=12"]),
    "hidden-force-vs-huge-maxconfigs": ("a.c", MANYCFG, {}, INFO + ["--force"], INFO + ["--max-configs=2147483647"]),
    "hidden-define-vs-define-maxconfigs1": ("a.c", MANYCFG, {}, INFO + ["-DC1"], INFO + ["-DC1", "--max-configs=1"]),
    "hidden-maxconfigs-1-vs-define": ("a.c", MANYCFG, {}, INFO + ["--max-configs=1"], INFO + ["-DC1"]),
    "hidden-checklevel-default-vs-normal": ("a.c", MANYCFG, {}, INFO, INFO + ["--check-level=normal"]),
    "hidden-platform-default-vs-native": ("a.c", "int f(void)\n{\n  return 100 / (int)(sizeof(long) - 8);\n}\n", {}, INFO, INFO + ["--platform=native"]),
})
FIELD_OF = {"hidden-maxconfigs-default-vs-12": "maxConfigs", "hidden-force-vs-huge-maxconfigs": "force",
            "hidden-define-vs-define-maxconfigs1": "maxConfigs", "hidden-maxconfigs-1-vs-define": "userDefines",
            "hidden-checklevel-default-vs-normal": "checkLevel", "hidden-platform-default-vs-native": "platform",
            "inlineSuppr": "suppressions", "inlineSupprMisspelt": "suppressions", "style": "style", "warning": "warning", "performance": "performance", "portability": "portability", "information": "information"}


def check(run, replay):
    quick = run.tier == "quick"
    rng = run.rng
    run.trusted_base += [
        "Coq 8.16.1 kernel (coqc); vm_compute only in the Examples",
        "extraction: Require Extraction + ExtrOcamlBasic only; ocaml/driver.ml",
        "harness/vh_common.h + vh_c18.cpp toolhash (Settings/Suppressions built from a case, CppCheck::calculateHash on an empty token list) and stdhash",
        "tools/translate/keyfields.py: maps every `toolinfo << ...` statement of CppCheck::calculateHash to one Settings member; an unknown statement is an error",
        "c19_options (Cache/Defs.v) is the fixed list of the property text mapped to Settings members by hand: severity x5, checks unusedFunction/missingInclude, certainty inconclusive, userDefines, userUndefs, includePaths, standards, language (file language, set by --language), platform, libraries, nomsg suppressions, maxConfigsOption, checkLevel, force",
        "faithful_key stays a premise of C19_option_change_history: that a streamed member is rendered injectively (no separators between members) is not proved",
        "the rendering of each member (e.g. 'w' or ' ' for Severity::warning) is produced by the check (cache_common.default_renderings) and tested against the real hash, not proved",
    ]
    run.assumptions += ["g++ compiles /repo faithfully", "a run of the binary without --cppcheck-build-dir and -j1 is the reference ('fresh')"]
    run.extra["rule"] = ("toolhash: random option sets over all 24 members (each flag on/off, strings from small pools); non-trivial = distinct option set. "
                         "option histories: per listed option one file whose findings depend on it, runs A;B and B;A sharing a build dir, -j1 and -j2; "
                         "non-trivial = the option really changes the fresh findings of the file")

    vlib.ensure_repo_build()
    model_ok = True
    try:
        kf, le = keyfields.generate(vlib.REPO, os.path.join(vlib.COQ, "theories", "Cache", "Gen_KeyFields.v"))
        run.extra["key_fields"] = kf
    except keyfields.TranslateError as e:
        run.violation("translate:keyfields", "translator cannot read the key composition: %s" % e,
                      {"broken": "translator", "detail": str(e)}, found_input=False)
        model_ok = False
    if model_ok:
        ok = run.prove(extra_targets=["theories/Cache/Run.vo"])
        if not ok:
            run.violation("proof:" + PID, "Properties_C19.vo does not build: " + str(run.proof_error())[:300],
                          {"broken": "proof", "detail": run.proof_error()}, found_input=False)
    if not model_ok or not os.path.exists(os.path.join(vlib.COQ, "theories/Cache/Run.vo")):
        # search step without the model: the option-change histories are plain cached-vs-fresh comparisons
        run.extra["model_tie"] = "off"
        if not run.obligations:
            run.obligations = vlib.theorems_of(os.path.join(vlib.COQ, "theories", "Properties_%s.v" % PID))
            run.checker_cmd = "not run: the translator failed, the regenerated part of the model is not the code"
        option_histories(run, None, quick)
        return
    model = vlib.build_model(PID)
    vh = vlib.build_harness("C18")
    T = C.Tools(model, vh)
    version = T.vh_run("version", [[]])[0][0].decode()
    missing = [m for m in T.missing() if m != "filePath"]
    run.extra["missing_c19_options"] = missing
    run.extra["key_covers_c19"] = not missing
    if missing:
        # Properties_C19.C19_key_covers_c19 fails as well; the option histories below give the concrete stale run
        run.notes.append("options of the property list not streamed into toolinfo: %s" % missing)

    # ---- X1: toolinfo of the model vs CppCheck::calculateHash
    n = 400 if quick else 20000
    cases, rends = [], []
    for _ in range(n):
        b = lambda: rng.random() < 0.5
        o = {"product": rng.choice(["", "", "Cppcheck Premium 1.0"]), "warning": b(), "style": b(), "performance": b(), "portability": b(),
             "information": b(), "userDefines": rng.choice(["", "A", "A=1;B", "f"]), "checkConfiguration": b(), "force": b(),
             "maxConfigs": rng.choice([0, 1, 2, 12, 20]), "checkLevel": rng.choice([0, 1, 2]),
             "addonName": rng.choice(["", "", "misra.py"]), "addonArgs": rng.choice(["", "--x"]), "premiumArgs": rng.choice(["", "--misra-c-2012"]),
             "inconclusive": b(), "unusedFunction": b(), "missingInclude": b(), "userUndefs": rng.choice(["", "A", "Z"]),
             "includePaths": rng.choice(["", "inc/", "inc2/"]), "std": rng.choice(["", "c89", "c11", "c++03", "c++17"]),
             "lang": rng.choice(["c", "c++"]), "platform": rng.choice(["", "unix64", "win64", "unix32"]),
             "libraries": rng.choice(["", "posix", "gnu"]), "filePath": rng.choice(["a.c", "sub/a.c", "b.cpp"])}
        supp = rng.choice([[], [("zerodiv", "", -1)], [("nullPointer", "a.c", 3), ("*", "b.cpp", -1)]])
        f = [o["product"], int(o["warning"]), int(o["style"]), int(o["performance"]), int(o["portability"]), int(o["information"]),
             o["userDefines"], int(o["checkConfiguration"]), int(o["force"]), o["maxConfigs"], o["checkLevel"],
             o["addonName"], o["addonArgs"] if o["addonName"] else "", o["premiumArgs"], len(supp)]
        for s_ in supp:
            f += [s_[0], s_[1], s_[2]]
        f += [int(o["inconclusive"]), int(o["unusedFunction"]), int(o["missingInclude"]), o["userUndefs"], o["includePaths"], o["std"],
              o["lang"], o["platform"], o["libraries"], o["filePath"]]
        cases.append(f)
        rends.append(o)
    impl = T.vh_run("toolhash", cases)
    mcases = []
    for o, r in zip(rends, impl):
        if r and r[0] == "!exc":
            mcases.append(["toolinfo"] + [""] * 25)
            continue
        oo = dict(o)
        if not oo["addonName"]:
            oo["addonArgs"] = ""
        oo["suppdump"] = r[1].decode("latin-1")
        oo["render_inconclusive"] = "i" if o["inconclusive"] else " "
        oo["render_unusedFunction"] = "u" if o["unusedFunction"] else " "
        oo["render_missingInclude"] = "m" if o["missingInclude"] else " "
        oo["render_userUndefs"] = ("-U" + o["userUndefs"]) if o["userUndefs"] else ""
        oo["render_includePaths"] = ("-I" + o["includePaths"]) if o["includePaths"] else ""
        oo["render_standards"] = r[3].decode("latin-1")
        oo["render_enforcedLang"] = "2" if o["lang"] == "c++" else "1"
        oo["render_platform"] = r[2].decode("latin-1")
        oo["render_libraries"] = ("-l" + o["libraries"]) if o["libraries"] else ""
        oo["render_filePath"] = o["filePath"]
        mcases.append(["toolinfo"] + C.default_renderings(version, oo))
    mti = T.model_run(mcases)
    mh = T.vh_run("stdhash", [[m[0] if m else b""] for m in mti])
    bad = 0
    for c, o, r, m in zip(cases, rends, impl, mh):
        run.count("toolhash", None, nontrivial=tuple(map(str, c)), bucket="supp%d" % c[14])
        if r and r[0] == "!exc":
            continue
        if r[0] != m[0]:
            bad += 1
            run.stream("toolhash")["disagreements"] += 1
            if bad <= 2:
                run.violation("tie:toolhash:%d" % bad, "std::hash(model toolinfo) differs from CppCheck::calculateHash for an option set",
                              {"broken": "correspondence", "options": o, "model_hash": vlib.show(m), "impl_hash": vlib.show(r[0])}, found_input=False)

    option_histories(run, missing, quick)


def option_histories(run, missing, quick):
    """X2: option-change histories on the real binary (missing None: no model available)"""
    shown = {}
    for member, (fname, src, extra, A, B) in SCEN.items():
        field = FIELD_OF.get(member, member)
        if quick and member in ("performance", "checkLevel", "force", "portability"):
            continue
        for jobs in ((1,) if quick else (1, 2)):
            for first, second in (((A, B),) if quick and missing is not None and field not in missing and not member.startswith(("inlineSuppr", "hidden-")) else ((A, B), (B, A))):
                sc = C.Scratch("c19")
                try:
                    sc.write(fname, src)
                    for p, t in extra.items():
                        sc.write(p, t)
                    for d in ("inc", "inc2"):
                        os.makedirs(os.path.join(sc.p, d), exist_ok=True)
                    f1, _, _ = C.cppcheck(sc, [fname], first, builddir=False)
                    f2, _, _ = C.cppcheck(sc, [fname], second, builddir=False)
                    c1, _, _ = C.cppcheck(sc, [fname], first, builddir=True, jobs=jobs)
                    c2, dbg, _ = C.cppcheck(sc, [fname], second, builddir=True, jobs=jobs, debug=True)
                    depends = f1 != f2
                    hit = bool(C.hits_of(dbg))
                    run.count("option-history", None, nontrivial=(member, jobs, tuple(first)) if depends else None,
                              bucket="%s,%s,%s" % ("in-key" if (missing is None or member not in missing) else "missing", "hit" if hit else "miss", "agree" if c2 == f2 else "DIFFER"))
                    if c1 != f1:
                        run.violation("optchange-first-run:" + member, "first run with an empty build dir differs from fresh for options %s" % first,
                                      {"file": fname, "source": src, "options": first, "cached": c1, "fresh": f1})
                    if c2 != f2:
                        key = ("toolinfo-omits-" + field) if (missing is not None and field in missing) else "optchange:" + member
                        shown.setdefault(member, (first, second))
                        run.violation(key, "run 1 with %s, run 2 with %s sharing a build dir: run 2 reports %s, a run without build dir %s" % (
                            first, second, c2[:3], f2[:3]),
                            {"file": fname, "source": src, "extra_files": extra, "run1_options": first, "run2_options": second, "cached": c2, "fresh": f2,
                             "how": "cppcheck -q <run1_options> --cppcheck-build-dir=bd FILE; cppcheck -q <run2_options> --cppcheck-build-dir=bd FILE; cppcheck -q <run2_options> FILE"})
                finally:
                    sc.close()
    run.extra["options_demonstrated_stale"] = sorted(shown)
    run.extra["missing_not_demonstrated"] = sorted(m for m in (missing or []) if m not in shown)
    run.samples.append({"stream": "option-history", "case": "a.c: return 100/(int)(sizeof(long)-8); run1 --platform=unix64, run2 --platform=win64, one build dir",
                        "model": "platform is not in key_fields => same key (C19_missing_option_invisible) => cache hit, zerodiv repeated"})


if __name__ == "__main__":
    vlib.main(check, PID)
