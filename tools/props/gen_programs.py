"""Seeded generator of small C/C++ translation units that make cppcheck report findings of many
different ids, severities and certainties (used by C27 and C28 as analysed inputs; the programs are
inputs of the real binary, nothing is decided here).

A program = k functions drawn from the template list, identifiers and constants randomised.
"""

# (language, template).  {n} = unique number, {c} = small constant, {b} = a buffer size
TEMPLATES = [
    ("c", "int f{n}(void) {{ int x; return x + {c}; }}"),
    ("c", "void f{n}(void) {{ int *p = 0; *p = {c}; }}"),
    ("c", "int f{n}(int *p) {{ int v = *p; if (p == 0) return {c}; return v; }}"),
    ("c", "int f{n}(int a) {{ int d = 0; if (a == {c}) d = 1; return 100 / (d - d); }}"),
    ("c", "int f{n}(int x) {{ int y = 100 / x; if (x == 0) return {c}; return y; }}"),
    ("c", "void f{n}(void) {{ char a[{b}]; a[{b}] = 0; }}"),
    ("c", "void f{n}(int i) {{ char a[{b}]; if (i == {b}) {{ }} a[i] = 0; }}"),
    ("c", "#include <stdlib.h>\nvoid f{n}(void) {{ char *p = malloc({b}); if (p) p[0] = 0; }}"),
    ("c", "#include <stdlib.h>\nchar f{n}(void) {{ char *p = malloc({b}); char c = p[0]; free(p); return c; }}"),
    ("c", "#include <stdio.h>\nvoid f{n}(void) {{ FILE *f = fopen(\"x{n}\", \"r\"); (void)f; }}"),
    ("c", "#include <stdio.h>\nvoid f{n}(int x) {{ printf(\"%s %u\\n\", x, -{c}); }}"),
    ("c", "#include <string.h>\nvoid f{n}(char *d) {{ char s[{b}]; memset(s, 0, sizeof(s)); strcpy(d, s); memset(d, 0, 0); }}"),
    ("c", "int f{n}(int a) {{ if (a == {c} && a == {c}) return 1; if (a < 0 && a > 10) return 2; return 0; }}"),
    ("c", "int f{n}(unsigned int u) {{ if (u < 0) return {c}; if (u >= 0) return 1; return 2; }}"),
    ("c", "int f{n}(int a) {{ int r = 0; r = a; r = a + {c}; return r; }}"),
    ("c", "int f{n}(int a) {{ int unused{n} = {c}; int z; z = a; return a; }}"),
    ("c", "int f{n}(int a) {{ return a << {c}0; }}"),
    ("c", "int f{n}(int a) {{ return (a = {c}) ? 1 : 1; }}"),
    ("c", "int f{n}(int a, int b) {{ if (a) {{ return b; }} else {{ return b; }} }}"),
    ("c", "long f{n}(int *p) {{ long l = (long)p; int *q = (int *){c}; return l + (long)q; }}"),
    ("c", "int *f{n}(void) {{ int loc = {c}; return &loc; }}"),
    ("c", "void f{n}(int x) {{ switch (x) {{ case 1: x = {c}; case 2: x = 3; break; }} }}"),
    ("c", "int f{n}(char c) {{ char a[300]; a[0] = 0; return a[c]; }}"),
    ("c", "void f{n}(void) {{ int i; for (i = 0; i < {b}; i++) {{ }} ; if (i) ; }}"),
    ("c", "int f{n}(int x) {{ int a[{b}]; a[0] = 0; if (x > {b}) {{ }} return a[x]; }}"),
    ("c", "#include <stdlib.h>\nvoid f{n}(void) {{ char *p = malloc({b}); free(p); free(p); }}"),
    ("c", "#include <stdlib.h>\nvoid f{n}(void) {{ char *p = malloc({b}); p = realloc(p, {b}0); free(p); }}"),
    ("c", "float f{n}(int a) {{ float r = a / {c}0; return r; }}"),
    ("c", "int f{n}(int a) {{ if (a & 0x10 == 0) return 1; return a % 1; }}"),
    ("c", "int f{n}(void) {{ return sizeof(sizeof(int)) + sizeof({c} + 1); }}"),
    ("c", "int f{n}(int a) {{ int b = a; if (b == a) return 1; assert(a = 1); return 0; }}"),
    ("cpp", "class C{n} {{ int m; public: C{n}() {{ }} int get() {{ return m; }} }};"),
    ("cpp", "class D{n} {{ public: D{n}(int v) {{ p = new int(v); }} ~D{n}() {{ delete p; }} int *p; }};"),
    ("cpp", "#include <vector>\nint f{n}(std::vector<int> v) {{ return v[{c}]; }}"),
    ("cpp", "#include <vector>\nint f{n}() {{ std::vector<int> v; return v[{c}]; }}"),
    ("cpp", "#include <vector>\nvoid f{n}(std::vector<int> &v) {{ for (auto it = v.begin(); it != v.end(); ++it) {{ if (*it == {c}) v.erase(it); }} }}"),
    ("cpp", "#include <string>\nint f{n}(std::string s) {{ return s.size() == 0; }}"),
    ("cpp", "#include <string>\nbool f{n}(const std::string &s) {{ return s.find(\"a\") == 0 && s.c_str() != nullptr; }}"),
    ("cpp", "#include <memory>\nvoid f{n}() {{ int *p = new int[{b}]; delete p; }}"),
    ("cpp", "struct B{n} {{ virtual void f(); }}; struct E{n} : B{n} {{ void f(); int x; E{n}() {{ }} }};"),
    ("cpp", "void f{n}(int i) {{ int j = i++ + i; long l = (long)&j; (void)l; char *c = (char *)&j; (void)c; }}"),
    ("cpp", "#include <vector>\nint f{n}(const std::vector<int> &v) {{ if (v.size() == 0) return {c}; int s = 0; for (std::size_t i = 0; i <= v.size(); i++) s += v[i]; return s; }}"),
    ("cpp", "#include <map>\nint f{n}(std::map<int,int> &m) {{ if (m.find({c}) != m.end()) return m[{c}]; return 0; }}"),
    ("cpp", "#include <utility>\n#include <string>\nstd::string f{n}(std::string a) {{ std::string b = std::move(a); return a + b; }}"),
    ("cpp", "int f{n}(int x) {{ try {{ throw x; }} catch (int e) {{ return {c}; }} return 1; }}"),
    ("cpp", "class F{n} {{ public: F{n}() : a(b), b({c}) {{ }} int a; int b; void g() {{ }} }};"),
    ("cpp", "#include <cstring>\nstruct S{n} {{ virtual ~S{n}() {{ }} int x; }};\nvoid f{n}(S{n} *s) {{ std::memset(s, 0, sizeof(*s)); }}"),
    # one access site carrying BOTH an unconditional bad value (reset path before the access) and a conditional one
    # (a check after the access): the base-configuration error has a sibling "condition is redundant" warning
    ("cpp", "#include <vector>\nint f{n}(std::vector<int> &v, bool reset) {{ if (reset) v.clear(); int r = v[{c}]; if (v.size() == {c}) {{ r++; }} return r; }}"),
    ("cpp", "#include <vector>\nint f{n}(std::vector<int> &v, bool reset) {{ if (reset) v.clear(); int r = v.at({c}); if (v.size() == 1) {{ r++; }} return r; }}"),
    ("cpp", "#include <vector>\nint f{n}(std::vector<int> &v, bool reset) {{ if (reset) v.clear(); int r = v.front() + v.back(); if (v.empty()) {{ r++; }} return r; }}"),
    ("cpp", "#include <string>\nchar f{n}(std::string &s, bool reset) {{ if (reset) s.clear(); char ch = s[{c}]; if (s.size() == 1) {{ ch++; }} return ch; }}"),
    ("c", "int f{n}(int *p, int reset) {{ if (reset) p = 0; int r = *p; if (p) {{ r += {c}; }} return r; }}"),
    ("c", "int f{n}(int x, int reset) {{ if (reset) x = 0; int r = {c}00 / x; if (x == 0) {{ r++; }} return r; }}"),
    ("c", "int f{n}(int i, int reset) {{ int a[{b}]; a[0] = 0; if (reset) i = {b}; int r = a[i]; if (i == {b}0) {{ r++; }} return r; }}"),
    ("cpp", "void f{n}(int x) {{ int shadow{n} = x; {{ int shadow{n} = {c}; (void)shadow{n}; }} (void)shadow{n}; }}"),
]


def gen_program(rng, lang=None, kmin=3, kmax=9):
    """-> (extension, source text, [template indexes])"""
    lang = lang or rng.choice(["c", "cpp", "cpp"])
    pool = [i for i, (l, _) in enumerate(TEMPLATES) if l == "c" or lang == "cpp"]
    k = rng.randint(kmin, kmax)
    picks = [rng.choice(pool) for _ in range(k)]
    parts, includes = [], []
    for n, i in enumerate(picks):
        t = TEMPLATES[i][1].format(n=n, c=rng.choice([1, 2, 3, 5, 7, 13, 42]), b=rng.choice([2, 4, 8, 10, 16]))
        for line in t.split("\n"):
            if line.startswith("#include"):
                if line not in includes:
                    includes.append(line)
            else:
                parts.append(line)
    src = "\n".join(includes) + ("\n" if includes else "") + "\n".join(parts) + "\n"
    return lang, src, picks
