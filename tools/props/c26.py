#!/usr/bin/env python3
"""C26  Reports are faithful in every output format.

translate:  tools/translate/rng.py (cppcheck-errors.rng -> Report/Gen_RngSchema.v),
            tools/translate/critical_ids.py (ErrorLogger::mCriticalErrorIds -> Report/Gen_CriticalIds.v)
prove:      coq/theories/Properties_C26.v (sequential template substitution = documented meaning under
            clean fields, <error> element is in the XML grammar and denotes the finding under clean names,
            RELAX NG conformance of every reportable finding, JSON string
            grammar, SARIF results carry the findings, dedup) + the *_refuted witnesses
correspond: X1 extracted model (Report/Run.v) vs harness/vh_c26.cpp on the real findAndReplace,
            substituteTemplateFormatStatic, fixInvalidChars, ErrorLogger::toxml, ErrorMessage::toString,
            ErrorMessage::toXML, SarifReport::serialize; the property itself is then evaluated on the
            implementation's output (toString vs template_spec; toXML parsed by xml.dom.minidom and
            checked against the regenerated schema tables; SARIF parsed by json)
            X2 the real binary on generated C files with planted findings (hostile file names) and
            addon-injected findings (hostile message texts), text / --xml / --output-format=sarif
search:     every deviation is reduced to a concrete input; the ones listed in known_findings.txt are
            reported as KNOWN-FINDING, anything else is a VIOLATION.
"""
import hashlib
import json
import os
import re
import shutil
import subprocess
import sys
import tempfile
import xml.dom.minidom as minidom

sys.path.insert(0, os.path.dirname(os.path.dirname(os.path.abspath(__file__))))
import vlib
from props import report_common as G
from translate import rng as T_rng
from translate import critical_ids as T_crit

PID = "C26"
SEVNAMES = ["", "error", "warning", "style", "performance", "portability", "information", "debug", "internal"]

# fixed witnesses (the ones of Properties_C26.v and the design notes), always run first
W_LOC = [b"x{line}y.c", b"x{line}y.c", 1, 20, b""]
W_MSG = [b"arrayIndexOutOfBounds", b"", b"", 1, 788, 0, False, b"m", b"m", b"", b"x{line}y.c", b"", 1] + W_LOC
PLAIN = [b"id", b"", b"", 3, 563, 0, False, b"m", b"m", b"", b"a.c", b"x", 1, b"a.c", b"a.c", 1, 1, b""]


def with_(msg, **kw):
    names = "id guideline classification severity cwe hash inconclusive short verbose remark file0 symbols nlocs".split()
    m = list(msg)
    for k, v in kw.items():
        m[names.index(k)] = v
    return m


def filter_fuel(model, tag, cases):
    """drop the cases on which the model answers F (outside its domain); returns kept, n_dropped"""
    _, out, _ = vlib.run_lines([model], [vlib.enc_case([tag] + list(c)) for c in cases])
    keep = [c for c, o in zip(cases, out) if vlib.dec_line(o) != [b"F"]]
    return keep, len(cases) - len(keep)


def model_eval(model, tag, cases):
    _, out, _ = vlib.run_lines([model], [vlib.enc_case([tag] + list(c)) for c in cases])
    return [vlib.dec_line(o) for o in out]


def impl_eval(vh, cmd, cases, env=None):
    _, out, _ = vlib.run_lines([vh, cmd], [vlib.enc_case(c) for c in cases], env=env)
    return [vlib.dec_line(o) for o in out]


TOKEN = re.compile(rb"\{(id|severity|cwe|message|remark|callstack|file|line|column|code|info)\}|\{inconclusive:[^{}]*\}")


def documented_template(t):
    """only documented fields and literal text without '{'"""
    return b"{" not in TOKEN.sub(b"", t)


def key_of(stream, c):
    return stream + ":" + hashlib.sha1(vlib.enc_case(c).encode()).hexdigest()[:12]


def report_model_diffs(run, stream, cmd, diffs):
    for c, m, i in sorted(diffs, key=lambda d: sum(len(x) if isinstance(x, bytes) else 1 for x in d[0]))[:2]:
        run.violation(key_of(stream, c), "%s: the model of the code and the code disagree (model misreads the code or the code changed)" % stream,
                      {"broken": "correspondence " + stream, "case": vlib.show(list(c)), "model": vlib.show(m), "impl": vlib.show(i),
                       "how": "echo '%s' | build/harness/vh_c26 %s" % (vlib.enc_case(c), cmd)}, found_input=False)


# ------------------------------------------------------------------ XML reading (spec side, Python)
def parse_error_xml(xml_bytes):
    """the <error> element as an XML reader sees it; raises on ill-formed input"""
    doc = minidom.parseString(b'<?xml version="1.0" encoding="UTF-8"?>\n<r>' + xml_bytes + b"</r>")
    e = [n for n in doc.documentElement.childNodes if n.nodeType == n.ELEMENT_NODE]
    if len(e) != 1 or e[0].tagName != "error":
        raise ValueError("expected one <error>")
    return e[0]


def cstr(b):
    return b.split(b"\0")[0]


def fix_invalid(b):
    return b"".join(bytes([c]) if 32 <= c <= 126 else b"\\%03o" % c for c in b)


def symbols_of(s):
    l = s.split(b"\n")
    if l and l[-1] == b"":
        l = l[:-1]
    return l


def expected_view(c):
    """what the finding is, independent of the implementation (statement of 'carries the same findings')"""
    d = G.describe_msg(c)
    ev = {"id": cstr(d["id"]), "severity": SEVNAMES[int(d["severity"])].encode(), "msg": fix_invalid(d["short"]),
          "verbose": fix_invalid(d["verbose"]), "cwe": int(d["cwe"]), "inconclusive": bool(d["inconclusive"]),
          "locations": [(cstr(l["file"]), max(int(l["line"]), 0), int(l["column"]), fix_invalid(l["info"])) for l in reversed(d["locations"])],
          "symbols": [cstr(s) for s in symbols_of(d["symbols"])]}
    return ev


def xml_view(e):
    def a(n, name):
        return n.getAttribute(name).encode("utf-8", "surrogateescape")
    return {"id": a(e, "id"), "severity": a(e, "severity"), "msg": a(e, "msg"), "verbose": a(e, "verbose"),
            "cwe": int(e.getAttribute("cwe") or 0), "inconclusive": e.getAttribute("inconclusive") == "true",
            "locations": [(a(l, "file"), int(l.getAttribute("line")), int(l.getAttribute("column")), a(l, "info"))
                          for l in e.childNodes if l.nodeType == l.ELEMENT_NODE and l.tagName == "location"],
            "symbols": ["".join(t.data for t in s.childNodes).encode("utf-8", "surrogateescape")
                        for s in e.childNodes if s.nodeType == s.ELEMENT_NODE and s.tagName == "symbol"]}


def rng_problems(schema, e):
    """attributes/elements of <error> that the schema tables do not allow or that are missing"""
    probs = []
    ea = {n: r for n, r, _, _ in schema["error_attrs"]}
    la = {n: r for n, r, _, _ in schema["location_attrs"]}
    for n in e.attributes.keys():
        if n not in ea:
            probs.append("attr:error/" + n)
    for n, r in ea.items():
        if r and not e.hasAttribute(n):
            probs.append("missing:error/" + n)
    if e.getAttribute("severity") not in schema["severities"] and e.getAttribute("severity") not in ("", "internal"):
        # none / internal never reach toXML through StdLogger::reportErr (internal is dropped, none is not a reportable severity)
        probs.append("severity:" + e.getAttribute("severity"))
    seen_symbol = False
    for k in e.childNodes:
        if k.nodeType != k.ELEMENT_NODE:
            continue
        if k.tagName not in schema["children"]:
            probs.append("elem:" + k.tagName)
        if k.tagName == "symbol":
            seen_symbol = True
        elif seen_symbol:
            probs.append("order:" + k.tagName)
        if k.tagName == "location":
            for n in k.attributes.keys():
                if n not in la:
                    probs.append("attr:location/" + n)
            for n, r in la.items():
                if r and not k.hasAttribute(n):
                    probs.append("missing:location/" + n)
    return probs


KNOWN_RNG = {}   # the schema gaps found earlier (remark, origfile, guideline/classification, debug) were repaired in /repo e98437b


def names_of(c):
    d = G.describe_msg(c)
    n = [cstr(d["id"]), cstr(d["guideline"]), cstr(d["classification"]), cstr(d["file0"])]
    for l in d["locations"]:
        n += [cstr(l["file"]), cstr(l["origfile"])]
    n += [cstr(s) for s in symbols_of(d["symbols"])]
    return n


def is_utf8(b):
    try:
        b.decode("utf-8")
        return True
    except UnicodeDecodeError:
        return False


def check(run, replay):
    quick = run.tier == "quick"
    rng = run.rng
    run.trusted_base += [
        "Coq 8.16.1 kernel (coqc); vm_compute in the *_refuted witnesses, the Examples and the finite case analysis of C26_xml_conforms_rng (128 attribute combinations x 7 severities, 4 location shapes, over the regenerated tables)",
        "extraction: Require Extraction + ExtrOcamlBasic only; ocaml/driver.ml; harness/vh_common.h + vh_c26.cpp (builds an ErrorMessage from the case fields, `#define private public` for mShortMessage/mVerboseMessage/mSymbolNames and FileLocation::mFileName/mOrigFileName, then calls the real functions)",
        "translators tools/translate/rng.py (xml.dom.minidom over cppcheck-errors.rng; datatypes NCName/integer bounds are copied into a comment, not interpreted) and critical_ids.py (regex over the mCriticalErrorIds initialiser)",
        "the XML 1.0 element grammar and the JSON string grammar of Report/Spec.v are byte-level specifications written for this check (five predefined entities, attribute-value normalisation, no UTF-8 validity); real readers are consulted in the tie (xml.dom.minidom, json)",
        "modelled, not verified: lib/utils.cpp findAndReplace; lib/errorlogger.cpp toString/toXML/fixInvalidChars/toxml/callStackToString/replace/replaceSpecialChars/replaceColors; tinyxml2 XMLPrinter (OpenElement/PushAttribute/PushText/CloseElement/PrintString as used by toXML); picojson serialize(true); lib/sarifreport.cpp; StdLogger::reportErr's duplicate filter",
        "{code} is modelled for unreadable source files only (readCode returns an empty line); Path::simplifyPath (C31) is bypassed by setting FileLocation::mFileName directly; product name from cppcheck.cfg is empty",
    ]
    run.assumptions += ["g++ compiles /repo faithfully", "isprint() is the C-locale one (cppcheck never calls setlocale)",
                        "a template with an unterminated '{inconclusive:' is outside the property (not built from the documented fields); the model answers F there and the real code does not terminate on it (see docs/C26.md)"]
    run.extra["rule"] = ("byte strings from five alphabets (plain / XML+JSON specials / braces and field tokens / control bytes, NUL, bytes>=0x80 / anything), "
                         "templates = 0-6 pieces of documented fields, {inconclusive:..}, literals (30% with stray braces), messages with 0-3 locations. "
                         "non-trivial: far = pattern occurs; static = a backslash or '{' present; toString = template has a field; toXML = always (distinct message); "
                         "sarif = at least one finding with a location; e2e = one finding of one run. distinct = distinct case tuple.")

    vlib.ensure_repo_build()

    # ---- T
    schema = None
    try:
        schema = T_rng.main(vlib.REPO, vlib.VERIF)
        crit_ids = T_crit.main(vlib.REPO, vlib.VERIF)
        run.extra["translated"] = {"rng_error_attrs": [a[0] for a in schema["error_attrs"]], "rng_location_attrs": [a[0] for a in schema["location_attrs"]],
                                   "rng_severities": schema["severities"], "critical_ids": len(crit_ids)}
    except Exception as e:  # translator does not recognise the source any more
        run.violation("translate:" + type(e).__name__, "translator failed: %s" % str(e)[:300], {"broken": "translator", "detail": str(e)}, found_input=False)
        if schema is None:
            return

    ok = run.prove(extra_targets=["theories/Report/Run.vo"])
    if not ok:
        run.violation("proof:" + PID, "Properties_C26.vo does not build: " + str(run.proof_error())[:300],
                      {"broken": "proof", "detail": run.proof_error()}, found_input=False)
        # the executable model does not depend on the proofs: rebuild it against the regenerated
        # tables so that the search below still produces a concrete failing input
        vlib.coq_make(["theories/Report/Run.vo"])
    if not os.path.exists(os.path.join(vlib.COQ, "theories/Report/Run.vo")):
        return
    model = vlib.build_model(PID)
    vh = vlib.build_harness(PID)
    scratch = tempfile.mkdtemp(prefix="c26_", dir="/tmp")
    cwd0 = os.getcwd()
    os.chdir(scratch)   # {code}: source files named by the cases must not exist
    try:
        streams_x1(run, rng, quick, model, vh, schema, crit_ids)
        e2e(run, rng, quick, schema, scratch)
    finally:
        os.chdir(cwd0)
        shutil.rmtree(scratch, ignore_errors=True)


def streams_x1(run, rng, quick, model, vh, schema, crit_ids):
    N = (lambda q, t: q if quick else t)
    ver = impl_eval(vh, "header", [[b""]])[0][2]

    # -- helpers
    cs = [[G.rbytes(rng, "any", 12)] for _ in range(N(3000, 100000))] + [[bytes(range(256))]]
    report_model_diffs(run, "fixInvalidChars", "fix", vlib.correspond(run, "fixInvalidChars", model, [vh, "fix"], cs, tag="fix",
                       nontrivial=lambda c, m, i: c[0] if any(x < 32 or x > 126 for x in c[0]) else None,
                       bucket=lambda c, m, i: "escaped" if m != [c[0]] else "unchanged"))
    report_model_diffs(run, "toxml", "toxml", vlib.correspond(run, "toxml", model, [vh, "toxml"], cs, tag="toxml",
                       nontrivial=lambda c, m, i: c[0] if m != [c[0]] else None, bucket=lambda c, m, i: "escaped" if m != [c[0]] else "unchanged"))
    cs = [[G.rbytes(rng, "brace", 3) or b"{id}", G.rbytes(rng, "brace", 4), G.rbytes(rng, "brace", 12)] for _ in range(N(3000, 100000))]
    report_model_diffs(run, "findAndReplace", "far", vlib.correspond(run, "findAndReplace", model, [vh, "far"], cs, tag="far",
                       nontrivial=lambda c, m, i: tuple(c) if c[0] in c[2] else None,
                       bucket=lambda c, m, i: "occurs" if c[0] in c[2] else "absent"))
    cs = [[1, G.gen_template(rng, G.FIELDS + G.COLORS, hostile=True) + G.rbytes(rng, "any", 4)] for _ in range(N(2000, 50000))]
    report_model_diffs(run, "substituteTemplateFormatStatic", "static", vlib.correspond(run, "substituteTemplateFormatStatic", model, [vh, "static"], cs, tag="static",
                       nontrivial=lambda c, m, i: c[1] if (b"\\" in c[1] or b"{" in c[1]) else None, bucket=lambda c, m, i: "changed" if m != [c[1]] else "same"))
    old = os.environ.get("CLICOLOR_FORCE")
    os.environ["CLICOLOR_FORCE"] = "1"
    try:
        cs = [[0, G.gen_template(rng, G.FIELDS + G.COLORS, hostile=True)] for _ in range(N(1000, 20000))]
        report_model_diffs(run, "substituteTemplateFormatStatic(colors)", "static", vlib.correspond(run, "substituteTemplateFormatStatic(colors)", model, [vh, "static"], cs, tag="static",
                           nontrivial=lambda c, m, i: c[1] if b"\x1b" in (m[0] if m else b"") else None, bucket=lambda c, m, i: "colored" if b"\x1b" in (m[0] if m else b"") else "plain"))
    finally:
        if old is None:
            del os.environ["CLICOLOR_FORCE"]
        else:
            os.environ["CLICOLOR_FORCE"] = old

    # -- toString: model vs code
    def tcase(hostile):
        return [rng.random() < 0.5, G.gen_template(rng, hostile=hostile),
                G.gen_template(rng, G.LFIELDS, False) if rng.random() < 0.4 else b""] + G.gen_msg(rng)
    cs = [[False, b"{file}|{line}", b""] + W_MSG] + [tcase(rng.random() < 0.3) for _ in range(N(6000, 150000))]
    cs, dropped = filter_fuel(model, "tostr", cs)
    run.stream("toString")["hist"]["model-out-of-domain(unterminated {inconclusive:)"] = dropped
    diffs = vlib.correspond(run, "toString", model, [vh, "tostr"], cs, tag="tostr",
                            nontrivial=lambda c, m, i: tuple(map(str, c)) if b"{" in c[1] else None,
                            bucket=lambda c, m, i: ("nostack" if c[15] == 0 else "stack%d" % min(c[15], 2)) + (",tloc" if c[2] else ""))
    found = 0
    if diffs:   # search: the property itself (documented meaning of the template) on the disagreeing inputs
        dc = [c for c, _, _ in diffs]
        for c, sp, im in zip(dc, model_eval(model, "tspec", dc), impl_eval(vh, "tostr", dc)):
            if G.msg_is_clean_for_template(c[3:]) and documented_template(c[1]) and documented_template(c[2]) and sp[-1:] != im[-1:] and found < 3:
                found += 1
                run.violation(key_of("tostr-spec", c), "toString renders a finding differently from the documented meaning of the template although no value contains '{'",
                              {"input": {"verbose": c[0], "template": vlib.show(c[1]), "template_location": vlib.show(c[2]), "finding": vlib.show(G.describe_msg(c[3:]))},
                               "documented_meaning": vlib.show(sp), "implementation": vlib.show(im), "how": "echo '%s' | build/harness/vh_c26 tostr" % vlib.enc_case(c)})
    if not found:
        report_model_diffs(run, "toString", "tostr", diffs)

    # -- toString: the property (code vs documented meaning). Templates made of documented fields only.
    def pcase(clean):
        mode = "plain" if clean else rng.choice(["brace", "any", "xml"])
        return [rng.random() < 0.5, G.gen_template(rng, hostile=False), G.gen_template(rng, G.LFIELDS, False) if rng.random() < 0.4 else b""] + G.gen_msg(rng, mode=mode)
    cs = [[False, b"{file}|{line}", b""] + W_MSG] + [pcase(rng.random() < 0.6) for _ in range(N(5000, 120000))]
    cs, _ = filter_fuel(model, "tostr", cs)
    diffs = vlib.correspond(run, "toString-vs-spec", model, [vh, "tostr"], cs, tag="tostr", model_tag="tspec",
                            canon=lambda o: o[-1:],
                            nontrivial=lambda c, m, i: tuple(map(str, c)) if b"{" in c[1] else None,
                            bucket=lambda c, m, i: "values-with-brace" if not G.msg_is_clean_for_template(c[3:]) else "clean-values")
    run.stream("toString-vs-spec")["disagreements"] = 0
    rescans = []
    for c, m, i in diffs:
        if G.msg_is_clean_for_template(c[3:]):
            run.violation(key_of("tostr-spec", c), "toString renders a finding differently from the documented meaning of the template although no value contains '{'",
                          {"input": {"verbose": c[0], "template": vlib.show(c[1]), "template_location": vlib.show(c[2]), "finding": vlib.show(G.describe_msg(c[3:]))},
                           "documented_meaning": vlib.show(m), "implementation": vlib.show(i), "how": "echo '%s' | build/harness/vh_c26 tostr" % vlib.enc_case(c)})
        else:
            rescans.append((c, m, i))
    run.stream("toString-vs-spec")["hist"]["rescan-deviations"] = len(rescans)
    if rescans:
        c, m, i = min(rescans, key=lambda d: len(vlib.enc_case(d[0])))
        run.violation("template-rescan", "a field value containing '{...}' is rewritten by a later substitution",
                      {"input": {"verbose": c[0], "template": vlib.show(c[1]), "template_location": vlib.show(c[2]), "finding": vlib.show(G.describe_msg(c[3:]))},
                       "documented_meaning": vlib.show(m), "implementation": vlib.show(i), "deviating_cases_this_run": len(rescans),
                       "how": "echo '%s' | build/harness/vh_c26 tostr   (end to end: a file named 'x{line}y.c' with a finding, --template='{file}|{line}')" % vlib.enc_case(c)})

    # -- toXML: model vs code, then the property on the code's output
    fixed = [PLAIN, with_(PLAIN, remark=b"r"), with_(PLAIN, severity=7), with_(PLAIN, guideline=b"1.1", classification=b"Required"),
             PLAIN[:13] + [b"q.c", b"./q.c", 5, 1, b""], PLAIN[:13] + [b"a\x01b.c", b"a\x01b.c", 1, 1, b""], PLAIN[:13] + [b"l\xe4.c", b"l\xe4.c", 1, 1, b""],
             PLAIN[:13] + [b"a\tb.c", b"a\tb.c", 1, 1, b""]]
    cs = fixed + [G.gen_msg(rng) for _ in range(N(4000, 100000))] + [G.gen_msg(rng, mode="plain", sev=rng.choice(G.SEV_DOC)) for _ in range(N(1500, 30000))]
    diffs = vlib.correspond(run, "toXML", model, [vh, "xml"], cs, tag="xml", nontrivial=lambda c, m, i: tuple(map(str, c)),
                            bucket=lambda c, m, i: "locs%d" % min(c[12], 2) + (",symbols" if c[11] else ""))
    xml_diffs = diffs
    impl = impl_eval(vh, "xml", cs)
    info = model_eval(model, "xmlinfo", cs)
    st = run.stream("toXML-property")
    known_seen = {}
    pending = []          # unlisted deviations: only the three smallest inputs are reported

    class _Cap:
        def violation(self, key, what, rep, found_input=True):
            pending.append((len(str(rep.get("finding", rep))), key, what, rep, found_input))
    real_run, run = run, _Cap()
    for c, out, inf in zip(cs, impl, info):
        names = names_of(c)
        ctl = any(any(b < 32 for b in n) for n in names)
        nonutf = any(not is_utf8(n) for n in names)
        model_rng_ok, model_clean = inf[0] == b"1", inf[1] == b"1"
        if model_clean == ctl:
            run.violation(key_of("xml-clean", c), "clean_msgb of the model disagrees with the check's own notion of clean names", {"case": vlib.show(c)}, found_input=False)
        st["evaluations"] += 1
        bucket = ("ctl," if ctl else "") + ("nonutf8," if nonutf else "") + ("rng-ok" if model_rng_ok else "rng-no")
        st["hist"][bucket] = st["hist"].get(bucket, 0) + 1
        st["nontrivial"].add(vlib.enc_case(c))
        what, key = None, None
        try:
            e = parse_error_xml(out[0])
            got, exp = xml_view(e), expected_view(c)
            if got != exp:
                what, key = "an XML reader recovers %s instead of %s" % ({k: vlib.show(v) for k, v in got.items() if v != exp[k]}, {k: vlib.show(v) for k, v in exp.items() if v != got[k]}), "carries"
            probs = rng_problems(schema, e)
            if int(c[3]) not in (0, 8) and (not probs) != model_rng_ok:
                run.violation(key_of("xml-rngmodel", c), "schema verdict of the Coq tables (%s) and of the Python reading of the same tables (%s) differ" % (model_rng_ok, probs),
                              {"case": vlib.show(c)}, found_input=False)
            for p in probs:
                k = KNOWN_RNG.get(p)
                if k and k not in known_seen:
                    known_seen[k] = (c, p, out[0])
                elif not k:
                    run.violation(key_of("xml-rng", c), "toXML output does not conform to cppcheck-errors.rng: " + p,
                                  {"finding": vlib.show(G.describe_msg(c)), "xml": vlib.show(out[0]), "problem": p, "how": "echo '%s' | build/harness/vh_c26 xml" % vlib.enc_case(c)})
        except Exception as ex:  # not well-formed
            what, key = "an XML reader rejects the element: %s" % str(ex)[:120], "wellformed"
        if what:
            if ctl:
                k = "xml-control-char"
            elif nonutf:
                k = "xml-nonutf8-name"
            else:
                k = None
            if k is None:
                run.violation(key_of("xml-" + key, c), "toXML: " + what, {"finding": vlib.show(G.describe_msg(c)), "xml": vlib.show(out[0]),
                                                                           "how": "echo '%s' | build/harness/vh_c26 xml" % vlib.enc_case(c)})
            elif k not in known_seen or len(vlib.enc_case(c)) < len(vlib.enc_case(known_seen[k][0])):
                known_seen[k] = (c, what, out[0])
    run = real_run
    if not [p for p in pending if p[4]]:   # no concrete input found by evaluating the property: report the broken correspondence
        report_model_diffs(run, "toXML", "xml", xml_diffs)
    for _, key, what, rep, fi in sorted(pending, key=lambda x: x[0])[:3]:
        run.violation(key, what, dict(rep, similar_deviations_this_run=len(pending)), found_input=fi)
    for k, (c, p, out) in known_seen.items():
        run.violation(k, {"xml-control-char": "a byte below 0x20 in id/file0/file/origfile/symbol is written raw into the XML report",
                          "xml-nonutf8-name": "a name that is not valid UTF-8 is written raw into the XML report (declared UTF-8)"}.get(k, "toXML writes what cppcheck-errors.rng does not allow: " + str(p)),
                      {"finding": vlib.show(G.describe_msg(c)), "xml": vlib.show(out), "problem": str(p), "how": "echo '%s' | build/harness/vh_c26 xml" % vlib.enc_case(c)})

    # -- SARIF
    def scase():
        n = rng.randint(0, 4)
        c = [ver, n]
        ids = [rng.choice(G.IDS) for _ in range(2)]
        for _ in range(n):
            m = G.gen_msg(rng)
            if rng.random() < 0.5:
                m[0] = rng.choice(ids)
            c += m
        return c
    def dupcase():
        """findings that share an id but differ in severity (different SARIF level classes), message or location"""
        n = rng.randint(2, 4)
        mid = rng.choice(G.IDS)
        sevs = rng.sample([1, 2, 3, 4, 5, 6, 7], n)
        c = [ver, n]
        for k in range(n):
            m = G.gen_msg(rng, mode=rng.choice(["plain", "xml"]), nlocs=rng.choice([1, 1, 2]), sev=sevs[k] if rng.random() < 0.8 else sevs[0])
            m[0] = mid
            c += m
        return c
    dup_fixed = [ver, 2] + with_(PLAIN, severity=5, short=b"first") + with_(PLAIN, severity=2, short=b"second")[:13] + [b"b.c", b"b.c", 9, 3, b""]
    cs = [[ver, 1] + PLAIN, dup_fixed, [ver, 1] + PLAIN[:13] + [b"l\xe4.c", b"l\xe4.c", 1, 1, b""]] + \
        [scase() if rng.random() < 0.6 else dupcase() for _ in range(N(1500, 40000))]
    diffs = vlib.correspond(run, "SarifReport::serialize", model, [vh, "sarif"], cs, tag="sarif",
                            nontrivial=lambda c, m, i: tuple(map(str, c)) if b'"ruleId"' in (i[0] if i else b"") else None,
                            bucket=lambda c, m, i: "findings%d" % c[1])
    sarif_diffs = diffs
    impl = impl_eval(vh, "sarif", cs)
    st = run.stream("SARIF-property")
    worst = None
    carry_bad = []

    def level_of(mid, sev):   # sarifreport.cpp sarifSeverity, written down independently of the Coq model
        if mid in crit_ids or sev in (1, 2):
            return "error"
        return "warning" if sev in (3, 4, 5) else "note"
    for c, out in zip(cs, impl):
        st["evaluations"] += 1
        msgs, r = [], c[2:]
        for _ in range(c[1]):
            n = int(r[12])
            msgs.append(r[:13 + 5 * n])
            r = r[13 + 5 * n:]
        strings = [x for m in msgs if m[12] for x in [m[0], m[7]] + [m[13 + 5 * k] for k in range(m[12])]]
        nonutf = any(not is_utf8(s) for s in strings)
        st["hist"]["nonutf8" if nonutf else "utf8"] = st["hist"].get("nonutf8" if nonutf else "utf8", 0) + 1
        st["nontrivial"].add(vlib.enc_case(c))
        try:
            doc = json.loads(out[0])
            res = doc["runs"][0]["results"]
            got = [(x["ruleId"], x["level"], x["message"]["text"],
                    [(l["physicalLocation"]["artifactLocation"]["uri"], l["physicalLocation"]["region"]["startLine"], l["physicalLocation"]["region"]["startColumn"]) for l in x["locations"]]) for x in res]
            exp = []
            for m in msgs:
                if not m[12]:
                    continue
                locs = [(m[13 + 5 * k].decode("utf-8"), max(int(m[15 + 5 * k]), 1), max(int(m[16 + 5 * k]), 1)) for k in range(m[12])]
                exp.append((m[0].decode("utf-8"), level_of(m[0].decode("utf-8"), int(m[3])), m[7].decode("utf-8"), locs))
            ids_ = [e_[0] for e_ in exp]
            b_ = "repeated-id" if len(set(ids_)) < len(ids_) else "distinct-ids"
            if len(set((e_[0], e_[1]) for e_ in exp)) > len(set(ids_)):
                b_ = "repeated-id-different-level"
            st["hist"][b_] = st["hist"].get(b_, 0) + 1
            if got != exp:
                carry_bad.append((len(vlib.enc_case(c)), c, msgs, got, exp))
        except (UnicodeDecodeError, ValueError) as ex:
            if nonutf:
                if worst is None or len(vlib.enc_case(c)) < len(vlib.enc_case(worst[0])):
                    worst = (c, str(ex)[:150], out[0])
            else:
                run.violation(key_of("sarif-json", c), "SARIF output is rejected by a JSON reader: " + str(ex)[:150], {"case": vlib.show(c), "sarif": vlib.show(out[0][:600])})
    for _, c, msgs, got, exp in sorted(carry_bad, key=lambda x: x[0])[:2]:
        wrong = [(g, e_) for g, e_ in zip(got, exp) if g != e_][:3] or [("count", len(got), len(exp))]
        run.violation(key_of("sarif-carries", c), "SARIF results do not carry the findings (ruleId, level, message, locations): got/expected %s" % (str(wrong)[:300],),
                      {"findings": [vlib.show(G.describe_msg(m)) for m in msgs], "sarif_results": str(got)[:1500], "expected_results": str(exp)[:1500],
                       "similar_deviations_this_run": len(carry_bad),
                       "how": "echo '%s' | build/harness/vh_c26 sarif   (end to end: two findings with the same id and severities of different SARIF levels, --output-format=sarif)" % vlib.enc_case(c)})
    if not carry_bad:
        report_model_diffs(run, "SarifReport::serialize", "sarif", sarif_diffs)
    if worst:
        c, ex, out = worst
        run.violation("sarif-nonutf8-name", "a string that is not valid UTF-8 (file name, id or message) is written raw into the SARIF document",
                      {"findings": vlib.show(c[2:]), "reader_says": ex, "how": "echo '%s' | build/harness/vh_c26 sarif | xxd -r -p | python3 -c 'import json,sys; json.load(sys.stdin.buffer)'" % vlib.enc_case(c)})

    # -- dedup (model only; the code is exercised end to end)
    texts = [[rng.choice([b"a", b"b", b"c", b""]) for _ in range(rng.randint(0, 6))] for _ in range(200)]
    for t, o in zip(texts, model_eval(model, "dedup", texts)):
        exp = [b"1" if t.index(x) == k else b"0" for k, x in enumerate(t)]
        if o != exp and t:
            run.violation(key_of("dedup", t), "dedup model is not 'first occurrence only'", {"case": vlib.show(t), "model": vlib.show(o)}, found_input=False)


# ------------------------------------------------------------------ X2: the real binary
PLANT = b"void f(){int a[2];a[3]=0;}\n"          # arrayIndexOutOfBounds at 1:20
PLANT2 = b"void g(int*p){ if(p){} *p=0; }\n"      # nullPointerRedundantCheck, two locations, symbol p
INJECT = r'''
import sys, os, binascii
if any(os.path.basename(a).startswith("main.c.") and a.endswith(".dump") for a in sys.argv):
    for line in open(os.environ["C26_INJECT"]):
        sys.stdout.buffer.write(binascii.unhexlify(line.strip()) + b"\n")
'''


def run_cppcheck(args, cwd, env=None):
    e = dict(os.environ)
    e.pop("CLICOLOR_FORCE", None)
    if env:
        e.update(env)
    p = subprocess.run([vlib.CPPCHECK] + args, cwd=cwd, stdout=subprocess.PIPE, stderr=subprocess.PIPE, timeout=600, env=e)
    return p.returncode, p.stdout, p.stderr


def e2e(run, rng, quick, schema, scratch):
    st = run.stream("e2e")
    rounds = 1 if quick else 10
    tmpl = "{file}\x1f{line}\x1f{column}\x1f{severity}\x1f{id}\x1f{message}"
    known = {}
    for rnd, scen in [(r, sc) for r in range(rounds) for sc in ("names", "messages")]:
        d = os.path.join(scratch, "e2e%d%s" % (rnd, scen))
        os.makedirs(d)
        names = [b"main.c", b"plain.c", b"sp ace.c", b"amp&lt<gt>.c", b"quote'\".c", "uä中.c".encode("utf-8")]
        hostile = [b"x{line}y.c", b"{id}.c", b"a\x01b.c", b"tab\tx.c", b"l\xe4.c", b"{message}{file}.c"]
        extra = []
        for _ in range(3):
            n = bytes(rng.choices(b"ab{}&<>'\" ;%$\x02\x7f\xc3\xa4\xff", k=rng.randint(1, 6))).replace(b"/", b"_") + b".c"
            if n not in names + hostile + extra and not n.startswith(b"-"):
                extra.append(n)
        files = {}
        for n in (names + hostile + extra if scen == "names" else [b"main.c"]):
            try:
                with open(os.path.join(os.fsencode(d), n), "wb") as f:
                    f.write(PLANT + (PLANT2 if rng.random() < 0.5 or n == b"main.c" else b""))
                files[n] = f
            except OSError:
                continue
        if scen == "names":
            with open(os.path.join(d, "remark.c"), "wb") as f:
                f.write(b"void r(){int x=0; // REMARK hello\n}\n")
            with open(os.path.join(d, "hline.c"), "wb") as f:
                f.write(b'#line 5 "./zz/../q.c"\n' + PLANT)
        # hostile message texts through an addon
        inj = []
        texts = [b"plain text", b"x {file} y", b"{line}{column}{code}", b"a & b < c > d \" ' e", b"ctl \x01\x02 tab\t", b"uni \xc3\xa4", b"{callstack} {severity}"]
        if scen == "names":
            texts = []
        else:
            texts += [G.rbytes(rng, rng.choice(["brace", "xml", "any"]), 10).replace(b"\n", b" ").replace(b"\r", b" ").replace(b"\0", b"") or b"t" for _ in range(4)]
        for k, t in enumerate(texts):
            esc = b"".join(bytes([c]) if 32 <= c < 127 and c not in b'"\\' else (b"\\u%04x" % c if c < 128 else bytes([c])) for c in t)
            inj.append(b'{"file":"main.c","linenr":%d,"column":%d,"severity":"style","message":"%s","addon":"inj","errorId":"e%d"}' % (k + 1, k + 2, esc, k))
        exp_levels = {}
        if scen == "messages":
            for k, (sv, lvl) in enumerate([("style", "warning"), ("warning", "error"), ("portability", "warning")]):
                inj.append(b'{"file":"main.c","linenr":%d,"column":1,"severity":"%s","message":"dup %d","addon":"inj","errorId":"dup"}' % (50 + k, sv.encode(), k))
                exp_levels[(b"main.c", 50 + k, 1, b"inj-dup")] = (lvl, sv.encode())
        with open(os.path.join(d, "inject.py"), "w") as f:
            f.write(INJECT)
        with open(os.path.join(d, "inject.txt"), "w") as f:
            f.write("\n".join(x.hex() for x in inj) + "\n")
        env = {"C26_INJECT": os.path.join(d, "inject.txt")}
        addon = ["--addon=" + os.path.join(d, "inject.py")] if scen == "messages" else []
        common = ["-q", "--enable=style", "--inline-suppr"] + addon + ["."]
        _, _, text = run_cppcheck(["--template=" + tmpl] + common, d, env)
        _, _, xml = run_cppcheck(["--xml"] + (["--debug-warnings", "--report-type=misra-c-2012"] if scen == "names" else []) + common, d, env)
        _, _, sarif = run_cppcheck(["--output-format=sarif"] + common, d, env)

        # expected findings, by construction (what was planted / injected)
        exp = set()
        for n in files:
            exp.add((n, 1, 20, b"arrayIndexOutOfBounds"))
        for k, t in enumerate(texts):
            exp.add((b"main.c", k + 1, k + 2, b"inj-e%d" % k))
        exp_msgs = {b"inj-e%d" % k: t for k, t in enumerate(texts)}
        exp |= set(exp_levels)

        # text
        got_text = {}
        for line in text.split(b"\n"):
            f = line.split(b"\x1f")
            if len(f) == 6 and f[4] in (b"arrayIndexOutOfBounds",) or (len(f) == 6 and f[4].startswith(b"inj-")):
                try:
                    got_text[(f[0], int(f[1]), int(f[2]), f[4])] = f[5]
                except ValueError:
                    pass
        for key in sorted(exp):
            st["evaluations"] += 1
            st["nontrivial"].add(("text", rnd, scen) + key)
            n = key[0]
            bucket = "text," + ("brace-name" if b"{" in n else "plain-name")
            st["hist"][bucket] = st["hist"].get(bucket, 0) + 1
            bad = key not in got_text or (key[3] in exp_msgs and got_text[key] != exp_msgs[key[3]])
            if bad:
                braces = b"{" in n or (key[3] in exp_msgs and b"{" in exp_msgs[key[3]])
                if braces:
                    known.setdefault("template-rescan", ("text output: finding %s is not rendered through the template fields" % (vlib.show(list(key)),), d, n))
                else:
                    run.violation("e2e-text:" + hashlib.sha1(repr(key).encode()).hexdigest()[:10], "text output lacks finding %s (or its message differs)" % (vlib.show(list(key)),),
                                  {"dir_listing": vlib.show(sorted(files)), "template": tmpl, "expected": vlib.show(list(key)), "text_output": vlib.show(text[:3000]),
                                   "how": "create the files, run cppcheck --template=... -q --enable=style --addon=inject.py ."})
        # xml
        def collect(xmlbytes):
            doc = minidom.parseString(xmlbytes)
            got = {}
            for e in doc.getElementsByTagName("error"):
                locs = [l for l in e.childNodes if l.nodeType == l.ELEMENT_NODE and l.tagName == "location"]
                for p in rng_problems(schema, e):
                    k = KNOWN_RNG.get(p)
                    if k:
                        known.setdefault(k, ("--xml output: " + p, d, b""))
                    else:
                        run.violation("e2e-rng:" + p, "--xml output does not conform to cppcheck-errors.rng: " + p, {"xml": vlib.show(xmlbytes[:3000])})
                if locs:
                    l0 = locs[0]
                    got[(l0.getAttribute("file").encode("utf-8", "surrogateescape"), int(l0.getAttribute("line")), int(l0.getAttribute("column")),
                         e.getAttribute("id").encode())] = e.getAttribute("msg").encode("utf-8")
            return got

        def compare_xml(got, keys, xmlbytes):
            for key in sorted(keys):
                st["evaluations"] += 1
                st["nontrivial"].add(("xml", rnd, scen) + key)
                st["hist"]["xml"] = st["hist"].get("xml", 0) + 1
                if key not in got or (key[3] in exp_msgs and got[key] != fix_invalid(exp_msgs[key[3]])):
                    if any(b < 32 for b in key[0]):
                        known.setdefault("xml-control-char", ("--xml output: file name %s is not recovered by an XML reader" % vlib.show(key[0]), d, key[0]))
                    else:
                        run.violation("e2e-xml:" + hashlib.sha1(repr(key).encode()).hexdigest()[:10], "--xml output lacks finding %s (or its message differs)" % (vlib.show(list(key)),),
                                      {"expected": vlib.show(list(key)), "xml": vlib.show(xmlbytes[:3000])})
        try:
            compare_xml(collect(xml), exp, xml)
        except Exception as ex:
            ctl = [n for n in files if any(b < 32 for b in n)]
            nonutf = [n for n in files if not is_utf8(n)]
            st["evaluations"] += 1
            st["hist"]["xml-rejected"] = st["hist"].get("xml-rejected", 0) + 1
            if ctl:
                known.setdefault("xml-control-char", ("--xml output of a directory holding %s is rejected by xml.dom.minidom: %s" % (vlib.show(ctl), str(ex)[:100]), d, ctl[0]))
            if nonutf:
                known.setdefault("xml-nonutf8-name", ("--xml output of a directory holding %s is rejected by xml.dom.minidom: %s" % (vlib.show(nonutf), str(ex)[:100]), d, nonutf[0]))
            if not ctl and not nonutf:
                run.violation("e2e-xml-wf", "--xml output is not well-formed: " + str(ex)[:200], {"files": vlib.show(sorted(files)), "xml": vlib.show(xml[:3000])})
            # repeat without the names that break the document, so that the rest is still compared
            keep = [n for n in files if n not in ctl and n not in nonutf]
            d2 = d + "_clean"     # (file names are not passed as arguments: that is C31's subject)
            os.makedirs(d2)
            for n in keep:
                shutil.copy(os.path.join(os.fsencode(d), n), os.path.join(os.fsencode(d2), n))
            _, _, xml2 = run_cppcheck(["--xml", "-q", "--enable=style"] + addon + ["."], d2, env)
            try:
                compare_xml(collect(xml2), [k for k in exp if k[0] in keep], xml2)
            except Exception as ex2:
                run.violation("e2e-xml-wf2", "--xml output is not well-formed although every file name is clean: " + str(ex2)[:200], {"files": vlib.show(keep), "xml": vlib.show(xml2[:3000])})
        # sarif
        try:
            doc = json.loads(sarif)
            got = {}
            for x in doc["runs"][0]["results"]:
                l = x["locations"][-1]["physicalLocation"] if x["ruleId"] != "nullPointerRedundantCheck" else x["locations"][0]["physicalLocation"]
                got[(l["artifactLocation"]["uri"].encode("utf-8"), l["region"]["startLine"], l["region"]["startColumn"], x["ruleId"].encode())] = x["level"]
            for key, (lvl, sv) in sorted(exp_levels.items()):
                if key in got and got[key] != lvl:
                    run.violation("e2e-sarif-level:" + hashlib.sha1(repr(key).encode()).hexdigest()[:10],
                                  "SARIF gives level %r to finding %s of severity %s (expected %r)" % (got[key], vlib.show(list(key)), sv.decode(), lvl),
                                  {"injected_findings": vlib.show(inj[-3:]), "sarif": vlib.show(sarif[:3000]),
                                   "how": "an addon printing these three lines for main.c; cppcheck -q --enable=style --addon=inject.py --output-format=sarif ."})
            for key in sorted(exp):
                st["evaluations"] += 1
                st["nontrivial"].add(("sarif", rnd, scen) + key)
                st["hist"]["sarif"] = st["hist"].get("sarif", 0) + 1
                if key not in got:
                    run.violation("e2e-sarif:" + hashlib.sha1(repr(key).encode()).hexdigest()[:10], "SARIF output lacks finding %s" % (vlib.show(list(key)),),
                                  {"expected": vlib.show(list(key)), "sarif": vlib.show(sarif[:3000])})
        except (UnicodeDecodeError, ValueError) as ex:
            nonutf = [n for n in files if not is_utf8(n)] + [t for t in texts if not is_utf8(t)]
            st["evaluations"] += 1
            st["hist"]["sarif-rejected"] = st["hist"].get("sarif-rejected", 0) + 1
            if nonutf:
                known.setdefault("sarif-nonutf8-name", ("SARIF output with %s is rejected by json: %s" % (vlib.show(nonutf[:3]), str(ex)[:100]), d, nonutf[0]))
            else:
                run.violation("e2e-sarif-json", "SARIF output is not valid JSON: " + str(ex)[:200], {"sarif": vlib.show(sarif[:3000])})
        # duplicates: the same header finding from two translation units is printed once
        if rnd == 0 and scen == "names":
            dd = os.path.join(d, "dup")
            os.makedirs(dd)
            open(os.path.join(dd, "h.h"), "wb").write(b"static void hf(){int a[2];a[3]=0;}\n")
            for n in ("t1.c", "t2.c"):
                open(os.path.join(dd, n), "wb").write(b'#include "h.h"\nvoid %s(){hf();}\n' % n[:2].encode())
            _, _, out = run_cppcheck(["-q", "--template={file}:{line}:{id}", "t1.c", "t2.c"], dd)
            cnt = out.count(b"h.h:1:arrayIndexOutOfBounds")
            st["evaluations"] += 1
            st["nontrivial"].add(("dup",))
            if cnt != 1:
                run.violation("e2e-dedup", "a finding in a header included by two files is printed %d times" % cnt, {"output": vlib.show(out)})
    for k, (what, d, n) in known.items():
        run.violation(k, what, {"where": "end-to-end run of build/repo/bin/cppcheck in a scratch directory", "file_name": vlib.show(n), "what": what,
                                "how": "printf 'void f(){int a[2];a[3]=0;}\\n' > <that file name>; cppcheck -q --template='{file}|{line}' . ; cppcheck -q --xml . ; cppcheck -q --output-format=sarif ."})


if __name__ == "__main__":
    vlib.main(check, PID)
