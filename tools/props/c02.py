#!/usr/bin/env python3
"""C02  Container-size facts hold in every UB-free execution (partial: library action table,
analyzer size step, SIZE/EMPTY yield mapping proved; the analyzers as a whole only validated
by execution; see docs/C02.md).

translate:  tools/translate/stdcfg.py -> Cont/Gen_StdCfg.v (Action/Yield enums, actionFrom/yieldFrom, raw <container>s)
prove:      coq/theories/Properties_C02.v
correspond: X0 model `load` (inheritance/override) vs Library::load on cfg/std.cfg (harness)
            X1 one call per table row: model analyzer step vs the Known size the real binary dumps after the call,
               and the reference effect `std_effect` vs the sizes libstdc++ (debug mode + ASan/UBSan) produces
            X2 (the property) generated functions over every container kind: every Known/Impossible container-size
               / size() / empty() value the real binary dumps at an observation site vs the sizes traced by
               executing the function for several inputs; model `holds` decides each (fact, observation)
            X3 EMPTY yield: model empty_of_size of the container-size values seen at empty() sites vs the values
               the binary put on the call token
search:     a fact contradicted by a clean execution is the failing input; it is shrunk statement-wise and
            classified; rows the model lists as unsound are replayed on the binary with their witness call.
"""
import hashlib
import os
import re
import shutil
import sys
import tempfile

sys.path.insert(0, os.path.dirname(os.path.dirname(os.path.abspath(__file__))))
import vlib
from props import cont_common as C
from translate import stdcfg as T

PID = "C02"


def model_lines(model, lines):
    rc, out, err = vlib.run_lines([model], [vlib.enc_case(l) for l in lines])
    if rc != 0 or len(out) != len(lines):
        raise vlib.BuildError("model run failed: " + err[-500:])
    return [[x.decode("latin-1") for x in vlib.dec_line(o)] for o in out]


def make_holds(model):
    cache = {}

    def holds_batch(qs):
        todo = [q for q in set(qs) if q not in cache]
        if todo:
            res = model_lines(model, [["holds", str(n), k, b, str(i)] for (n, k, b, i) in todo])
            for q, r in zip(todo, res):
                cache[q] = r == ["1"]

    def holds(n, k, b, i):
        q = (n, k, b, i)
        if q not in cache:
            holds_batch([q])
        return cache[q]
    holds.batch = holds_batch
    return holds


def trivial_fact(f):
    k, b, i, where = f
    return k == "I" and ((b == "U" and i < 0) or (b == "P" and i < 0))


# ---------------------------------------------------------------- X0
def stream_load(run, model, vh, cfg):
    ids = model_lines(model, [["conts"]])[0]
    rc, out, err = vlib.run_lines([vh, "conts"], [vlib.enc_case([cfg])])
    impl_ids = sorted(x.decode() for x in vlib.dec_line(out[0])) if out else []
    if sorted(ids) != impl_ids:
        run.violation("load:ids", "model and Library::load disagree on the set of containers: %s vs %s" % (sorted(ids), impl_ids),
                      {"broken": "correspondence load", "model": sorted(ids), "impl": impl_ids}, found_input=False)

    def canon(r):
        if len(r) < 3:
            return r
        head, rest = r[:3], r[3:]
        tri = sorted(tuple(rest[i:i + 3]) for i in range(0, len(rest), 3))
        return head + [x for t in tri for x in t]
    cases = [[cfg, i] for i in sorted(set(ids) | set(impl_ids))] + [[cfg, "noSuchContainer"]]
    m_lines = [vlib.enc_case(["funcs", c[1]]) for c in cases]
    rc1, mo, _ = vlib.run_lines([model], m_lines)
    rc2, io, _ = vlib.run_lines([vh, "funcs"], [vlib.enc_case(c) for c in cases])
    nfun = 0
    for c, a, b in zip(cases, mo, io):
        ma, ib = canon(vlib.dec_line(a)), canon(vlib.dec_line(b))
        nfun += max(0, (len(ib) - 3) // 3)
        run.count("load", None, nontrivial=("cont", c[1]) if len(ib) > 3 else None, bucket="functions:%d" % ((len(ib) - 3) // 3 if len(ib) >= 3 else -1))
        if ma != ib:
            run.stream("load")["disagreements"] += 1
            run.violation("load:" + c[1], "container %s: model load and Library::load differ" % c[1],
                          {"broken": "correspondence load", "container": c[1], "model": vlib.show(ma), "impl": vlib.show(ib)}, found_input=False)
    run.extra["table_functions_resolved"] = nfun
    table = {}
    for c, b in zip(cases, io):
        r = [x.decode() for x in vlib.dec_line(b)]
        if len(r) >= 3:
            table[c[1]] = {r[i]: (r[i + 1], r[i + 2]) for i in range(3, len(r), 3)}
    return table


# ---------------------------------------------------------------- X1
def stream_rows(run, model, work, table, enums, variadic, holds):
    txt, rows, sites = C.row_programs()
    path = os.path.join(work, "rows.cpp")
    open(path, "w").write(txt)
    facts, stats = C.dump_facts(path, sites)
    obs, dt = C.compile_and_run(work, "rows.cpp", len(rows), inputs=[0])
    run.extra["rows_compile_s"] = round(dt, 1)
    no_action, no_yield = str(enums["actions"].index("NO_ACTION")), str(enums["yields"].index("NO_YIELD"))
    cname = {"forward_list": "forward_list", "string": "string"}
    q_step, q_eff = [], []
    for r in rows:
        a, y = table.get(r["cid"], {}).get(r["meth"], (no_action, no_yield))
        L = 0
        if r["meth"] == "append" and r["nargs"] == 1:
            L = C.c_strlen(r["args"])
            if L is None:
                L = 3 if r["args"].strip() == "d" else 0    # d holds three elements; an initializer list has no known length
        r["L"] = L
        r["var"] = ("std::%s::%s" % (r["kname"], r["meth"])) in variadic
        q_step.append(["step", a, y, str(r["nargs"]), "1" if r["var"] else "0", str(L)])
        if r.get("ov"):
            q_eff.append(["effov", str(r["kind"]), r["meth"]] + C.ov_fields(r["ov"], r["n0"]))
        else:
            q_eff.append(["eff", str(r["kind"]), r["meth"], str(r["nargs"])])
    steps = model_lines(model, q_step)
    effs = model_lines(model, q_eff)
    bad_step, bad_ref, bad_fact = [], [], []
    for r, st, ef in zip(rows, steps, effs):
        tr = obs.get((r["fn"], 0))
        if r.get("ov"):
            # effov answers effect fields + arity + well-formedness
            ar, wf = ef[-2], ef[-1]
            ef = ef[:-2]
            if int(ar) != r["nargs"] or wf != "1":
                bad_ref.append((r, ef, "descriptor arity %s / wf %s does not fit the call (%d arguments)" % (ar, wf, r["nargs"])))
                continue
        # --- the property on this row: every Known/Impossible value after the call vs the executed size
        if tr is not None:
            szs = [v for (sid, what, v) in tr if what == "size"]
            if len(szs) == 2:
                for f in facts.get(r["after"], []):
                    if f[3] == "container":
                        run.count("rows:facts", None, nontrivial=None if trivial_fact(f) else (r["kname"], r["meth"], r["args"], r["n0"], f[:3]),
                                  bucket="%s %s" % (r["kname"], {"K": "Known", "I": "Impossible"}[f[0]]))
                        if not holds(szs[1], f[0], f[1], f[2]):
                            bad_fact.append((r, f, szs))
        before = [f for f in facts.get(r["before"], []) if f[3] == "container" and f[0] == "K"]
        after = [f for f in facts.get(r["after"], []) if f[3] == "container" and f[0] == "K"]
        # --- analyzer step: model vs binary
        if before and before[0][2] == r["n0"]:
            want = None
            if st[0] == "W":
                want = r["n0"] + int(st[1])
            elif st[0] == "K":
                want = r["n0"]
            got = after[0][2] if after else None
            nt = (r["kname"], r["meth"], r["nargs"]) if st[0] in "WK" else None
            run.count("rows:step", None, nontrivial=nt, bucket="model %s, binary %s" % (st[0], "known" if after else "none"))
            if want is not None and got != want:
                bad_step.append((r, st, want, got))
        else:
            run.count("rows:step", None, bucket="no Known size before the call")
        # --- reference effect vs libstdc++
        if ef[0] == "N":
            bad_ref.append((r, ef, "compiles but the reference semantics has no such member/arity"))
            run.count("rows:reference", None, bucket="ENoSuch")
            continue
        if tr is None:
            ub_model = ef[0] == "D" and int(ef[1]) > r["n0"]
            run.count("rows:reference", None, nontrivial=(r["kname"], r["meth"], r["args"], r["n0"]) if ub_model else None,
                      bucket="execution aborted, reference %s" % ("UB" if ub_model else "clean"))
            if not ub_model and not (r["meth"] in ("at", "erase") and r["n0"] <= 1) and not (r["meth"] in ("front", "back", "top", "pop_front", "pop_back", "pop", "erase_after") and r["n0"] == 0):
                bad_ref.append((r, ef, "execution aborted but the reference semantics says it is defined"))
            continue
        sizes = [v for (sid, what, v) in tr if what == "size"]
        if len(sizes) != 2:
            continue
        n, n2 = sizes
        if ef[0] == "D":
            ok = int(ef[1]) <= n and n + int(ef[2]) <= n2 <= n + int(ef[3])
        elif ef[0] == "A":
            ok = n2 == n + (r["ov"][1][1] if r.get("ov") else r["L"])    # the real length of the single argument
        elif ef[0] == "C":
            ok = n2 == int(ef[1])
        else:
            ok = n2 >= 0
        if ef[0] == "D" and int(ef[1]) > n:
            ok = True   # reference says UB, the sanitizers did not notice: nothing to compare
        run.count("rows:reference", None, nontrivial=(r["kname"], r["meth"], r["args"], r["n0"]),
                  bucket="%s %s" % (ef[0], "exact" if ef[0] in "AC" or (ef[0] == "D" and ef[2] == ef[3]) else "range"))
        if not ok:
            bad_ref.append((r, ef, "libstdc++ took size %d to %d" % (n, n2)))
    run.stream("rows:facts")["disagreements"] += len(bad_fact)
    seen_rf = set()
    for r, f, szs in bad_fact:
        a, y = table.get(r["cid"], {}).get(r["meth"], ("", ""))
        uniq_push = r["kind"] in (6, 8) and a == str(enums["actions"].index("PUSH")) if "PUSH" in enums["actions"] else False
        if uniq_push:
            continue        # reported by unsound_rows with the model's witness (push-on-unique-key)
        key = "rowfact:%s.%s/%s" % (r["kname"], r["meth"], "ov:%s%s" % (r["ov"][0][0], r["ov"][1][0]) if r.get("ov") else r["nargs"])
        if key in seen_rf:
            continue
        seen_rf.add(key)
        K = C.ROW_KINDS[r["kind"]]
        prog = "\n".join(["#include <string>", "#include <vector>", "#include <deque>", "#include <list>", "void sink(int, unsigned long);", "void f() {",
                          "  %s c;" % K["ty"], "  %s d;" % K["ty"]] + ["  " + K["grow"] % (j + 1) for j in range(r["n0"])] +
                         ["  " + (K["grow"] % j).replace("c.", "d.") for j in (4, 5, 6)] +
                         ["  c.%s(%s);" % (r["meth"], r["args"]), "  sink(1, c.size());", "}"]) + "\n" if K["grow"] else ""
        run.violation(key, "after c.%s(%s) on a std::%s of size %d (d has 3 elements) cppcheck reports %s container-size %d (bound %s), the execution has size %d"
                      % (r["meth"], r["args"], r["kname"], r["n0"], {"K": "Known", "I": "Impossible"}[f[0]], f[2], f[1], szs[1]),
                      {"program": prog, "fact": {"kind": f[0], "bound": f[1], "value": f[2]}, "executed_size": szs[1],
                       "row": {k: r[k] for k in ("kname", "cid", "meth", "args", "nargs", "n0")},
                       "how": "cppcheck --dump --library=std on `program`: container-size value of `c` in c.size(); compile with a main that defines sink and calls f() (g++ -D_GLIBCXX_DEBUG -fsanitize=address,undefined)"})
    run.stream("rows:step")["disagreements"] += len(bad_step)
    run.stream("rows:reference")["disagreements"] += len(bad_ref)
    for r, st, want, got in bad_step[:3]:
        run.violation("rowstep:%s.%s/%d" % (r["kname"], r["meth"], r["nargs"]),
                      "after c.%s(%s) on std::%s with Known size %d the model's analyzer step says Known %s, the binary has %s"
                      % (r["meth"], r["args"], r["kname"], r["n0"], want, got),
                      {"broken": "correspondence analyzer step", "row": {k: r[k] for k in ("kname", "cid", "meth", "args", "nargs", "n0", "var")},
                       "model_step": st, "binary_known_after": got}, found_input=False)
    for r, ef, why in bad_ref[:3]:
        run.violation("rowref:%s.%s(%s)" % (r["kname"], r["meth"], r["args"]),
                      "reference semantics of std::%s::%s(%s) from size %d: %s (model effect %s)" % (r["kname"], r["meth"], r["args"], r["n0"], why, ef),
                      {"broken": "reference semantics vs libstdc++", "row": {k: r[k] for k in ("kname", "meth", "args", "nargs", "n0")}, "effect": ef, "why": why},
                      found_input=False)
    return rows, facts, obs, sites, txt


def unsound_rows(run, model, rows, facts, obs, sites, holds, table, push_idx):
    """every case the model lists as unsound: replay the witness calls on the binary and by execution"""
    flat = model_lines(model, [["unsound"]])[0]
    cases = [tuple(flat[i:i + 5]) for i in range(0, len(flat) - len(flat) % 5, 5)] if flat != ["E"] else []
    groups = {}
    for cont, meth, k, na, var in cases:
        groups.setdefault((cont, meth), []).append((int(k), int(na), var == "1"))
    run.extra["model_unsound_cases"] = len(cases)
    run.extra["model_unsound_members"] = sorted("%s.%s" % g for g in groups)
    not_reproduced = []
    for (cont, meth), cs in sorted(groups.items()):
        hit = None
        for r in rows:
            if r["cid"] != cont or r["meth"] != meth or (r["kind"], min(r["nargs"], 4), r["var"]) not in cs:
                continue
            tr = obs.get((r["fn"], 0))
            if tr is None:
                continue
            after_size = [v for (sid, what, v) in tr if what == "size"][-1]
            for f in facts.get(r["after"], []):
                if f[3] == "container" and not holds(after_size, f[0], f[1], f[2]):
                    hit = (r, f, after_size)
                    break
            if hit:
                break
        if hit:
            r, f, n = hit
            K = C.ROW_KINDS[r["kind"]]
            prog = "\n".join(["#include <set>", "#include <map>", "#include <utility>", "void sink(int, unsigned long);", "void f() {",
                              "  %s c;" % K["ty"]] + ["  " + K["grow"] % (j + 1) for j in range(r["n0"])] +
                             ["  c.%s(%s);" % (r["meth"], r["args"]), "  sink(1, c.size());", "}"]) + "\n"
            uniq_push = r["kind"] in (6, 8) and table.get(cont, {}).get(meth, ("", ""))[0] == push_idx
            key = ("push-on-unique-key:%s.%s" if uniq_push else "table-unsound:%s.%s") % (cont, meth)
            why = ("maps %s.%s to action 'push' (+1) but a unique-key container may keep its size" % (cont, meth)) if uniq_push else \
                  ("gives %s.%s an action whose size effect is not what the member does (model: C02_unsound_case_refuted)" % (cont, meth))
            run.violation(key,
                          "cfg/std.cfg %s: after c.%s(%s) on a std::%s of size %d "
                          "cppcheck reports %s container-size %d, the execution has size %d"
                          % (why, r["meth"], r["args"], r["kname"], r["n0"], {"K": "Known", "I": "Impossible"}[f[0]], f[2], n),
                          {"program": prog, "container": cont, "member": meth, "cppcheck_fact": {"kind": f[0], "bound": f[1], "value": f[2]},
                           "executed_size": n, "model": "C02_unsound_case_refuted lists this case",
                           "how": "cppcheck --dump --library=std on `program`: container-size value of `c` in c.size(); compile and run it (g++ -D_GLIBCXX_DEBUG -fsanitize=address,undefined) and print c.size()"})
        else:
            not_reproduced.append("%s.%s" % (cont, meth))
    run.extra["model_unsound_not_reproduced_on_binary"] = not_reproduced
    flat = model_lines(model, [["unsoundov"]])[0]
    ov = sorted(set("%s.%s" % (flat[i], flat[i + 1]) for i in range(0, len(flat) - len(flat) % 6, 6))) if flat and flat != ["E"] else []
    run.extra["model_unsound_overload_members"] = ov
    ncases = model_lines(model, [["ovcases"]])[0]
    run.extra["overload_shapes_on_table"] = len(ncases) // 6
    for cm in ov:
        if not any(v.key.endswith(":" + cm) for v in run.violations):
            run.violation("table-unsound-overload:" + cm, "the model lists an overload shape of %s whose analyzer step is not justified by the standard's effect (unsound_ov_cases)" % cm,
                          {"broken": "table", "member": cm, "cases": flat}, found_input=False)


# ---------------------------------------------------------------- X2 / X3
def labels(kind, body):
    """the known defect classes a failing function could belong to, judged by its statements"""
    tags, texts = [], []

    def go(stmts):
        for s in stmts:
            if s.kind == "op":
                tags.append(s.tag)
                texts.append(s.text)
            for k in ("a", "b", "body"):
                if hasattr(s, k):
                    go(getattr(s, k))
    go(body)
    K = C.KINDS[kind]
    out = []
    if K["uniq"]:
        cont = "stdMap" if K.get("mapk") else "stdSet"
        for t, m in (("insert", "insert"), ("emplace", "emplace"), ("emplace2", "emplace"), ("try_emplace", "try_emplace"),
                     ("emplace_hint", "emplace_hint"), ("callgrow", "insert")):
            if t in tags and not (t == "callgrow" and K.get("mapk")):
                out.append("push-on-unique-key:%s.%s" % (cont, m))
        if K.get("mapk") and any(re.search(r"\w\{\{\d+, \d+\}\};", t) for t in texts):
            out.append("nested-brace-init:stdMap")
        if "declinit" in tags or "assigninit" in tags:
            out.append("initlist-duplicate-keys:%s" % cont)
    return out, tags


def classify(kind, body):
    """stable identity of a shrunk failing function"""
    ls, tags = labels(kind, body)
    if ls:
        return ls[0]
    return "facts:%s:%s" % (kind, hashlib.sha1(",".join(tags).encode()).hexdigest()[:10])


def count_stmts(body):
    n = 0
    for s in body:
        n += 1
        for k in ("a", "b", "body"):
            if hasattr(s, k):
                n += count_stmts(getattr(s, k))
    return n


def assign_uids(body):
    n = [0]

    def go(stmts):
        for s in stmts:
            n[0] += 1
            s.uid = n[0]
            for k in ("a", "b", "body"):
                if hasattr(s, k):
                    go(getattr(s, k))
    go(body)


def all_uids(body, top=True):
    out = []
    for i, s in enumerate(body):
        if not (top and i < 2 and s.kind == "op" and s.tag.startswith("decl")):
            out.append(s.uid)
        for k in ("a", "b", "body"):
            if hasattr(s, k):
                out += all_uids(getattr(s, k), False)
    return out


def remove_uids(body, uids):
    """a copy of body without the statements in uids; observations of a removed copy go with it"""
    def go(stmts):
        out = []
        for s in stmts:
            if s.uid in uids:
                continue
            c = s.clone()
            for k in ("a", "b", "body"):
                if hasattr(c, k):
                    setattr(c, k, go(getattr(s, k)))
            out.append(c)
        return out
    res = go(body)
    declared = set()

    def decls(stmts):
        for s in stmts:
            if s.kind == "op" and s.tag == "copyctor":
                declared.add(s.text.split("=")[0].split()[-1])
            for k in ("a", "b", "body"):
                if hasattr(s, k):
                    decls(getattr(s, k))
    decls(res)

    def prune(stmts):
        stmts[:] = [s for s in stmts if not (s.kind == "obs" and s.var.startswith("e") and s.var not in declared)]
        for s in stmts:
            for k in ("a", "b", "body"):
                if hasattr(s, k):
                    prune(getattr(s, k))
    prune(res)
    return res


def variants(body):
    """non-removal simplifications: a compound replaced by its children, an initialiser dropped"""
    out = []

    def go(stmts, top):
        for i, s in enumerate(stmts):
            if s.kind in ("if", "loop"):
                out.append(("unwrap", s.uid))
            if top and i < 2 and s.kind == "op" and s.tag.startswith("decl") and s.tag not in ("decl0", "decl"):
                out.append(("plain", s.uid))
            for k in ("a", "b", "body"):
                if hasattr(s, k):
                    go(getattr(s, k), False)
    go(body, True)
    res = []
    for what, uid in out:
        b = [x.clone() for x in body]

        def apply(stmts):
            for i, s in enumerate(stmts):
                if s.uid == uid:
                    if what == "unwrap":
                        stmts[i:i + 1] = (s.a + s.b) if s.kind == "if" else s.body
                    else:
                        m = re.match(r"^(std::[\w:<>, ]+?) ([cd])\b", s.text)
                        if m:
                            stmts[i] = C.St("op", text="%s %s;" % (m.group(1), m.group(2)), tag="decl0", uid=s.uid)
                    return True
                for k in ("a", "b", "body"):
                    if hasattr(s, k) and apply(getattr(s, k)):
                        return True
            return False
        apply(b)
        res.append(b)
    return res


def evaluate(work, name, functions, holds, sanitize=True):
    import time
    t0 = time.time()
    try:
        return evaluate_(work, name, functions, holds, sanitize)
    finally:
        vlib.log("  [evaluate %s: %d functions, %.1fs]" % (name, len(functions), time.time() - t0))


def evaluate_(work, name, functions, holds, sanitize=True):
    txt, sites = C.render(functions)
    path = os.path.join(work, name)
    open(path, "w").write(txt)
    facts, stats = C.dump_facts(path, sites)
    obs, dt = C.compile_and_run(work, name, len(functions), sanitize=sanitize)
    qs = []
    for (fn, inp), tr in obs.items():
        if tr:
            for sid, what, val in tr:
                for (k, b, i, where) in facts.get(sid, []):
                    if where == "container" and what == "empty":
                        if val == 1:
                            qs.append((0, k, b, i))
                    else:
                        qs.append((val, k, b, i))
    holds.batch(qs)
    bad = C.contradictions(facts, sites, obs, holds)
    return txt, sites, facts, obs, bad, stats, dt


def failing_of(work, kind, bodies, holds):
    fns = []
    nxt = 1
    for b in bodies:
        b = [x.clone() for x in b]
        nxt = C.renumber(b, nxt)
        fns.append((kind, b))
    txt, sites, facts, obs, bad, stats, dt = evaluate(work, "shrink.cpp", fns, holds)
    return set(fn for (sid, f, fn, inp, val) in bad)


def shrink(work, kind, body, holds, rounds):
    cur = body
    try:
        for _ in range(rounds):
            assign_uids(cur)
            uids = all_uids(cur)
            singles = [remove_uids(cur, {u}) for u in uids]
            vs = variants(cur)
            if not singles and not vs:
                break
            failing = failing_of(work, kind, singles + vs, holds)
            removable = [u for k, u in enumerate(uids) if k in failing]
            vfail = [vs[k - len(singles)] for k in sorted(failing) if k >= len(singles)]
            if not removable and not vfail:
                break
            if len(removable) > 1:
                h = len(removable) // 2
                combos = [remove_uids(cur, set(removable)), remove_uids(cur, set(removable[:h])), remove_uids(cur, set(removable[h:]))]
                f2 = failing_of(work, kind, combos, holds)
                if f2:
                    cur = combos[min(f2)]
                    continue
            if removable:
                cur = remove_uids(cur, {removable[0]})
            else:
                cur = vfail[0]
    except C.CompileError:
        pass
    return cur


def stream_corpus(run, work, holds):
    txt, sites, keys = C.corpus_program()
    path = os.path.join(work, "corpus.cpp")
    open(path, "w").write(txt)
    facts, stats = C.dump_facts(path, sites)
    obs, dt = C.compile_and_run(work, "corpus.cpp", len(keys))
    bad = C.contradictions(facts, sites, obs, holds)
    for (fn, inp), tr in obs.items():
        for sid, what, val in (tr or []):
            for f in facts.get(sid, []):
                run.count("corpus", None, nontrivial=None if trivial_fact(f) else (sid, f, inp, val), bucket=keys[fn][0])
    seen = set()
    for sid, f, fn, inp, val in bad:
        key, decl = keys[fn]
        if (key, decl) in seen:
            continue
        seen.add((key, decl))
        run.stream("corpus")["disagreements"] += 1
        prog = "#include <vector>\n#include <set>\n#include <map>\n#include <utility>\nvoid sink(int, unsigned long);\nvoid f(int a) {\n  %s\n  sink(1, c.size());\n}\n" % decl
        run.violation(key, "`%s` : cppcheck reports %s %s value %d but f(%d) has size %s" % (decl, {"K": "Known", "I": "Impossible"}[f[0]],
                      "container-size" if f[3] == "container" else "size()", f[2], inp, val),
                      {"program": prog, "input_a": inp, "fact": {"kind": f[0], "bound": f[1], "value": f[2], "token": f[3]}, "observed": val,
                       "how": "cppcheck --dump --library=std on `program`: values of `c` in c.size(); compile with a main defining sink and calling f(input_a)"})


def stream_programs(run, model, work, holds, nfun, chunk, max_shrinks):
    rng = run.rng
    total_sites = 0
    seen_keys = {}
    seen_labels = set()
    attributed, unshrunk = [0], [0]
    known_nonpoint = 0
    for start in range(0, nfun, chunk):
        g = C.Gen(rng)
        fns = []
        for _ in range(min(chunk, nfun - start)):
            k = C.pick_kind(rng)
            fns.append((k, g.function(k)))
        txt, sites, facts, obs, bad, stats, dt = evaluate(work, "prog%d.cpp" % start, fns, holds)
        known_nonpoint += stats["known_nonpoint"]
        total_sites += len(sites)
        clean = {k for k, v in obs.items() if v is not None}
        # measure: one evaluation = one (fact, observation) pair decided
        badset = {(sid, f, fn, inp) for (sid, f, fn, inp, val) in bad}
        for (fn, inp), tr in obs.items():
            kind = fns[fn][0]
            if tr is None:
                run.count("facts", None, bucket="%s: execution not clean (dropped)" % kind)
                continue
            for sid, what, val in tr:
                for f in facts.get(sid, []):
                    nt = None if trivial_fact(f) else (start, sid, f, inp, val)
                    run.count("facts", None, nontrivial=nt,
                              bucket="%s %s %s%s" % (kind, what, {"K": "Known", "I": "Impossible"}[f[0]], " (trivial: size>=0)" if trivial_fact(f) else ""))
        # X3: EMPTY yield mapping on the values that occur
        x3 = []
        for sid, (line, var, what, fi) in sites.items():
            if what != "empty":
                continue
            cf = [f for f in facts.get(sid, []) if f[3] == "container"]
            call = {(f[0], f[1], f[2]) for f in facts.get(sid, []) if f[3] == "call"}
            for f in cf:
                x3.append((sid, f, call))
        if x3:
            res = model_lines(model, [["empty", f[0], f[1], str(f[2])] for (sid, f, call) in x3])
            for (sid, f, call), r in zip(x3, res):
                want = (r[0], r[1], int(r[2]))
                run.count("empty-yield", None, nontrivial=(f[0], f[1], f[2]), bucket="%s,%s -> %s" % (f[0], f[1], r[0]))
                if want[0] == "K" and want not in call:
                    run.stream("empty-yield")["disagreements"] += 1
                    run.violation("emptyyield:%s%s%d" % f[:3], "empty() of a container with size value %s: model says %s, the binary's call token has %s" % (f[:3], want, sorted(call)),
                                  {"broken": "correspondence EMPTY yield", "container_value": f[:3], "model": want, "binary": sorted(call),
                                   "line": txt.split("\n")[sites[sid][0] - 1]}, found_input=False)
        if len(run.samples) < 6 and fns:
            sid0 = min(s for s, v in sites.items() if v[3] == 0)
            run.samples.append({"stream": "facts", "function": C.body_text(fns[0][0], fns[0][1]).split("void f0")[1][:600],
                                "facts_at_first_site": [list(f) for f in facts.get(sid0, [])],
                                "observed": [list(x) for x in (obs.get((0, 0)) or [])[:4]]})
        # failures: one representative per function, shrink, classify
        by_fn = {}
        for (sid, f, fn, inp, val) in bad:
            by_fn.setdefault(fn, (sid, f, inp, val))
        run.stream("facts")["disagreements"] += len(by_fn)
        for fn, (sid, f, inp, val) in sorted(by_fn.items(), key=lambda kv: count_stmts(fns[kv[0]][1])):
            kind, body = fns[fn]
            ls = set(labels(kind, body)[0])
            if ls and ls <= seen_labels:
                attributed[0] += 1
                continue
            if max_shrinks[0] > 0:
                max_shrinks[0] -= 1
                small = shrink(work, kind, [s.clone() for s in body], holds, rounds=6)
            elif not ls:
                small = body
            else:
                unshrunk[0] += 1     # could be an instance of a known class; not attributed without shrinking
                continue
            key = classify(kind, small)
            seen_labels.update(labels(kind, small)[0][:1])
            if key in seen_keys:
                continue
            C.renumber(small)
            stxt, ssites, sfacts, sobs, sbad, _, _ = evaluate(work, "final.cpp", [(kind, small)], holds)
            if not sbad:
                small, key = body, classify(kind, body)
                stxt, ssites, sfacts, sobs, sbad, _, _ = evaluate(work, "final.cpp", [(kind, small)], holds)
                if not sbad:
                    continue
            ssid, sf, sfn, sinp, sval = sbad[0]
            seen_keys[key] = True
            line = stxt.split("\n")[ssites[ssid][0] - 1].strip()
            run.violation(key, "std::%s: at `%s` cppcheck reports %s %s value %d (bound %s) but the clean execution f0(%d) observes %s"
                          % (kind, line, {"K": "Known", "I": "Impossible"}[sf[0]], "container-size" if sf[3] == "container" else "call", sf[2], sf[1], sinp, sval),
                          {"program": stxt, "input_a": sinp, "site_line": ssites[ssid][0], "fact": {"kind": sf[0], "bound": sf[1], "value": sf[2], "token": sf[3]},
                           "observed": sval, "container": kind,
                           "how": "save `program` as p.cpp; build/repo/bin/cppcheck --dump --library=std --std=c++17 p.cpp and read the values of the tokens on site_line; "
                                  "compile p.cpp with a main() that defines sink/sinkb (print) and calls f0(input_a) using g++ -std=c++17 -D_GLIBCXX_DEBUG -fsanitize=address,undefined"})
    run.extra["observation_sites"] = total_sites
    run.extra["failing_functions_of_an_already_reported_class"] = attributed[0]
    run.extra["failing_functions_not_shrunk_for_lack_of_budget"] = unshrunk[0]
    run.extra["known_values_with_non_point_bound"] = known_nonpoint


def check(run, replay):
    quick = run.tier == "quick"
    run.level = "proof"
    run.trusted_base += [
        "Coq 8.16.1 kernel; vm_compute in one finite well-formedness sweep (12 kinds x 66 members x 5 arities) and in the non-vacuity Examples; no native_compute",
        "extraction: Require Extraction + ExtrOcamlBasic only; ocaml/driver.ml; harness/vh_c02.cpp (Library::load on cfg/std.cfg, prints Container::functions)",
        "tools/translate/stdcfg.py (regex reader of enum Action/Yield and actionFrom/yieldFrom, ElementTree reader of the <container> elements; raw, unresolved)",
        "reference semantics Cont/Defs.v `std_eff` = what the C++ standard says a member call does to size() (written by hand; tied to libstdc++ 12 by execution, stream rows:reference)",
        "g++ 12 -std=c++17 -D_GLIBCXX_DEBUG -fsanitize=address,undefined as the detector of undefined behaviour in executions (an execution that aborts is dropped); tools/dumpparse.py; the program printer in tools/props/cont_common.py",
        "NOT modelled (partial): valueFlowContainerSize (constructors, initializer lists, assignments, clear/resize special cases), ContainerConditionHandler, forward/reverse traversal, program memory, inter-procedural by-reference analysis; they are exercised only through stream `facts`",
    ]
    run.assumptions += ["g++ compiles /repo faithfully", "libstdc++ implements the container members as the standard specifies"]
    run.extra["rule"] = ("facts: generated functions (2 containers of one kind among vector/string/deque/list/set/unordered_set/multiset/map/array; construction with n, "
                         "{...}, literals; push/pop/insert/erase/emplace/resize/clear/assign/swap/copy/move/append/+=, by-reference callees, if/else on size()/empty()/input, "
                         "for/while loops, early return), each executed for inputs a in %s in a forked child; one evaluation = one (dumped Known/Impossible value, traced "
                         "observation at the same site in a clean execution); non-trivial = distinct (site, value, input, observed) excluding the trivial 'size >= 0' value. "
                         "rows: every (kind, member, argument template, initial size 0/1/3)." % C.INPUTS)
    vlib.ensure_repo_build()
    try:
        info = T.translate(vlib.REPO, os.path.join(vlib.COQ, "theories", "Cont", "Gen_StdCfg.v"))
    except (T.TranslateError, OSError, SyntaxError) as e:
        run.violation("translate:stdcfg", "tools/translate/stdcfg.py cannot read the source: %s" % e,
                      {"broken": "translator", "detail": str(e)}, found_input=False)
        info = None
    ok = run.prove(extra_targets=["theories/Cont/Run.vo"])
    if not ok:
        run.violation("proof:" + PID, "Properties_C02.vo does not build: " + str(run.proof_error())[:300],
                      {"broken": "proof", "detail": run.proof_error()}, found_input=False)
        if not os.path.exists(os.path.join(vlib.COQ, "theories/Cont/Run.vo")):
            return
    model = vlib.build_model(PID)
    vh = vlib.build_harness(PID)
    holds = make_holds(model)
    if info is None:
        info = {"actions": [], "yields": []}
    cfg = os.path.join(vlib.REPO, "cfg", "std.cfg")
    table = stream_load(run, model, vh, cfg)
    bincfg = os.path.join(os.path.dirname(vlib.CPPCHECK), "cfg", "std.cfg")
    if os.path.exists(bincfg) and open(bincfg, "rb").read() != open(cfg, "rb").read():
        run.violation("stale-cfg", "the cfg/std.cfg next to the binary differs from the source tree's (stale build?)",
                      {"broken": "build", "binary_cfg": bincfg, "source_cfg": cfg}, found_input=False)
    cov = model_lines(model, [["covered"]])[0]
    if len(cov) == 2:
        run.extra["table_cases_covered"] = int(cov[0])
        run.extra["table_cases_total"] = int(cov[1])
        if int(cov[0]) < 300:
            run.violation("coverage", "only %s table cases are covered by the reference semantics (startPatterns or member names changed?)" % cov[0],
                          {"broken": "coverage", "covered": cov}, found_input=False)
    work = tempfile.mkdtemp(prefix="c02_", dir=vlib.BUILD)
    try:
        try:
            rows, rfacts, robs, rsites, rtxt = stream_rows(run, model, work, table, info, C.variadic_functions(vlib.REPO), holds)
            unsound_rows(run, model, rows, rfacts, robs, rsites, holds, table, str(info["actions"].index("PUSH")) if "PUSH" in info["actions"] else "-")
        except C.CompileError as e:
            run.violation("rows:compile", "the row programs do not compile: " + str(e)[-300:], {"broken": "row templates", "detail": str(e)[-3000:]}, found_input=False)
        stream_corpus(run, work, holds)
        nfun = 120 if quick else 4000
        try:
            stream_programs(run, model, work, holds, nfun, 60 if quick else 200, [3 if quick else 40])
        except C.CompileError as e:
            run.violation("facts:compile", "a generated program does not compile: " + str(e)[-300:], {"broken": "generator", "detail": str(e)[-3000:]}, found_input=False)
    finally:
        shutil.rmtree(work, ignore_errors=True)


if __name__ == "__main__":
    vlib.main(check, PID)
