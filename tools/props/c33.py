#!/usr/bin/env python3
"""C33  Compiled token-pattern matching equals the pattern language.

translate:  tools/translate/patterns.py  -> MC/Gen_Patterns.v  (every literal pattern the real
            tools/matchcompiler.py recognises in lib/*.cpp: the compiler is imported and hooked)
            tools/translate/toktypes.py  -> MC/Gen_TokTypes.v  (Token::Type, tokTypes table,
            operator chain of Token::update_property_info)
prove:      coq/theories/Properties_C33.v
correspond: a generated translation unit with one function per pattern is passed through the
            real matchcompiler.py; original text (=> interpreter) and compiled text are both
            linked into harness/vh_c33.cpp and run next to the extracted model
            (interp_chars / compiled_str / word-level interp) over real token lists
            (samples, test/cfg, corpus/C33 through the real Tokenizer) and over witness token
            lists with one property flipped.
search:     compiled != interpreted on a source or documented-grammar pattern over a real token
            list is the failing input (pattern, token window).
"""
import collections
import hashlib
import os
import sys

sys.path.insert(0, os.path.dirname(os.path.dirname(os.path.abspath(__file__))))
import vlib
from props import mc_common as G
from translate import patterns as P
from translate import toktypes as T

PID = "C33"


def tokfields(toks):
    out = []
    for s, v, ty in toks:
        out += [s, str(v), str(ty)]
    return out


class Tie:
    def __init__(self, run, model, vh, enum):
        self.run, self.model, self.vh, self.enum = run, model, vh, enum
        self.cases = []       # (stream, meta, fields)
        self.model_bad = []   # model != implementation
        self.diffs = []       # compiled != interpreted
        self.word_bad = []    # word-level interp != char-level interp (model internal)

    def add(self, stream, meta, kind, varid, endi, pat, toks):
        self.cases.append((stream, meta, [str(kind), "" if varid is None else str(varid), "" if endi is None else str(endi), pat] + tokfields(toks)))

    def flush(self):
        if not self.cases:
            return
        m_lines = [vlib.enc_case(["scan"] + c[2]) for c in self.cases]
        i_lines = [vlib.enc_case(c[2]) for c in self.cases]
        rc1, mo, me = vlib.run_lines([self.model], m_lines)
        rc2, io_, ie = vlib.run_lines([self.vh, "scan"], i_lines)
        if rc1 != 0 or len(mo) != len(self.cases):
            raise vlib.BuildError("model run failed rc=%s %d/%d %s" % (rc1, len(mo), len(self.cases), me[-500:]))
        if len(io_) != len(self.cases):
            raise vlib.BuildError("harness died at case %d: %s %s" % (len(io_), self.cases[min(len(io_), len(self.cases) - 1)][2][:4], ie[-500:]))
        for (stream, meta, f), a, b in zip(self.cases, mo, io_):
            ma = [x.decode("latin-1") for x in vlib.dec_line(a)] + ["", "", ""]
            ib = [x.decode("latin-1") for x in vlib.dec_line(b)] + ["", ""]
            mi, mc_, mw = ma[0], ma[1], ma[2]
            ii, ic = ib[0], ib[1]
            ntok = (len(f) - 4) // 3
            nt = None
            if "1" in ii or "1" in ic or (f[0] in ("2", "3") and (ii != "n" or ic != "n")):
                nt = hashlib.sha1(vlib.enc_case(f).encode()).hexdigest()[:16]
            bucket = "%s,kind%s,%s" % (meta.get("src", "?"), f[0], "hit" if nt else "nohit")
            s = self.run.stream(stream)
            s["evaluations"] += (ntok + 1) if f[0] in ("0", "1") else 1
            if nt:
                s["nontrivial"].add(nt)
            s["hist"][bucket] = s["hist"].get(bucket, 0) + 1
            if "F" in mi or "F" in mc_:
                s["hist"]["fuel"] = s["hist"].get("fuel", 0) + 1
                continue
            if mi != ii or mc_ != ic:
                s["disagreements"] += 1
                self.model_bad.append((stream, meta, f, (mi, mc_), (ii, ic)))
            if ii != ic:
                self.diffs.append((stream, meta, f, ii, ic))
            if mw and mw != mi:
                self.word_bad.append((stream, meta, f, mw, mi))
            if len(self.run.samples) < 10 and nt and len(f) < 40:
                self.run.samples.append({"stream": stream, "pattern": f[3], "tokens": vlib.show([x.encode("latin-1") if isinstance(x, str) else x for x in f[4:]]),
                                         "interpreted": ii, "compiled": ic, "model": [mi, mc_, mw]})
        self.cases = []


def model_lines(model, lines):
    rc, out, err = vlib.run_lines([model], lines)
    if rc != 0 or len(out) != len(lines):
        raise vlib.BuildError("model run failed: " + err[-500:])
    return [[x.decode("latin-1") for x in vlib.dec_line(o)] for o in out]


def witness(pat, enum, default_type, rng):
    """a token list that (probably) matches the pattern, one token per non-optional word"""
    E = {n: i for i, n in enumerate(enum)}
    ex = {"%any%": (b"q", 0, E["eName"]), "%assign%": (b"=", 0, E["eAssignmentOp"]), "%bool%": (b"true", 0, E["eBoolean"]),
          "%char%": (b"'c'", 0, E["eChar"]), "%comp%": (b"==", 0, E["eComparisonOp"]), "%cop%": (b"+", 0, E["eArithmeticalOp"]),
          "%name%": (b"nm", 0, E["eName"]), "%num%": (b"12", 0, E["eNumber"]), "%op%": (b"+=", 0, E["eAssignmentOp"]),
          "%or%": (b"|", 0, E["eBitOp"]), "%oror%": (b"||", 0, E["eLogicalOp"]), "%str%": (b'"s t"', 0, E["eString"]),
          "%type%": (b"T", 0, E["eName"]), "%var%": (b"v", 7, E["eVariable"]), "%varid%": (b"w", 5, E["eVariable"])}
    toks = []
    for w in pat.split(b" "):
        if not w:
            continue
        if w[:1] == b"[" and w[-1:] == b"]" and len(w) > 2:
            c = bytes([rng.choice(w[1:-1])])
            toks.append((c, 0, default_type(c)))
        elif w[:2] == b"!!":
            toks.append((b"zz", 0, E["eName"]))
        else:
            alts = [a for a in w.split(b"|")]
            if b"" in alts and rng.random() < 0.4:
                continue
            a = rng.choice([x for x in alts if x] or [b"x"])
            if a.decode("latin-1") in ex:
                toks.append(ex[a.decode("latin-1")])
            else:
                toks.append((a, 0, default_type(a)))
    return toks


def flips(toks, enum, rng, lits):
    E = {n: i for i, n in enumerate(enum)}
    out = [("none", list(toks))]
    for j in range(len(toks)):
        s, v, ty = toks[j]
        cand = [("varid", (s, 0 if v else 5, ty)), ("varid+type", (s, 0 if v else 5, E["eVariable"] if not v else E["eName"])),
                ("type", (s, v, rng.choice([t for t in range(len(enum)) if t != ty]))),
                ("name", (s, v, E["eName"])), ("number", (b"7", 0, E["eNumber"])),
                ("str", (rng.choice(lits), v, ty)), ("space", (s + b" x", v, ty)), ("op", (b"+", 0, E["eArithmeticalOp"]))]
        for name, t in cand:
            out.append((name, toks[:j] + [t] + toks[j + 1:]))
    out.append(("drop-last", toks[:-1]))
    out.append(("append", toks + [(b";", 0, E["eOther"])]))
    return out


def check(run, replay):
    quick = run.tier == "quick"
    rng = run.rng
    run.trusted_base += [
        "Coq 8.16.1 kernel (coqc); vm_compute only for the finite sweeps over the regenerated tables (source pattern list, tokTypes table) and the witnesses",
        "extraction: Require Extraction + ExtrOcamlBasic only; ocaml/driver.ml",
        "translators tools/translate/patterns.py (imports and hooks the real matchcompiler.py; C-string unescaping) and toktypes.py (enum, tokTypes, operator chain of update_property_info; the name/literal branches of update_property_info and the one-line predicates isOp/isConstOp/... are hand-modelled and only text-checked)",
        "harness/vh_c33.cpp + generated units build/harness/gen/c33_{interp,comp}.cpp (one function per pattern; c33_comp.cpp is the output of the real matchcompiler.py on the same text)",
        "modelled, not verified: lib/token.cpp Token::Match, multiCompareImpl, multiComparePercent, simpleMatch, firstWordEquals, chrInFirstWord, find*matchImpl; tools/matchcompiler.py _compilePattern, _compileCmd, _compileFindPattern, tokTypes; MatchCompiler::makeConstString comparison = string equality",
        "Python str.split/find/slicing of matchcompiler.py are modelled by split/index_of/skipn on byte lists",
    ]
    run.assumptions += ["g++ compiles /repo and the generated units faithfully",
                        "pattern arguments that are not string literals (built at run time) are not compiled by the build and are out of scope",
                        "a call whose argument list spans several source lines is not compiled by matchcompiler.py (line based) and keeps using the interpreter: out of scope",
                        "varid argument is non-zero whenever the pattern contains %varid% (documented precondition; both sides throw otherwise, possibly at different words)"]
    run.extra["rule"] = ("evaluation = one (pattern, start position) pair, all positions 0..L of a token list incl. 'no token'; "
                         "non-trivial = distinct (pattern, token list) where some position matches; real: chunks of token lists of really "
                         "tokenised files (Tokenizer::simplifyTokens1, symbol database); flip: a witness token list built from the pattern "
                         "with one property of one token changed (varid, tokType, str, name/number/op, space in str, drop/append token)")

    import time
    tph = [time.time()]
    phases = {}

    def phase(name):
        phases[name] = round(time.time() - tph[0], 1)
        tph[0] = time.time()
        run.extra["phase_wall_s"] = phases

    vlib.ensure_repo_build()
    phase("repo_build")
    # ---- T
    terr = None
    try:
        gp = os.path.join(vlib.COQ, "theories", "MC", "Gen_Patterns.v")
        gt = os.path.join(vlib.COQ, "theories", "MC", "Gen_TokTypes.v")
        rec, dist = P.translate(vlib.REPO, gp)
        tt = T.translate(vlib.REPO, gt)
    except (P.TranslateError, T.TranslateError, Exception) as e:  # noqa
        terr = "%s: %s" % (type(e).__name__, e)
    if terr:
        run.violation("translate:" + hashlib.sha1(terr.encode()).hexdigest()[:8], "translator failed: " + terr[:300],
                      {"broken": "translator", "detail": terr}, found_input=False)
        return
    enum = tt["enum"]
    E = {n: i for i, n in enumerate(enum)}
    run.extra["source_pattern_uses"] = len(rec)
    run.extra["source_patterns_distinct"] = len(dist)

    phase("translate")
    ok = run.prove(extra_targets=["theories/MC/Run.vo"])
    phase("prove")
    if not ok:
        run.violation("proof:" + PID, "Properties_C33.vo does not build: " + str(run.proof_error())[:300],
                      {"broken": "proof", "detail": run.proof_error()}, found_input=False)
    if not os.path.exists(os.path.join(vlib.COQ, "theories/MC/Run.vo")):
        okr, out, _ = vlib.coq_make(["theories/MC/Run.vo"])
        if not okr:
            return
    model = vlib.build_model(PID)

    # ---- patterns for the harness
    src_keys = list(dist)
    if quick:
        idx = sorted(rng.sample(range(len(src_keys)), 320))
        # always keep the find* patterns and the few with quotes
        idx = sorted(set(idx) | {i for i, k in enumerate(src_keys) if k[0].startswith("find") or "\\" in k[1]})
        # patterns with a name literal whose tokType is not a function of the string (fixed by /repo 29e7f6a:
        # no identifier-like key in tokTypes; these keep the regression visible in the quick tier)
        for hot in ("void", "auto", "true", "false", "restrict"):
            have = [i for i, k in enumerate(src_keys) if hot in [a for w in k[1].split(" ") for a in w.split("|")]]
            idx = sorted(set(idx) | set(have[:6]))
        src_sel = [src_keys[i] for i in idx]
    else:
        src_sel = src_keys
    entries = [(P.KINDS.index(k), v, e, p) for (k, p, v, e) in src_sel]
    meta = [{"src": "source", "where": "%s:%s" % (dist[key][0], dist[key][1])} for key in src_sel]
    seen = set(entries)
    n_wf, n_host, n_simple = (150, 150, 60) if quick else (1500, 1200, 400)
    M = P.load_matchcompiler(vlib.REPO)
    py_crash = []
    gen = [("gen-doc", 0, "a b|"), ("gen-doc", 0, ") const|volatile|"), ("gen-doc", 0, "x !!y %name%|"), ("gen-doc", 0, "int|void|char|")]
    for _ in range(n_wf):
        gen.append(("gen-doc", 0, G.gen_wf_pattern(rng)))
    for _ in range(n_host):
        gen.append(("gen-hostile", 0, G.gen_hostile_pattern(rng)))
    for _ in range(n_simple):
        gen.append(("gen-simple", 1, G.gen_simple_pattern(rng)))
    # every operator key of the compiler's tokTypes table as a one-word simpleMatch pattern
    op_keys = [k for k, _ in tt["tokTypes"] if not (k[0].isalpha() or k[0] == "_")]
    for k in op_keys:
        gen.append(("gen-simple", 1, k))
    for src, kind, p in gen:
        hv = "%varid%" in p
        raw = G.c_escape(p.encode())
        if kind == 0 and rng.random() < 0.1:
            kind = 2
        he = kind == 2 and rng.random() < 0.5
        e = (kind, hv, he, raw)
        if e in seen:
            continue
        seen.add(e)
        if not G.python_compiles(M, kind, hv, he, raw):
            py_crash.append(p)
            continue
        entries.append(e)
        meta.append({"src": src})
    # the compiler's own verdict on the patterns it rejects vs the model's cparse
    if py_crash:
        res = model_lines(model, [vlib.enc_case(["wf", "0", p]) for p in py_crash])
        for p, r in zip(py_crash, res):
            run.count("compiler-rejects", None, nontrivial=p, bucket="model-agrees" if r[2] == "0" else "model-disagrees")
            if r[2] != "0":
                run.violation("cparse:" + p, "matchcompiler.py fails on %r but the model's cparse accepts it" % p,
                              {"broken": "correspondence cparse", "pattern": p}, found_input=False)
    phase("model+patterns")
    srcs = G.build_pattern_tus(entries)
    vh = vlib.build_harness(PID, extra_srcs=srcs)
    phase("harness")

    pats = [P.unescape(e[3]) for e in entries]
    # wf bits from the model
    wfres = model_lines(model, [vlib.enc_case(["wf", str(e[0]), p]) for e, p in zip(entries, pats)])
    for m_, r, e in zip(meta, wfres, entries):
        # generated Match/findmatch patterns: membership in the documented grammar (optional tail allowed)
        m_["wf"] = r[0] == "1" if (m_["src"] == "source" or e[0] in (1, 3)) else r[3] == "1"
    bad_src = [(e, p) for e, p, m_ in zip(entries, pats, meta) if m_["src"] == "source" and not m_["wf"]]
    for e, p in bad_src[:3]:
        run.violation("wf:" + p.decode("latin-1"), "source pattern %r is outside the fragment on which compiled = interpreted is proved" % p,
                      {"pattern": vlib.show(p), "kind": P.KINDS[e[0]]}, found_input=False)

    # ---- stream: update_property_info
    strs = sorted(set([k.encode() for k, _ in tt["tokTypes"]] + [x.encode() for x in G.LITS] +
                      [b'"a b"', b"'c'", b'L"x"', b"u8'c'", b"12", b"1.5", b"0x1f", b"1_km", b"-1", b"+", b"_x", b"$y", b"size_t", b"unsigned",
                       b"bool", b"char", b"wchar_t", b"@", b"#", b"##", b"::", b"->", b".*", b"<<=", b">>=", b"\\", b"a b", b"u8", b'"', b"'"]))
    info = {}
    lines, keys = [], []
    for s in strs:
        for cpp in ("0", "1"):
            lines.append(vlib.enc_case([s, cpp]))
            keys.append((s, cpp))
    rc, out, err = vlib.run_lines([vh, "updinfo"], lines)
    for k, o in zip(keys, out):
        r = vlib.dec_line(o)
        info[k] = (r[0].decode(), r[1].decode())
    ucases = []
    for s in strs:
        for cpp in ("0", "1"):
            for varid in ("0", "5"):
                for link in ("0", "1"):
                    ucases.append([s, varid, link, cpp, info[(s, cpp)][0], info[(s, cpp)][1]])
    diffs = vlib.correspond(run, "update_property_info", model, [vh, "upd"], ucases, tag="upd",
                            nontrivial=lambda c, m, i: (c[0], c[1], c[2], c[3]),
                            bucket=lambda c, m, i: enum[int(i[0])] if i and i[0].isdigit() else "exc")
    for c, m, i in diffs[:3]:
        run.violation("upd:" + vlib.enc_case(c), "update_property_info model differs on %r: model %s impl %s" % (c[0], vlib.show(m), vlib.show(i)),
                      {"broken": "correspondence update_property_info", "case": vlib.show(c), "model": vlib.show(m), "impl": vlib.show(i)}, found_input=False)
    deftype = {}
    # the property itself on the implementation: the type update_property_info gives an operator
    # must be one the compiler tabulates, else the compiled literal cannot match that token
    table = {k.encode(): [E[t] for t in v] for k, v in tt["tokTypes"]}
    for k in op_keys:
        kb = k.encode()
        for cpp in ("0", "1"):
            r = vlib.dec_line(vlib.run_lines([vh, "upd"], [vlib.enc_case([kb, "0", "0", cpp])])[1][0])
            if not r or not r[0].isdigit():
                continue
            ty = int(r[0])
            run.count("update_property_info", None, bucket="table-key-" + ("ok" if ty in table[kb] else "NOT-tabulated"))
            if ty not in table[kb]:
                sc = vlib.dec_line(vlib.run_lines([vh, "scan"], [vlib.enc_case(["1", "", "", kb, kb, "0", str(ty)])])[1][0])
                run.violation("tabletype:" + k, "token %r gets tokType %s from update_property_info, the compiler's tokTypes table demands %s: simpleMatch(tok, %r) interpreted/compiled = %s"
                              % (kb, enum[ty], [enum[t] for t in table[kb]], k, vlib.show(sc)),
                              {"pattern": k, "token": [k, 0, enum[ty]], "table": [enum[t] for t in table[kb]], "interpreted_compiled": vlib.show(sc),
                               "how": "echo '%s' | build/harness/vh_c33 scan" % vlib.enc_case(["1", "", "", kb, kb, "0", str(ty)])})
                break

    def default_type(s):
        if s not in deftype:
            r = vlib.dec_line(vlib.run_lines([vh, "upd"], [vlib.enc_case([s, "0", "0", "0"])])[1][0])
            deftype[s] = int(r[0]) if r and r[0].isdigit() else E["eOther"]
        return deftype[s]

    phase("upd")
    # ---- real token lists
    files = G.default_files(vlib.REPO, quick)
    real, rej, died = G.real_token_lists(vh, files)
    run.extra["real_files"] = {"given": len(files), "tokenised": len(real), "rejected": rej, "tokens": sum(len(t) for _, _, t in real)}
    if len(real) < 5:
        run.violation("tokens:none", "real tokenisation produced only %d token lists" % len(real), {"broken": "token source"}, found_input=False)
        return
    # token invariants on real tokens
    inv_viol = collections.Counter()
    inv_where = {}
    ntoks = 0
    for f, std, toks in real:
        res = model_lines(model, [vlib.enc_case(["tkinv"] + tokfields([(s, v, ty) for s, v, ty, fl in toks]))])[0] + ["", "", ""]
        for i, (s, v, ty, fl) in enumerate(toks):
            ntoks += 1
            okinv = res[0][i] == "1"
            run.count("token-invariant", None, nontrivial=(s, v != 0, ty), bucket="tk_inv" if okinv else "not-tk_inv:%s/%s" % (s.decode("latin-1"), enum[ty]))
            if not okinv:
                inv_viol[(s, ty)] += 1
                inv_where.setdefault((s, ty), (f, std, i))
            if res[1][i] != "1":
                run.count("token-invariant", None, bucket="space-before-quote")
                run.violation("tokspace:" + s.hex(), "real token %r has a space that is not inside a quoted literal" % s,
                              {"broken": "token assumption space_after_quote", "file": f, "token": vlib.show(s)}, found_input=False)
            if (res[2][i] == "1") != ("n" in fl):
                run.violation("isname:" + s.hex(), "isName() of real token %r is not the function of tokType the model uses" % s,
                              {"broken": "isName model", "file": f, "token": vlib.show(s), "tokType": enum[ty]}, found_input=False)
    run.extra["real_tokens_not_tk_inv"] = {"%s/%s" % (s.decode("latin-1"), enum[ty]): n for (s, ty), n in inv_viol.items()}

    phase("tokens")
    tie = Tie(run, model, vh, enum)
    chunk = 120
    chunks = []
    for f, std, toks in real:
        tl = [(s, v, ty) for s, v, ty, fl in toks]
        for a in range(0, len(tl), chunk - 8):
            chunks.append((f, std, a, tl[a:a + chunk]))
    # every chunk gets some patterns; every pattern gets some chunks
    per_pat = 6 if quick else 40
    interesting = [c for c in chunks if any((s, ty) in inv_viol for s, v, ty in c[3])]
    for (e, p, m_) in zip(entries, pats, meta):
        cs = rng.sample(chunks, min(per_pat, len(chunks)))
        # chunks that contain a literal of the pattern are more useful
        lits = set(x for w in p.split(b" ") for x in w.replace(b"!!", b"").split(b"|") if x and not x.startswith(b"%"))
        hit = [c for c in chunks if any(s in lits for s, v, ty in c[3])]
        cs += rng.sample(hit, min(per_pat, len(hit)))
        hit2 = [c for c in interesting if any(s in lits and (s, ty) in inv_viol for s, v, ty in c[3])]
        cs += rng.sample(hit2, min(3, len(hit2)))
        for (f, std, a, tl) in cs:
            kind = e[0]
            varid = None
            if e[1]:
                vs = [v for s, v, ty in tl if v]
                varid = rng.choice(vs) if vs else 3
            endi = rng.randrange(0, len(tl) + 2) if e[2] else None
            tie.add("real", dict(m_, file=f, std=std, offset=a), kind, varid, endi, p, tl)
        if len(tie.cases) > 3000:
            tie.flush()
    tie.flush()

    phase("real")
    # ---- flips
    all_lits = [x.encode() for x in G.LITS]
    nfl = 1 if quick else 4
    for (e, p, m_) in zip(entries, pats, meta):
        for _ in range(nfl):
            w = witness(p, enum, default_type, rng)
            for name, tl in flips(w, enum, rng, all_lits):
                varid = 5 if e[1] else None
                endi = rng.randrange(0, len(tl) + 2) if e[2] else None
                tie.add("flip", dict(m_, flip=name), e[0], varid, endi, p, tl)
        if len(tie.cases) > 20000:
            tie.flush()
    tie.flush()

    phase("flip")
    # ---- verdicts
    for stream, meta_, f, mres, ires in tie.model_bad[:3]:
        key = "model:" + hashlib.sha1(vlib.enc_case(f).encode()).hexdigest()[:12]
        run.violation(key, "model and implementation disagree on pattern %r (%s): model (interp,compiled)=%s impl=%s" % (f[3], meta_.get("src"), mres, ires),
                      {"broken": "correspondence", "stream": stream, "kind": P.KINDS[int(f[0])], "pattern": vlib.show(f[3]), "varid": f[1], "end": f[2],
                       "tokens": vlib.show([x if isinstance(x, bytes) else x.encode() for x in f[4:]]), "model": mres, "impl": ires,
                       "case_line": vlib.enc_case(f)}, found_input=False)
    for stream, meta_, f, mw, mi in tie.word_bad[:3]:
        toks = f[4:]
        # expected only when a token has a space outside a quoted literal (flip 'space')
        if meta_.get("flip") == "space":
            continue
        key = "word:" + hashlib.sha1(vlib.enc_case(f).encode()).hexdigest()[:12]
        run.violation(key, "word-level interp and character-level interp of the model disagree on %r" % (f[3],),
                      {"broken": "model-internal (theorem interp_chars_eq_interp would be false)", "pattern": vlib.show(f[3]),
                       "tokens": vlib.show([x if isinstance(x, bytes) else x.encode() for x in toks]), "word": mw, "chars": mi}, found_input=False)
    run.extra["word_level_vs_char_level_disagreements_on_space_flips"] = sum(1 for w in tie.word_bad if w[1].get("flip") == "space")

    # compiled != interpreted
    cls = collections.Counter()
    reported = set()
    prepared = []
    for stream, meta_, f, ii, ic in tie.diffs:
        kind = int(f[0])
        toks = [(f[i], int(f[i + 1]), int(f[i + 2])) for i in range(4, len(f) - 2, 3)]
        pos = next(i for i in range(len(ii)) if ii[i] != ic[i]) if kind < 2 and len(ii) == len(ic) else 0
        nwords = len([w for w in f[3].split(b" ") if w])
        window = toks[pos:pos + nwords] if kind < 2 else toks
        prepared.append((stream, meta_, f, ii, ic, kind, pos, nwords, window))
    inv_res = model_lines(tie.model, [vlib.enc_case(["tkinv"] + tokfields(w[8])) for w in prepared]) if prepared else []
    for (stream, meta_, f, ii, ic, kind, pos, nwords, window), res in zip(prepared, inv_res):
        src = meta_.get("src")
        if src != "source" and not meta_.get("wf"):
            cls["outside-grammar(" + stream + ")"] += 1
            continue
        res = res + ["", ""]
        badtok = [window[i] for i in range(len(window)) if i < len(res[0]) and res[0][i] != "1"]
        if stream == "flip" and meta_.get("flip") == "space":
            cls["flip:space-in-token(not tok_compat)"] += 1
            continue
        if stream == "flip":
            opt_tail = has_opt_tail(f[3])
            cls["flip:" + ("token-not-tk_inv" if badtok else "opt-tail" if opt_tail else "other")] += 1
            if not badtok and not opt_tail and cls["reported-flipdiff"] < 3:
                cls["reported-flipdiff"] += 1
                key = "flipdiff:" + hashlib.sha1(vlib.enc_case(f).encode()).hexdigest()[:12]
                run.violation(key, "compiled != interpreted on %r with tokens satisfying tk_inv" % (f[3],),
                              {"pattern": vlib.show(f[3]), "tokens": vlib.show(window), "interpreted": ii, "compiled": ic, "case_line": vlib.enc_case(f)})
            elif not badtok:
                report_opt_tail(run, reported, f, window, ii, ic, pos, meta_)
            continue
        # real token list: this is the property itself failing
        if badtok:
            s, v, ty = badtok[0]
            key = "toktype:%s:%s" % (s.decode("latin-1"), enum[ty])
            cls["real:" + key] += 1
            if key not in reported:
                reported.add(key)
                run.violation(key, "compiled != interpreted: pattern %r (%s, %s) on real tokens of %s: token %r has tokType %s, the compiled matcher requires one of the tabulated types"
                              % (f[3], P.KINDS[kind], meta_.get("where", src), os.path.basename(meta_.get("file", "?")), s, enum[ty]),
                              {"pattern": vlib.show(f[3]), "kind": P.KINDS[kind], "where": meta_.get("where"), "file": meta_.get("file"), "std": meta_.get("std"),
                               "token_offset": meta_.get("offset", 0) + pos, "window": [[vlib.show(a), b, enum[c]] for a, b, c in window],
                               "interpreted": ii[pos] if kind < 2 else ii, "compiled": ic[pos] if kind < 2 else ic,
                               "how": "echo <case_line> | build/harness/vh_c33 scan   -> first field interpreter, second field compiled", "case_line": vlib.enc_case(f)})
        elif has_opt_tail(f[3]):
            cls["real:opt-tail"] += 1
            report_opt_tail(run, reported, f, window, ii, ic, pos, meta_)
        else:
            cls["real:unexplained"] += 1
            if cls["real:unexplained"] > 3:
                continue
            key = "diff:" + hashlib.sha1(vlib.enc_case(f).encode()).hexdigest()[:12]
            run.violation(key, "compiled != interpreted on %r over real tokens satisfying tk_inv" % (f[3],),
                          {"pattern": vlib.show(f[3]), "tokens": vlib.show(window), "interpreted": ii, "compiled": ic, "case_line": vlib.enc_case(f)})
    run.extra["compiled_vs_interpreted_differences"] = dict(cls)
    phase("verdicts")


def has_opt_tail(pat):
    ws = [w for w in pat.split(b" ") if w]
    while ws and ws[-1].startswith(b"!!"):
        ws.pop()
    return bool(ws) and b"" in ws[-1].split(b"|")


def report_opt_tail(run, reported, f, window, ii, ic, pos, meta_):
    key = "opt-tail"
    if key in reported:
        return
    reported.add(key)
    run.violation(key, "compiled != interpreted when the tokens end before an optional word (regression of /repo 5f182d0?): pattern %r, %d token(s) left: interpreter %s, compiled %s (documentation: 'or no token')"
                  % (f[3], len(window), ii[pos] if pos < len(ii) else ii, ic[pos] if pos < len(ic) else ic),
                  {"pattern": vlib.show(f[3]), "src": meta_.get("src"), "tokens": vlib.show(window), "interpreted": ii, "compiled": ic, "position": pos,
                   "how": "echo <case_line> | build/harness/vh_c33 scan", "case_line": vlib.enc_case(f)})


if __name__ == "__main__":
    vlib.main(check, PID)
