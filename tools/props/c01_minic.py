"""C01 stream 3: MiniC programs (variables, assignments, branches, counted loops, early return).
Every Known / Impossible integer fact the real binary dumps on the root token of an observation
point `sink(e)` is checked against all complete UB-free executions of the extracted Coq interpreter
(VF/MiniC.v `exec`) over a grid of inputs."""
import itertools
import os
import sys

sys.path.insert(0, os.path.dirname(os.path.dirname(os.path.abspath(__file__))))
import vlib
import dumpparse
from props.c01 import Node, tname, PLATFORMS, plat_fields, trange

# Fragment generated at random (FULL=False): signed int/long locals, read-only parameters of int and narrower
# types, no '~'. The wider fragment (unsigned and narrow locals, '~') reaches value-flow defects that are
# recorded as known findings and replayed from tools/props/c01_corpus.json on every run.
VT = [("i", "s"), ("i", "s"), ("l", "s")]
PT = [("c", "u"), ("i", "s"), ("c", "s"), ("h", "s"), ("i", "s")]
VT_FULL = [("i", "s"), ("i", "s"), ("i", "u"), ("c", "u"), ("c", "s"), ("h", "s"), ("l", "s"), ("h", "u")]
PT_FULL = [("c", "u"), ("i", "s"), ("i", "u"), ("c", "s")]
CMP = ["<", ">", "<=", ">=", "==", "!="]
ARI = ["+", "-", "*", "/", "%", "&", "|", "^"]
SMALL = [0, 1, 2, 3, 4, 5, 7, 8, 10, 15, 16, 100, 127, 128, 255]


class Var(Node):
    def __init__(self, idx):
        Node.__init__(self, "V", idx=idx)

    def fields(self):
        return ["V", str(self.idx)]

    def children(self):
        return []

    def render(self, out):
        self.col = sum(len(x) for x in out)
        out.append("v%d" % self.idx)


def lit(v, t=("i", "s")):
    if v < 0:
        return Node("U", op="-", e=Node("L", t=t, v=-v))
    return Node("L", t=t, v=v)


class Prog:
    def __init__(self, rng, plat, full=False, safe=True):
        self.rng, self.plat, self.full, self.safe = rng, plat, full, safe and not full
        self.nparam = rng.randint(1, 2)
        self.types = [rng.choice(PT_FULL if full else PT) for _ in range(self.nparam)]
        nloc = rng.randint(1, 3)
        self.inits = []
        for _ in range(nloc):
            self.types.append(rng.choice(VT_FULL if full else VT))
            self.inits.append(rng.choice(SMALL[:9]))
        self.nsite = 0
        self.body = self.block(rng.randint(3, 7), 2)

    def var(self):
        return Var(self.rng.randrange(len(self.types)))

    def atom(self):
        if self.safe:
            return lit(self.rng.choice(SMALL))
        return self.var() if self.rng.random() < 0.65 else lit(self.rng.choice(SMALL))

    def expr(self):
        r = self.rng.random()
        if r < 0.3:
            return self.atom()
        if self.safe and r < 0.45:
            return self.var() if r < 0.38 else lit(self.rng.choice(SMALL))
        if r < 0.75:
            return Node("B", op=self.rng.choice(["+", "-", "*"] if self.safe else ARI), a=self.var(), b=self.atom())
        if r < 0.9 or self.safe:
            return Node("B", op=self.rng.choice(CMP), a=self.var(), b=self.atom())
        return Node("U", op=self.rng.choice(["-", "!", "~"] if self.full else ["-", "!"]), e=self.var())

    def cond(self):
        r = self.rng.random()
        if r < 0.75:
            return Node("B", op=self.rng.choice(CMP), a=self.var(), b=self.atom())
        if r < 0.85:
            return self.var()
        if r < 0.93:
            return Node("U", op="!", e=self.var())
        return Node("B", op=self.rng.choice(["&&", "||"]),
                    a=Node("B", op=self.rng.choice(CMP), a=self.var(), b=self.atom()),
                    b=Node("B", op=self.rng.choice(CMP), a=self.var(), b=self.atom()))

    def obs(self):
        self.nsite += 1
        return ("O", self.nsite, self.expr() if self.rng.random() < 0.5 else self.var())

    def block(self, n, depth):
        out = []
        for _ in range(n):
            r = self.rng.random()
            if r < 0.35:
                out.append(("A", self.rng.randrange(self.nparam, len(self.types)) if (not self.full or self.rng.random() < 0.85)
                            else self.rng.randrange(len(self.types)), self.expr()))
            elif r < 0.60:
                out.append(self.obs())
            elif r < 0.85 and depth > 0:
                out.append(("I", self.cond(), self.block(self.rng.randint(1, 3), depth - 1),
                            self.block(self.rng.randint(0, 2), depth - 1) if self.rng.random() < 0.5 else []))
            elif r < 0.93 and depth > 0:
                # counted loop on a local:  while (x < K) { ...; x = x + 1; }
                x = self.rng.randrange(self.nparam, len(self.types))
                k = self.rng.choice([1, 2, 3, 4, 5])
                body = [s for s in self.block(self.rng.randint(0, 2), 0) if not (s[0] == "A" and s[1] == x)]
                body.append(("A", x, Node("B", op="+", a=Var(x), b=lit(1))))
                out.append(("A", x, lit(self.rng.choice([0, 1, 2]))))
                out.append(("W", Node("B", op="<", a=Var(x), b=lit(k)), body))
                out.append(self.obs())
            elif depth < 2 and not (self.safe and depth < 1):
                # (safe fragment: no return inside a nested if — cppcheck's known nested-if-return defect)
                out.append(("R",))
                break
            else:
                out.append(self.obs())
        return out

    # ---- encodings
    def fields_stmts(self, ss):
        f = []
        for s in ss:
            if s[0] == "A":
                f += ["A", str(s[1])] + s[2].fields()
            elif s[0] == "O":
                f += ["O", str(s[1])] + s[2].fields()
            elif s[0] == "R":
                f += ["R"]
            elif s[0] == "I":
                f += ["I"] + s[1].fields() + [str(len(s[2]))] + self.fields_stmts(s[2]) + [str(len(s[3]))] + self.fields_stmts(s[3])
            else:
                f += ["W"] + s[1].fields() + [str(len(s[2]))] + self.fields_stmts(s[2])
        return f

    def all_stmts(self):
        init = [("A", self.nparam + i, lit(v)) for i, v in enumerate(self.inits)]
        return init + self.body

    def case(self, inputs):
        vs = []
        for i, t in enumerate(self.types):
            vs += [t[0], t[1], str(inputs[i]) if i < self.nparam else ""]
        ss = self.all_stmts()
        return ["exec"] + plat_fields(self.plat) + [str(len(self.types))] + vs + ["4000", str(len(ss))] + self.fields_stmts(ss)

    def render(self, name):
        """C text; returns (lines, {site: (line_offset, node)})"""
        lines = ["void %s(%s) {" % (name, ", ".join("%s v%d" % (tname(self.types[i]), i) for i in range(self.nparam)))]
        for i, v in enumerate(self.inits):
            k = self.nparam + i
            lines.append("  %s v%d = %d;" % (tname(self.types[k]), k, v))
        sites = {}

        def emit(ss, ind):
            for s in ss:
                pad = "  " * ind
                if s[0] == "A":
                    o = [pad + "v%d = " % s[1]]
                    s[2].render(o)
                    lines.append("".join(o) + ";")
                elif s[0] == "O":
                    o = [pad + "sink("]
                    s[2].render(o)
                    lines.append("".join(o) + ");")
                    sites[s[1]] = (len(lines) - 1, s[2])
                elif s[0] == "R":
                    lines.append(pad + "return;")
                elif s[0] == "I":
                    o = [pad + "if ("]
                    s[1].render(o)
                    lines.append("".join(o) + ") {")
                    emit(s[2], ind + 1)
                    if s[3]:
                        lines.append(pad + "} else {")
                        emit(s[3], ind + 1)
                    lines.append(pad + "}")
                else:
                    o = [pad + "while ("]
                    s[1].render(o)
                    lines.append("".join(o) + ") {")
                    emit(s[2], ind + 1)
                    lines.append(pad + "}")
        emit(self.body, 1)
        lines.append("}")
        return lines, sites

    def input_grid(self):
        grids = []
        for t in self.types[:self.nparam]:
            lo, hi = trange(self.plat, t)
            if hi - lo <= 255:
                grids.append(list(range(lo, hi + 1)) if self.nparam == 1 else sorted(set(
                    [lo, lo + 1, -1, 0, 1, 2, 3, 4, 5, 6, 7, 8, 9, 10, 11, 15, 16, 17, 99, 100, 101, 126, 127, hi - 1, hi]) & set(range(lo, hi + 1))))
            else:
                c = [lo, lo + 1, -256, -129, -128, -127, -2, -1, 0, 1, 2, 3, 4, 5, 6, 7, 8, 9, 10, 11, 14, 15, 16, 17, 99, 100, 101,
                     126, 127, 128, 129, 254, 255, 256, 257, 65535, 65536, hi - 1, hi]
                grids.append(sorted(set(x for x in c if lo <= x <= hi)))
        return list(itertools.product(*grids))


def sat(fact, z):
    v = int(fact["intvalue"])
    if fact.get("known") == "true":
        return z == v
    if fact.get("impossible") == "true":
        b = fact.get("bound", "Point")
        if b == "Point":
            return z != v
        if b == "Upper":      # everything <= v is impossible
            return z > v
        if b == "Lower":      # everything >= v is impossible
            return z < v
    return True


def run_minic_stream(run, model, plat, nprog, workdir, full=False, safe=True, rng=None):
    rng = rng or run.rng
    progs = [Prog(rng, plat, full, safe) for _ in range(nprog)]
    src = ["void sink(long long);"]
    site_pos = []
    for k, p in enumerate(progs):
        lines, sites = p.render("f%d" % k)
        base = len(src)
        src += lines
        site_pos.append({s: (base + off + 1, node) for s, (off, node) in sites.items()})
    path = os.path.join(workdir, "c01_minic_%s.c" % plat)
    open(path, "w").write("\n".join(src) + "\n")
    rc, o, _ = vlib.sh([vlib.CPPCHECK, "--dump", "--quiet", "--platform=" + plat, path], timeout=900)
    if not os.path.exists(path + ".dump"):
        raise vlib.BuildError("cppcheck --dump produced no dump: " + o[-500:])
    cfg = dumpparse.parse_dump(path + ".dump")[0]
    at = {(t.line, t.col): t for t in cfg["tokens"]}
    stream = "minic:" + plat
    bad = []
    for k, p in enumerate(progs):
        facts = {}
        for s, (line, node) in site_pos[k].items():
            tok = at.get((line, node.col + 1))
            fs = [v for v in (tok.values if tok else []) if "intvalue" in v and (v.get("known") == "true" or v.get("impossible") == "true")
                  and "symbolic" not in v and "tokvalue" not in v and v.get("indirect", "0") == "0"]
            if fs:
                facts[s] = (fs, tok)
        if not facts:
            run.count(stream, None, nontrivial=None, bucket="nofacts")
            continue
        grid = p.input_grid()
        lines = [vlib.enc_case(p.case(inp)) for inp in grid]
        rcm, out, err = vlib.run_lines([model], lines)
        if rcm != 0 or len(out) != len(lines):
            raise vlib.BuildError("MiniC interpreter failed: " + err[-300:])
        complete = 0
        viol = None
        for inp, o_ in zip(grid, out):
            r = vlib.dec_line(o_)
            oc = r[0].decode() if r else "B"
            if oc not in ("N", "R"):
                continue
            complete += 1
            tr = [(int(r[i]), int(r[i + 1])) for i in range(1, len(r) - 1, 2)]
            for site, val in tr:
                if site in facts and viol is None:
                    for f in facts[site][0]:
                        if not sat(f, val):
                            viol = (site, f, val, inp)
                            break
        nfacts = sum(len(v[0]) for v in facts.values())
        run.count(stream, None, nontrivial=(plat, k, tuple(src[site_pos[k][min(site_pos[k])][0] - 1:][:1])) if complete else None,
                  bucket="facts%d,%s" % (min(nfacts, 9), "viol" if viol else ("checked" if complete else "noexec")))
        if viol:
            lines_p, _ = p.render("f")
            bad.append((p, viol, lines_p, facts[viol[0]][1]))
        if len(run.samples) < 11 and complete:
            lines_p, _ = p.render("f")
            run.samples.append({"stream": stream, "program": lines_p, "facts_checked": nfacts, "executions": complete})
    return bad


# ----------------------------------------------------------------------------- shrinking and shape keys
def check_prog(p, model, workdir, tag="shr"):
    """dump one program with the real binary and replay it on the interpreter; returns a violation or None"""
    lines, sites = p.render("f")
    src = ["void sink(long long);"] + lines
    path = os.path.join(workdir, "c01_%s.c" % tag)
    open(path, "w").write("\n".join(src) + "\n")
    try:
        os.remove(path + ".dump")
    except OSError:
        pass
    vlib.sh([vlib.CPPCHECK, "--dump", "--quiet", "--platform=" + p.plat, path], timeout=120)
    if not os.path.exists(path + ".dump"):
        return None
    cfgs = dumpparse.parse_dump(path + ".dump")
    if not cfgs:
        return None
    at = {(t.line, t.col): t for t in cfgs[0]["tokens"]}
    facts = {}
    for s, (off, node) in sites.items():
        tok = at.get((off + 2, node.col + 1))
        fs = [v for v in (tok.values if tok else []) if "intvalue" in v and (v.get("known") == "true" or v.get("impossible") == "true")
              and "symbolic" not in v and "tokvalue" not in v and v.get("indirect", "0") == "0"]
        if fs:
            facts[s] = (fs, tok)
    if not facts:
        return None
    grid = p.input_grid()
    rcm, out, err = vlib.run_lines([model], [vlib.enc_case(p.case(inp)) for inp in grid])
    if rcm != 0 or len(out) != len(grid):
        return None
    for inp, o_ in zip(grid, out):
        r = vlib.dec_line(o_)
        if not r or r[0] not in (b"N", b"R"):
            continue
        for i in range(1, len(r) - 1, 2):
            site, val = int(r[i]), int(r[i + 1])
            if site in facts:
                for f in facts[site][0]:
                    if not sat(f, val):
                        return (site, f, val, inp, facts[site][1])
    return None


def _variants(ss):
    """smaller statement lists: drop one statement, or replace a compound statement by one of its bodies"""
    for i, s in enumerate(ss):
        yield ss[:i] + ss[i + 1:]
        if s[0] == "I":
            yield ss[:i] + list(s[2]) + ss[i + 1:]
            yield ss[:i] + list(s[3]) + ss[i + 1:]
            for b in _variants(s[2]):
                yield ss[:i] + [("I", s[1], b, s[3])] + ss[i + 1:]
            for b in _variants(s[3]):
                yield ss[:i] + [("I", s[1], s[2], b)] + ss[i + 1:]
        elif s[0] == "W":
            for b in _variants(s[2]):
                if b and b[-1] == s[2][-1]:
                    yield ss[:i] + [("W", s[1], b)] + ss[i + 1:]


def shrink(p, model, workdir, budget=120):
    import copy
    best = p
    v = check_prog(p, model, workdir)
    if v is None:
        return p, None
    improved = True
    while improved and budget > 0:
        improved = False
        for cand in _variants(best.body):
            budget -= 1
            if budget <= 0:
                break
            q = copy.copy(best)
            q.body = cand
            v2 = check_prog(q, model, workdir)
            if v2 is not None:
                best, v, improved = q, v2, True
                break
    return best, v


def shape_of(p, v):
    """skeleton of a (shrunk) failing program: variables renumbered by first use, constants abstracted,
    types kept; plus the kind of the violated fact"""
    ren = {}

    def var(i):
        if i not in ren:
            ren[i] = len(ren)
        return "x%d:%s%s" % (ren[i], p.types[i][0], p.types[i][1])

    def ex(n):
        if n.kind == "V":
            return var(n.idx)
        if n.kind == "L":
            return "0" if n.v == 0 else "K"
        if n.kind == "U":
            return "(%s%s)" % (n.op, ex(n.e))
        if n.kind == "B":
            return "(%s%s%s)" % (ex(n.a), n.op, ex(n.b))
        if n.kind == "C":
            return "((%s%s)%s)" % (n.t[0], n.t[1], ex(n.e))
        return "(%s?%s:%s)" % (ex(n.c), ex(n.a), ex(n.b))

    def st(ss):
        o = []
        for s in ss:
            if s[0] == "A":
                o.append("%s=%s" % (var(s[1]), ex(s[2])))
            elif s[0] == "O":
                o.append("obs%s" % ex(s[2]))
            elif s[0] == "R":
                o.append("ret")
            elif s[0] == "I":
                o.append("if%s{%s}{%s}" % (ex(s[1]), st(s[2]), st(s[3])))
            else:
                o.append("while%s{%s}" % (ex(s[1]), st(s[2])))
        return ";".join(o)
    f = v[1]
    kind = "known" if f.get("known") == "true" else "imp" + f.get("bound", "Point")
    return kind + "|" + st(p.body)
