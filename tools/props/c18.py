#!/usr/bin/env python3
"""C18  Incremental analysis is transparent across edit histories.

prove:      coq/theories/Properties_C18.v (transparency of a shared build dir over every history of
            edits and runs under a faithful, collision-free key; status of the key the current
            source composes: locations, source path, header paths; files.txt lookup clash)
translate:  tools/translate/keyfields.py -> Cache/Gen_KeyFields.v (key fields, location encoding)
correspond: extracted model vs harness/vh_c18.cpp: files.txt text, cache-file lookup, hash data
            (std::hash of the model's bytes == Preprocessor::calculateHash); and on every run of
            every history on the real binary: files.txt, the hash attribute written, hit/miss
search:     the property itself on the real binary: directed + seeded edit histories with a shared
            build dir (-j1/-j2) against runs without it; a stale result is attributed to the part
            of the unit state the key does not see
"""
import os
import sys

sys.path.insert(0, os.path.dirname(os.path.dirname(os.path.abspath(__file__))))
import vlib
from props import cache_common as C
from props import cache_hist as HI
from translate import keyfields

PID = "C18"


def S(name, **kw):
    d = {"name": name, "pre": 0, "indent": 0, "idx": 2, "div": "0", "hdr": False, "extra": False, "comment_end": 0, "odr": 0}
    d.update(kw)
    return d


def directed(quick=False):
    """(tag, options, steps, expected stale?)"""
    a = ("edit", ("add", "a.c", S("fa", hdr=True)))
    b = ("edit", ("add", "b.c", S("fb")))
    r1, r2 = ("run", 1), ("run", 2)
    out = []
    for n in ((1, 256, 257, 65536) if quick else (1, 255, 256, 257, 512, 65536)):
        out.append(("lineshift%d" % n, [], [a, b, r1, ("edit", ("lineshift", "a.c", n)), r1, r2]))
        out.append(("hdrlineshift%d" % n, [], [a, r1, ("edit", ("hdr_lineshift", n)), r1]))
    for n in ((1, 256, 257) if quick else (1, 255, 256, 257)):
        out.append(("colshift%d" % n, [], [a, r1, ("edit", ("colshift", "a.c", n)), r2]))
    out.append(("comment", [], [a, r1, ("edit", ("comment", "a.c", "end")), r1, ("edit", ("comment", "a.c", "in")), r1,
                                ("edit", ("comment", "a.c", "top")), r1, ("edit", ("hdr_comment",)), r2]))
    out.append(("token", ["--enable=unusedFunction"], [a, b, r1, ("edit", ("tok", "a.c", "idx")), r1, ("edit", ("tok", "b.c", "div")), r2,
                                                         ("edit", ("hdr_tok",)), r1, ("edit", ("tok", "a.c", "extra")), r1]))
    out.append(("touch", [], [a, r1, ("edit", ("touch", "a.c")), r1]))
    out.append(("addremove", ["--enable=unusedFunction"], [a, r1, b, r1, ("edit", ("remove", "a.c")), r2, a, r1]))
    out.append(("rename", [], [a, r1, ("edit", ("rename", "a.c", "sub/a.c")), r1]))
    out.append(("hdrmove", [], [a, r1, ("edit", ("hdr_move",)), r1]))
    il = HI.INLINE_OPTS
    am = ("edit", ("add", "a.c", S("fa", supp="arrayIndexOutOfBound")))
    out.append(("inlinesupp-fix-id", il, [am, r1, ("edit", ("supp", "a.c", "arrayIndexOutOfBounds")), r1, r2]))
    out.append(("inlinesupp-remove", il, [am, b, r1, ("edit", ("supp", "a.c", None)), r1]))
    out.append(("inlinesupp-break", il, [("edit", ("add", "a.c", S("fa", supp="arrayIndexOutOfBounds"))), r1, r1,
                                         ("edit", ("supp", "a.c", "zerodiv")), r1, ("edit", ("supp", "a.c", "arrayIndexOutOfBound")), r2,
                                         ("edit", ("supp", "a.c", "arrayIndexOutOfBounds")), r1]))
    out.append(("inlinesupp-add", il, [("edit", ("add", "a.c", S("fa", hdr=True))), r1, ("edit", ("supp", "a.c", "arrayIndexOutOfBounds")), r1,
                                       ("edit", ("tok", "a.c", "idx")), r1]))
    out.append(("inlinesupp-move-comment", il, [("edit", ("add", "a.c", S("fa", idx=1, supp="zerodiv"))), r1, ("edit", ("comment", "a.c", "in")), r1]))
    out.append(("staticfn", ["--enable=style,unusedFunction"], [("edit", ("add", "m.c", S("fm", sc=True))), r1, r1]))
    out.append(("suffixclash", ["--enable=unusedFunction"], [("edit", ("add", "io.c", S("fio"))), ("edit", ("add", "stdio.c", S("fstdio"))), r1, r1]))
    return out


def check(run, replay):
    quick = run.tier == "quick"
    rng = run.rng
    run.trusted_base += [
        "Coq 8.16.1 kernel (coqc); vm_compute only in C18_files_txt_suffix_clash_refuted and the Examples",
        "extraction: Require Extraction + ExtrOcamlBasic only; ocaml/driver.ml",
        "harness/vh_common.h + vh_c18.cpp (std::hash<std::string>, Preprocessor::calculateHash on a file on disk with the token streams it hashed, AnalyzerInformation::getFilesTxt/writeFilesTxt/getAnalyzerInfoFile)",
        "tools/translate/keyfields.py: recognises the statements of CppCheck::calculateHash and the two token loops of Preprocessor::calculateHash; anything else is an error",
        "Section variables of the theorem (not verified, no law assumed beyond their types): view = simplecpp lexing + include resolution, analyze = all checkers on one unit as a function of (options, path, tokens with full locations, headers with paths), wp = whole-program analysis as a function of the summaries, H = std::hash",
        "premises of the transparency theorem: faithful_key, collision-freedom of H on the key data that occur, lookup_okb for every run's file list",
        "modelled, not verified: analyzerinfo.cpp getFilename/getFilesTxt/getAnalyzerInfoFileFromFilesTxt/getAnalyzerInfoFile/analyzeFile/skipAnalysis/processFilesTxt, cppcheck.cpp cache-hit path of checkInternal, cppcheckexecutor.cpp order (files.txt, files, whole program); plain source files only (no --project cfg/fsFileId), paths without ':' and already simplified",
        "not modelled: messages emitted before the cache lookup (preprocessor errors, missing includes) - they are produced identically with and without a build dir; the in-memory whole-program pass of -j1; unmatchedSuppression reopen (C20/C24); checkers.txt; mtime (the code never reads it)",
    ]
    run.assumptions += ["g++ compiles /repo faithfully", "a run of the binary without --cppcheck-build-dir and -j1 is the reference ('fresh')"]
    run.extra["rule"] = ("histories: 1-3 generated C files (+ one header found through -I), steps drawn from token edits, line shifts "
                         "{1,2,255,256,257,512,65536}, column shifts {1,255,256,257,512}, comment-only edits, the same on the header, header move "
                         "between include dirs, add/remove/rename, touch, runs with -j1/-j2; non-trivial = distinct (history, step, file) whose "
                         "cache decision was observed; files.txt/lookup: path lists over a small alphabet with shared suffixes; non-trivial = distinct list")

    vlib.ensure_repo_build()
    model_ok = True
    try:
        kf, le = keyfields.generate(vlib.REPO, os.path.join(vlib.COQ, "theories", "Cache", "Gen_KeyFields.v"))
        run.extra["key_fields"] = kf
        run.extra["loc_enc"] = le
    except keyfields.TranslateError as e:
        run.violation("translate:keyfields", "translator cannot read the key composition: %s" % e,
                      {"broken": "translator", "detail": str(e)}, found_input=False)
        model_ok = False
    if model_ok:
        ok = run.prove(extra_targets=["theories/Cache/Run.vo"])
        if not ok:
            run.violation("proof:" + PID, "Properties_C18.vo does not build: " + str(run.proof_error())[:300],
                          {"broken": "proof", "detail": run.proof_error()}, found_input=False)
            model_ok = False
    if not model_ok:
        # search step without the model: the property itself (run with the build dir == run without it)
        # on the same directed + seeded histories; the Gen_*.v / .vo of this run are not the code
        run.notes.append("model tie off: histories replayed as plain cached-vs-fresh comparisons")
        run.extra["model_tie"] = "off"
        if not run.obligations:
            run.obligations = vlib.theorems_of(os.path.join(vlib.COQ, "theories", "Properties_%s.v" % PID))
            run.checker_cmd = "not run: the translator failed, the regenerated part of the model is not the code"
        histories(run, None, None, quick, rng)
        return
    if not os.path.exists(os.path.join(vlib.COQ, "theories/Cache/Run.vo")):
        return
    model = vlib.build_model(PID)
    vh = vlib.build_harness(PID)
    T = C.Tools(model, vh)
    version = T.vh_run("version", [[]])[0][0].decode()

    # ---- stream 1/2: files.txt text and lookup
    def gen_paths():
        comps = ["a", "b", "ab", "x", "io", "stdio", "a.b", "d"]
        exts = [".c", ".cpp", "", ".h.c"]
        n = rng.randint(1, 5)
        l = []
        for _ in range(n):
            depth = rng.choice([0, 0, 1, 2])
            p = "/".join(rng.choice(comps) for _ in range(depth))
            f = rng.choice(comps) + rng.choice(exts)
            l.append((p + "/" if p else "") + f)
        return list(dict.fromkeys(l))
    n = 1500 if quick else 40000
    lists = [gen_paths() for _ in range(n)] + [["x.c", "d/x.c"], ["io.c", "stdio.c"], ["a.c"], ["d/a.b/x"]]
    diffs = vlib.correspond(run, "getFilesTxt", model, [vh, "filestxt"], lists, tag="filestxt",
                            nontrivial=lambda c, m, i: tuple(c), bucket=lambda c, m, i: "n%d" % len(c))
    cases = [[rng.choice(l)] + l for l in lists]
    diffs += vlib.correspond(run, "getAnalyzerInfoFile", model, [vh, "lookup"], cases, tag="lookup",
                             nontrivial=lambda c, m, i: tuple(c),
                             bucket=lambda c, m, i: "fallback" if i and i[0].endswith(b".analyzerinfo") else "from-files.txt")
    for c, m, i in diffs[:2]:
        run.violation("tie:filestxt:" + vlib.enc_case(c)[:40], "model and analyzerinfo.cpp disagree on files.txt/lookup for %s" % vlib.show(c),
                      {"broken": "correspondence", "case": vlib.show(c), "model": vlib.show(m), "impl": vlib.show(i)}, found_input=False)

    histories(run, T, version, quick, rng)


def inline_suppressions(text):
    """(id, line) of every `// cppcheck-suppress <id>` comment"""
    import re
    out = []
    for n, l in enumerate(text.split("\n"), 1):
        m = re.search(r"//\s*cppcheck-suppress\s+(\w+)", l)
        if m:
            out.append((m.group(1), n))
    return out


def histories(run, T, version, quick, rng):
    """stream 3 + the property: directed and seeded histories on the real binary (T None: without the model tie)"""
    ti_cache = {}
    INCOPTS = HI.INC
    defaults = {}
    if T is not None:
        d0 = T.vh_run("toolhash", [["", 0, 0, 0, 0, 0, "", 0, 0, 0, 1, "", "", "", 0, 0, 0, 0, "", "", "", "c", "", "", "a.c"]])[0]
        defaults = {"platform": d0[2].decode(), "standards": d0[3].decode()} if len(d0) >= 4 else {}
        run.extra["default_renderings"] = defaults

    def ti_for(opts):
        # toolinfo of these options for file f (the file path is streamed once the source does so);
        # with --inline-suppr the inline suppressions of the file are part of the suppression dump
        def ti_fn(f, sc):
            sup = inline_suppressions(sc.read(f)) if "--inline-suppr" in opts else []
            key = (tuple(opts), f, tuple(sup))
            if key not in ti_cache:
                o = C.settings_of_cli(INCOPTS + list(opts), defaults, f)
                o["render_filePath"] = f
                o["suppdump"] = "  <suppressions>\n" + "".join(
                    '    <suppression errorId="%s" fileName="%s" lineNumber="%d" inline="true" />\n' % (i, f, n) for i, n in sup) + "  </suppressions>\n"
                r = T.model_run([["toolinfo"] + C.default_renderings(version, o)])[0]
                ti_cache[key] = r[0] if r else b""
            return ti_cache[key]
        return ti_fn
    hist = [(tag, opts, steps) for tag, opts, steps in directed(quick)]
    nh = 7 if quick else 150
    for k in range(nh):
        opts = rng.choice([[], ["--enable=unusedFunction"], HI.INLINE_OPTS])
        hist.append(("h%d" % k, opts, HI.gen_history(rng, rng.randint(4, 9) if quick else rng.randint(6, 16), allow_clash=(k % 5 == 4))))
    seen = {}
    for tag, opts, steps in hist:
        # unusedFunction is not part of toolinfo; default renderings hold for both option sets
        probs = HI.play(run, T, steps, opts, ti_for(opts), tag)
        for key0, what, rep, found in probs:
            rep = dict(rep)
            rep["history_tag"] = tag
            # a stale result with several causes is reported under each cause
            for key in (key0.split("+") if found else [key0]):
                if key not in seen:
                    seen[key] = tag
                run.violation(key, what, rep, found_input=found)
    run.extra["stale_classes_seen"] = {k: v for k, v in seen.items()}
    run.samples.append({"stream": "history", "case": "directed lineshift256: add a.c b.c; run; prepend 256 lines to a.c; run; run -j2",
                        "model": "hash data unchanged (C18_key_location_status) => cache hit with the old line numbers"})


if __name__ == "__main__":
    vlib.main(check, PID)
