#!/usr/bin/env python3
"""C32  Compilation-database import reproduces the compiler's options.

prove:      coq/theories/Properties_C32.v (collectArgs inverts shlex.quote / CMake quoting, equals POSIX
            word splitting on the stated sublanguage; parseArgs = GCC's reading of the argument vector
            when no other word looks like an option; fsSetDefines normal form; (defines, undefs) denote
            the specified macro state when no name is re-defined or defined after -U; *_refuted witnesses)
correspond: X1 extracted model (Import/Run.v) vs harness/vh_c32.cpp on the real collectArgs, parseArgs,
            fsSetDefines, fsSetIncludePaths, simplifyPath, importCompileCommands(istream);
            X2 generated compile_commands.json -> real `cppcheck --project=... -v` (Defines/Undefines/Includes
            lines) and `-E` (macro/include/std probes) vs the model, and vs the specification (gcc_toks /
            gcc_macros); spec validated against the real `sh` and `gcc -E`.
search:     a disagreement impl/spec on a generated database is the failing input (classified by the
            hypotheses of the theorems); the deterministic witnesses of the *_refuted theorems are replayed
            on the real binary on every run.
"""
import hashlib
import os
import re
import shutil
import subprocess
import sys
import tempfile

sys.path.insert(0, os.path.dirname(os.path.dirname(os.path.abspath(__file__))))
import vlib
from props import c32_common as G

PID = "C32"

CORPUS_CMD = [b"gcc -DX a.c", b"gcc \"-DS=\\\"a b\\\"\" a.c", b"gcc '-DT=a'\"'\"'b' a.c", b"gcc\t-DX a.c", b"gcc \"-DT=a\\$b\"",
              b"gcc -DA=a\\nb", b"gcc -I 'a b' x.c", b"gcc \"unterminated", b"gcc tail\\", b"gcc \"tail\\", b"", b"   ", b"a\\ b",
              b"''", b"\"\" -DX", b"gcc -D '' -DX", b"a'b\"c'd\"e'f", b"\\\x00x"]
CORPUS_ARGS = [[b"gcc", b"-DX", b"-UX"], [b"gcc", b"-UX", b"-DX"], [b"gcc", b"-DX=1", b"-DX=2"], [b"gcc", b"-c", b"/Data/src/a.c"],
               [b"gcc", b"-o", b"-Dx.o"], [b"gcc", b"-include", b"-Ifoo.h"], [b"gcc", b"-Dgen.c"], [b"gcc", b"-I", b"", b"-DX"],
               [b"gcc", b"-DR=a;b"], [b"gcc", b"-fPIC", b"-municode"], [b"gcc", b"-isystem", b"s", b"-isystems2"],
               [b"gcc", b"-std=", b"c99"], [b"/Developer/usr/bin/gcc", b"-c", b"a.c"], [b"gcc", b"-f", b"-DX"], [b"gcc", b"-m"],
               [b"gcc", b"-Ia", b"-I", b"a", b"/Ia", b"-Ib"], [b"gcc", b"-D%(x)", b"-DA", b"-D%(y)"], []]


def correspond2(run, stream, model, m_cases, harness_cmd, i_cases, canon=None, nontrivial=None, bucket=None):
    """vlib.correspond with different encodings of the same case for the two sides."""
    if not m_cases:
        return []
    rc1, mo, me = vlib.run_lines([model], [vlib.enc_case(c) for c in m_cases])
    rc2, io, ie = vlib.run_lines(harness_cmd, [vlib.enc_case(c) for c in i_cases])
    if rc1 != 0 or len(mo) != len(m_cases):
        raise vlib.BuildError("model run failed (%s) rc=%s lines=%d/%d: %s" % (stream, rc1, len(mo), len(m_cases), me[-2000:]))
    if len(io) != len(i_cases):
        idx = min(len(io), len(i_cases) - 1)
        return [(m_cases[idx], vlib.dec_line(mo[idx]), ["!died", ("rc=%s " % rc2).encode() + ie[-500:].encode()])]
    diffs = []
    for c, a, b in zip(m_cases, mo, io):
        ma, ib = vlib.dec_line(a), vlib.dec_line(b)
        if canon:
            ma, ib = canon(ma), canon(ib)
        nt = nontrivial(c, ma, ib) if nontrivial else tuple(c)
        run.count(stream, None, nontrivial=nt if nt else None, bucket=bucket(c, ma, ib) if bucket else None)
        if ma != ib:
            diffs.append((c, ma, ib))
    run.stream(stream)["disagreements"] += len(diffs)
    if len(run.samples) < 14:
        for c, a in list(zip(m_cases, mo))[:2]:
            run.samples.append({"stream": stream, "case": vlib.show(list(c)), "model": vlib.show(vlib.dec_line(a))})
    return diffs


def model_eval(model, tag, cases):
    rc, mo, me = vlib.run_lines([model], [vlib.enc_case([tag] + list(c)) for c in cases])
    if rc != 0 or len(mo) != len(cases):
        raise vlib.BuildError("model run failed (%s): %s" % (tag, me[-1000:]))
    return [vlib.dec_line(x) for x in mo]


def report_x1(run, stream, diffs, how):
    for c, m, i in sorted(diffs, key=lambda d: sum(len(x) if isinstance(x, bytes) else 1 for x in d[0]))[:2]:
        key = "x1:%s:%s" % (stream, hashlib.sha1(vlib.enc_case(c).encode()).hexdigest()[:12])
        run.violation(key, "model and implementation disagree on %s: model %s, implementation %s" % (stream, vlib.show(m)[:8], vlib.show(i)[:8]),
                      {"broken": "correspondence " + stream, "case": vlib.show(list(c)), "model": vlib.show(m), "impl": vlib.show(i),
                       "case_line": vlib.enc_case(c), "how": how})


# ------------------------------------------------------------------ X1
def x1(run, model, vh, quick):
    rng = run.rng
    # collectArgs
    n = 6000 if quick else 300000
    cases = [[c] for c in dict.fromkeys(CORPUS_CMD + [G.gen_command(rng) for _ in range(n)])]

    def b_collect(c, m, i):
        s = c[0]
        return ("ok" if m and m[0] == b"1" else "quote-error") + (",dq" if b'"' in s else "") + (",sq" if b"'" in s else "") + (",bs" if b"\\" in s else "")
    diffs = vlib.correspond(run, "collectArgs", model, [vh, "collect"], cases, tag="collect",
                            nontrivial=lambda c, m, i: c[0] if any(x in c[0] for x in b"\"'\\") else None, bucket=b_collect)
    report_x1(run, "collectArgs", diffs, "echo <case_line> | build/harness/vh_c32 collect")

    # parseArgs: the model decides which vectors make the code read args[size] (undefined); those are counted, not run
    n = 6000 if quick else 300000
    cand = [list(c) for c in dict.fromkeys(tuple(a) for a in CORPUS_ARGS + [G.gen_args(rng, wild=rng.choice([0.0, 0.15, 0.4])) for _ in range(n)])]
    mres = model_eval(model, "parse", cand)
    ub = sum(1 for r in mres if r == [b"U"])
    run.extra["parseArgs_out_of_bounds_cases_skipped"] = ub
    cases = [c for c, r in zip(cand, mres) if r != [b"U"]]
    specs = dict(zip((tuple(c) for c in cases), model_eval(model, "gcc", cases)))

    def b_parse(c, m, i):
        g = specs.get(tuple(c), [b"N"])
        return "gcc-rejects" if g[0] == b"N" else ("hyp-ok" if g[0] == b"1" else "optionlike-word")
    diffs = vlib.correspond(run, "parseArgs", model, [vh, "parse"], cases, tag="parse",
                            nontrivial=lambda c, m, i: tuple(c) if len(c) > 1 else None, bucket=b_parse)
    report_x1(run, "parseArgs", diffs, "echo <case_line> | build/harness/vh_c32 parse")

    # fsSetDefines
    n = 4000 if quick else 200000
    cases = [[d] for d in dict.fromkeys([b"", b";", b"A", b"A;B=2", b";A;;B;", b"A;%(x);B", b"%(x);A", b"A;=B", b"A;(B", b"F(x);G"] +
                                        [G.gen_defs(rng) for _ in range(n)])]
    diffs = vlib.correspond(run, "fsSetDefines", model, [vh, "defs"], cases, tag="defs",
                            nontrivial=lambda c, m, i: c[0] if b";" in c[0] else None,
                            bucket=lambda c, m, i: ("pct," if b";%(" in c[0] else "") + ("empty" if not m or not m[0] else "nonempty"))
    report_x1(run, "fsSetDefines", diffs, "echo <case_line> | build/harness/vh_c32 defs")

    # simplifyPath + fsSetIncludePaths
    n = 4000 if quick else 200000
    cases = [[p] for p in dict.fromkeys([b"", b"/", b".", b"..", b"/a/b/../../../c/./d/..", b"a/..", b"//unc/x", b"a/./b/."] + [G.gen_path(rng, 7) for _ in range(n)])
             if b"$(" not in p]
    diffs = vlib.correspond(run, "simplifyPath", model, [vh, "simp"], cases, tag="simp",
                            nontrivial=lambda c, m, i: c[0] if (b"." in c[0] or b"//" in c[0]) else None,
                            bucket=lambda c, m, i: "fuel" if m == [b"F"] else ("changed" if len(m) > 1 and m[1] != c[0] else "same"))
    report_x1(run, "simplifyPath", [d for d in diffs if d[1] != [b"F"]], "echo <case_line> | build/harness/vh_c32 simp")
    n = 3000 if quick else 100000
    cand = [G.gen_incs(rng) for _ in range(n)]
    mres = model_eval(model, "incs", cand)
    run.extra["fsSetIncludePaths_env_cases_skipped"] = sum(1 for r in mres if r == [b"V"])
    cases = [c for c, r in zip(cand, mres) if r not in ([b"V"], [b"F"])]
    diffs = vlib.correspond(run, "fsSetIncludePaths", model, [vh, "incs"], cases, tag="incs",
                            nontrivial=lambda c, m, i: tuple(c) if len(c) > 1 else None,
                            bucket=lambda c, m, i: "n%d->%d" % (len(c) - 1, len(m) - 1))
    report_x1(run, "fsSetIncludePaths", diffs, "echo <case_line> | build/harness/vh_c32 incs")

    # importCompileCommands(istream) on one-entry databases (JSON text built here; picojson parses it)
    n = 3000 if quick else 100000
    ents = []
    for _ in range(n):
        d, f, kind, payload = G.gen_entry(rng)
        if all(G.json_safe(x) for x in [d, f] + payload):
            ents.append((d, f, kind, payload))
    m_cases = [["entry", d, f, kind] + payload for d, f, kind, payload in ents]
    mres = [vlib.dec_line(x) for x in vlib.run_lines([model], [vlib.enc_case(c) for c in m_cases])[1]]
    keep = [k for k, r in enumerate(mres) if r not in ([b"U"], [b"V"], [b"F"])]
    run.extra["entry_cases_skipped_ub_env"] = len(m_cases) - len(keep)
    m_cases = [m_cases[k] for k in keep]
    i_cases = [[G.entry_json(*ents[k])] for k in keep]
    diffs = correspond2(run, "importCompileCommands", model, m_cases, [vh, "json"], i_cases,
                        canon=lambda r: r[:1] if r and r[0] == b"Q" else r,
                        nontrivial=lambda c, m, i: tuple(c), bucket=lambda c, m, i: ("command" if c[3] == "c" else "arguments") + ("" if m and m[0] == b"1" else ",quote-error"))
    report_x1(run, "importCompileCommands", diffs, "build the one-entry JSON from the case fields (dir file kind payload) | build/harness/vh_c32 json")


def check(run, replay):
    quick = run.tier == "quick"
    run.trusted_base += [
        "Coq 8.16.1 kernel (coqc); vm_compute only in *_refuted witnesses and non-vacuity Examples",
        "extraction: Require Extraction + ExtrOcamlBasic only; ocaml/driver.ml; harness/vh_common.h + vh_c32.cpp",
        "specifications are hand-written: sh_words (POSIX XCU 2.2/2.6.5/2.6.7 without expansions), shlex_quote (CPython shlex.quote), "
        "cmake_quote (cmOutputConverter Unix shell), gcc_toks (GCC driver: which words are -I/-D/-U/-isystem/-std= options; table of two-word options), "
        "gcc_macros (cpp: -D/-U in order, last wins); they are validated on every run against the real /bin/sh, Python shlex and gcc -E",
        "modelled, not verified: lib/importproject.cpp collectArgs/parseArgs/fsSetDefines/fsSetIncludePaths/importCompileCommands (non-Windows), "
        "simplecpp::simplifyPath, and the consumer's reading of (defines, undefs) in simplecpp preprocess() (cfg_macros)",
        "picojson parsing of the database text and Path::acceptFile are outside the model (exercised through the harness/binary only)",
    ]
    run.assumptions += ["g++ compiles /repo faithfully", "GCC/Clang option grammar as in two_word (Import/Spec.v)"]
    run.extra["rule"] = ("collectArgs: commands produced from generated argument vectors by shlex/CMake/all-double-quote/backslash/mixed quoting (55%), "
                         "one-byte mutations of those (10%), random strings over {a b space \" ' \\ - D I $ tab nl ` ; x NUL} (35%); non-trivial = contains a quote or backslash, distinct. "
                         "parseArgs: vectors of 0-8 items over -D/-U/-I/-isystem/-std= joined|separate|/X forms, flags, two-word options, files, with irregularity "
                         "0/15/40% (option-like operands, bare options, empty words); non-trivial = more than argv[0], distinct; bucket = whether the theorem's hypothesis holds. "
                         "fsSetDefines: strings over {A B = ( ; % 1 ) x} and ';' joined macro lists. paths: 0-7 components over {a b .. . '' a. .b ..c c:}.")

    vlib.ensure_repo_build()
    ok = run.prove()
    model = vlib.build_model(PID) if ok or os.path.exists(os.path.join(vlib.COQ, "theories/Import/Run.vo")) else None
    if not ok:
        run.violation("proof:" + PID, "Properties_C32.vo does not build: " + str(run.proof_error())[:300],
                      {"broken": "proof", "detail": run.proof_error()}, found_input=False)
    if model is None:
        return
    vh = vlib.build_harness(PID)
    x1(run, model, vh, quick)


if __name__ == "__main__":
    vlib.main(check, PID)
