#!/usr/bin/env python3
"""C32  Compilation-database import reproduces the compiler's options.

prove:      coq/theories/Properties_C32.v (collectArgs inverts shlex.quote / CMake quoting, equals POSIX
            word splitting on the stated sublanguage; parseArgs = GCC's reading of the argument vector
            when no other word looks like an option; fsSetDefines normal form; (defines, undefs) denote
            the specified macro state when no name is re-defined or defined after -U; *_refuted witnesses)
correspond: X1 extracted model (Import/Run.v) vs harness/vh_c32.cpp on the real collectArgs, parseArgs,
            fsSetDefines, fsSetIncludePaths, simplifyPath, importCompileCommands(istream);
            X2 generated compile_commands.json -> real `cppcheck --project=... -v` (Defines/Undefines/Includes
            lines) and `-E` (macro/include/std probes) vs the model, and vs the specification (gcc_toks /
            gcc_macros); spec validated against the real `sh` and `gcc -E`.
search:     a disagreement impl/spec on a generated database is the failing input (classified by the
            hypotheses of the theorems); the deterministic witnesses of the *_refuted theorems are replayed
            on the real binary on every run.
"""
import hashlib
import os
import re
import shutil
import subprocess
import sys
import tempfile

sys.path.insert(0, os.path.dirname(os.path.dirname(os.path.abspath(__file__))))
import vlib
from props import c32_common as G

PID = "C32"

CORPUS_CMD = [b"gcc -DX a.c", b"gcc \"-DS=\\\"a b\\\"\" a.c", b"gcc '-DT=a'\"'\"'b' a.c", b"gcc\t-DX a.c", b"gcc \"-DT=a\\$b\"",
              b"gcc -DA=a\\nb", b"gcc -I 'a b' x.c", b"gcc \"unterminated", b"gcc tail\\", b"gcc \"tail\\", b"", b"   ", b"a\\ b",
              b"''", b"\"\" -DX", b"gcc -D '' -DX", b"a'b\"c'd\"e'f", b"\\\x00x"]
CORPUS_ARGS = [[b"gcc", b"-DX", b"-UX"], [b"gcc", b"-UX", b"-DX"], [b"gcc", b"-DX=1", b"-DX=2"], [b"gcc", b"-c", b"/Data/src/a.c"],
               [b"gcc", b"-o", b"-Dx.o"], [b"gcc", b"-include", b"-Ifoo.h"], [b"gcc", b"-Dgen.c"], [b"gcc", b"-I", b"", b"-DX"],
               [b"gcc", b"-DR=a;b"], [b"gcc", b"-fPIC", b"-municode"], [b"gcc", b"-isystem", b"s", b"-isystems2"],
               [b"gcc", b"-std=", b"c99"], [b"/Developer/usr/bin/gcc", b"-c", b"a.c"], [b"gcc", b"-f", b"-DX"], [b"gcc", b"-m"],
               [b"gcc", b"-Ia", b"-I", b"a", b"/Ia", b"-Ib"], [b"gcc", b"-D%(x)", b"-DA", b"-D%(y)"], []]


def correspond2(run, stream, model, m_cases, harness_cmd, i_cases, canon=None, nontrivial=None, bucket=None):
    """vlib.correspond with different encodings of the same case for the two sides."""
    if not m_cases:
        return []
    rc1, mo, me = vlib.run_lines([model], [vlib.enc_case(c) for c in m_cases])
    rc2, io, ie = vlib.run_lines(harness_cmd, [vlib.enc_case(c) for c in i_cases])
    if rc1 != 0 or len(mo) != len(m_cases):
        raise vlib.BuildError("model run failed (%s) rc=%s lines=%d/%d: %s" % (stream, rc1, len(mo), len(m_cases), me[-2000:]))
    if len(io) != len(i_cases):
        idx = min(len(io), len(i_cases) - 1)
        return [(m_cases[idx], vlib.dec_line(mo[idx]), ["!died", ("rc=%s " % rc2).encode() + ie[-500:].encode()])]
    diffs = []
    for c, a, b in zip(m_cases, mo, io):
        ma, ib = vlib.dec_line(a), vlib.dec_line(b)
        if canon:
            ma, ib = canon(ma), canon(ib)
        nt = nontrivial(c, ma, ib) if nontrivial else tuple(c)
        run.count(stream, None, nontrivial=nt if nt else None, bucket=bucket(c, ma, ib) if bucket else None)
        if ma != ib:
            diffs.append((c, ma, ib))
    run.stream(stream)["disagreements"] += len(diffs)
    if len(run.samples) < 14:
        for c, a in list(zip(m_cases, mo))[:2]:
            run.samples.append({"stream": stream, "case": vlib.show(list(c)), "model": vlib.show(vlib.dec_line(a))})
    return diffs


def model_eval(model, tag, cases):
    rc, mo, me = vlib.run_lines([model], [vlib.enc_case([tag] + list(c)) for c in cases])
    if rc != 0 or len(mo) != len(cases):
        raise vlib.BuildError("model run failed (%s): %s" % (tag, me[-1000:]))
    return [vlib.dec_line(x) for x in mo]


def report_x1(run, stream, diffs, how, spec=None):
    """spec(case, impl_out) -> None (no verdict) | text: the implementation's answer contradicts the specification itself.
    The search step: among the disagreeing inputs (smallest first) look for ones on which the implementation breaks the
    specification; report those as failing inputs, otherwise report the broken correspondence without a failing input."""
    ranked = sorted(diffs, key=lambda d: sum(len(x) if isinstance(x, bytes) else 1 for x in d[0]))
    failing = []
    if spec:
        for c, m, i in ranked[:300]:
            v = spec(c, i)
            if v:
                failing.append((c, m, i, v))
                if len(failing) >= 2:
                    break
    for c, m, i, v in failing:
        key = "x1:%s:%s" % (stream, hashlib.sha1(vlib.enc_case(c).encode()).hexdigest()[:12])
        run.violation(key, "%s: %s" % (stream, v),
                      {"case": vlib.show(list(c)), "model": vlib.show(m), "impl": vlib.show(i), "specification": v,
                       "case_line": vlib.enc_case(c), "how": how})
    if failing:
        return
    for c, m, i in ranked[:2]:
        key = "x1:%s:%s" % (stream, hashlib.sha1(vlib.enc_case(c).encode()).hexdigest()[:12])
        run.violation(key, "model and implementation disagree on %s: model %s, implementation %s" % (stream, vlib.show(m)[:8], vlib.show(i)[:8]),
                      {"broken": "correspondence " + stream, "case": vlib.show(list(c)), "model": vlib.show(m), "impl": vlib.show(i),
                       "case_line": vlib.enc_case(c), "how": how}, found_input=False)


# ------------------------------------------------------------------ X1
def x1(run, model, vh, quick):
    rng = run.rng

    def spec_collect(c, i):
        w = model_eval(model, "shwords", [c])[0]
        if w[0] != b"1":
            return None
        want = [x for x in w[1:] if x]
        if i[:1] == [b"1"] and i[1:] == want:
            return None
        return "the shell reads the command %r as %r, collectArgs gives %r" % (c[0], vlib.show(want), vlib.show(i[1:]))

    def spec_parse(c, i):
        g = model_eval(model, "gcc", [c])[0]
        if g[0] != b"1":        # GCC rejects the line or some word is not inert: the theorem says nothing
            return None
        # g: ok, lenc incs, lenc sys, lenc defs (raw list), lenc undefs, std   /   i: 1, lenc incs, lenc sys, defines, lenc undefs, std
        def take(f, k):
            n = int(f[k])
            return f[k + 1:k + 1 + n], k + 1 + n
        gi, k = take(g, 1); gs, k = take(g, k); gd, k = take(g, k); gu, k = take(g, k); gstd = g[k]
        ii, k = take(i, 1); is_, k = take(i, k); idef = i[k]; iu, k = take(i, k + 1); istd = i[k]
        if (gi, gs, gu, gstd) != (ii, is_, iu, istd):
            return "GCC reads -I %r -isystem %r -U %r -std %r from %r; parseArgs gives %r %r %r %r" % tuple(
                vlib.show(x) for x in (gi, gs, gu, gstd, c, ii, is_, iu, istd))
        return None
    # collectArgs
    n = 6000 if quick else 300000
    cases = [[c] for c in dict.fromkeys(CORPUS_CMD + [G.gen_command(rng) for _ in range(n)])]

    def b_collect(c, m, i):
        s = c[0]
        return ("ok" if m and m[0] == b"1" else "quote-error") + (",dq" if b'"' in s else "") + (",sq" if b"'" in s else "") + (",bs" if b"\\" in s else "")
    diffs = vlib.correspond(run, "collectArgs", model, [vh, "collect"], cases, tag="collect",
                            nontrivial=lambda c, m, i: c[0] if any(x in c[0] for x in b"\"'\\") else None, bucket=b_collect)
    report_x1(run, "collectArgs", diffs, "echo <case_line> | build/harness/vh_c32 collect", spec_collect)

    # parseArgs: the model decides which vectors make the code read args[size] (undefined); those are counted, not run
    n = 6000 if quick else 300000
    cand = [list(c) for c in dict.fromkeys(tuple(a) for a in CORPUS_ARGS + [G.gen_args(rng, wild=rng.choice([0.0, 0.15, 0.4])) for _ in range(n)])]
    mres = model_eval(model, "parse", cand)
    ub = sum(1 for r in mres if r == [b"U"])
    run.extra["parseArgs_out_of_bounds_cases_skipped"] = ub
    cases = [c for c, r in zip(cand, mres) if r != [b"U"]]
    specs = dict(zip((tuple(c) for c in cases), model_eval(model, "gcc", cases)))

    def b_parse(c, m, i):
        g = specs.get(tuple(c), [b"N"])
        return "gcc-rejects" if g[0] == b"N" else ("hyp-ok" if g[0] == b"1" else "optionlike-word")
    diffs = vlib.correspond(run, "parseArgs", model, [vh, "parse"], cases, tag="parse",
                            nontrivial=lambda c, m, i: tuple(c) if len(c) > 1 else None, bucket=b_parse)
    report_x1(run, "parseArgs", diffs, "echo <case_line> | build/harness/vh_c32 parse", spec_parse)

    # fsSetDefines
    n = 4000 if quick else 200000
    cases = [[d] for d in dict.fromkeys([b"", b";", b"A", b"A;B=2", b";A;;B;", b"A;%(x);B", b"%(x);A", b"A;=B", b"A;(B", b"F(x);G"] +
                                        [G.gen_defs(rng) for _ in range(n)])]
    diffs = vlib.correspond(run, "fsSetDefines", model, [vh, "defs"], cases, tag="defs",
                            nontrivial=lambda c, m, i: c[0] if b";" in c[0] else None,
                            bucket=lambda c, m, i: ("pct," if b";%(" in c[0] else "") + ("empty" if not m or not m[0] else "nonempty"))
    report_x1(run, "fsSetDefines", diffs, "echo <case_line> | build/harness/vh_c32 defs")

    # simplifyPath + fsSetIncludePaths
    n = 4000 if quick else 200000
    cases = [[p] for p in dict.fromkeys([b"", b"/", b".", b"..", b"/a/b/../../../c/./d/..", b"a/..", b"//unc/x", b"a/./b/."] + [G.gen_path(rng, 7) for _ in range(n)])
             if b"$(" not in p]
    diffs = vlib.correspond(run, "simplifyPath", model, [vh, "simp"], cases, tag="simp",
                            nontrivial=lambda c, m, i: c[0] if (b"." in c[0] or b"//" in c[0]) else None,
                            bucket=lambda c, m, i: "fuel" if m == [b"F"] else ("changed" if len(m) > 1 and m[1] != c[0] else "same"))
    report_x1(run, "simplifyPath", [d for d in diffs if d[1] != [b"F"]], "echo <case_line> | build/harness/vh_c32 simp")
    n = 3000 if quick else 100000
    cand = [G.gen_incs(rng) for _ in range(n)]
    mres = model_eval(model, "incs", cand)
    run.extra["fsSetIncludePaths_env_cases_skipped"] = sum(1 for r in mres if r == [b"V"])
    cases = [c for c, r in zip(cand, mres) if r not in ([b"V"], [b"F"])]
    diffs = vlib.correspond(run, "fsSetIncludePaths", model, [vh, "incs"], cases, tag="incs",
                            nontrivial=lambda c, m, i: tuple(c) if len(c) > 1 else None,
                            bucket=lambda c, m, i: "n%d->%d" % (len(c) - 1, len(m) - 1))
    report_x1(run, "fsSetIncludePaths", diffs, "echo <case_line> | build/harness/vh_c32 incs")

    # importCompileCommands(istream) on one-entry databases (JSON text built here; picojson parses it)
    n = 3000 if quick else 100000
    ents = []
    for _ in range(n):
        d, f, kind, payload = G.gen_entry(rng)
        if all(G.json_safe(x) for x in [d, f] + payload):
            ents.append((d, f, kind, payload))
    m_cases = [["entry", d, f, kind] + payload for d, f, kind, payload in ents]
    mres = [vlib.dec_line(x) for x in vlib.run_lines([model], [vlib.enc_case(c) for c in m_cases])[1]]
    keep = [k for k, r in enumerate(mres) if r not in ([b"U"], [b"V"], [b"F"])]
    run.extra["entry_cases_skipped_ub_env"] = len(m_cases) - len(keep)
    m_cases = [m_cases[k] for k in keep]
    i_cases = [[G.entry_json(*ents[k])] for k in keep]
    diffs = correspond2(run, "importCompileCommands", model, m_cases, [vh, "json"], i_cases,
                        canon=lambda r: r[:1] if r and r[0] == b"Q" else r,
                        nontrivial=lambda c, m, i: tuple(c), bucket=lambda c, m, i: ("command" if c[3] == "c" else "arguments") + ("" if m and m[0] == b"1" else ",quote-error"))
    report_x1(run, "importCompileCommands", diffs, "build the one-entry JSON from the case fields (dir file kind payload) | build/harness/vh_c32 json")


# ------------------------------------------------------------------ X2: the real binary, the real shell, the real compiler
PROBE_RE = re.compile(r"^\s*int\s+(vmark_(\d+)|probe_(\w+)|vinc_(\d+))\s*(?:=\s*(.*?))?\s*;\s*$")
KNOWN_WHAT = {
    "undef-then-define": "-UX before -DX: the compiler defines X, the imported configuration leaves it undefined (undefs is an unordered set that always wins)",
    "redefine-first-wins": "-DX=1 -DX=2: the compiler uses the last definition, the imported configuration the first",
    "backslash-escape": "backslash before a character other than \\ \" ' space (e.g. CMake's \\$ inside double quotes) is kept by collectArgs",
    "define-semicolon": "-DR=a;b: the ';' inside the macro body splits the definition into R=a and b=1",
    "optionlike-word": "a word GCC reads as an operand (e.g. -o /Data/o.o, a source /Data/src/a.c, -include -Ifoo.h) is read as /D /U /I -D -I option",
}


def parse_probes(text):
    """-> {mark: {"m": {name: value}, "i": set(dir index)}} from preprocessed text (cppcheck -E or gcc -E -P)."""
    res, cur = {}, None
    for line in text.splitlines():
        m = PROBE_RE.match(line)
        if not m:
            continue
        if m.group(2) is not None:
            cur = res.setdefault(int(m.group(2)), {"m": {}, "i": set()})
        elif cur is not None and m.group(3) is not None:
            cur["m"][m.group(3)] = re.sub(r"\s+", "", m.group(5) or "")
        elif cur is not None and m.group(4) is not None:
            cur["i"].add(int(m.group(4)))
    return res


def parse_verbose(text):
    """-> {path: (Defines line, Undefines line, Includes line)} from `cppcheck -v` output."""
    res, lines = {}, text.splitlines()
    for k, line in enumerate(lines):
        if line.startswith("Checking ") and line.endswith(" ...") and k + 3 < len(lines) and lines[k + 1].startswith("Defines:"):
            res[line[len("Checking "):-len(" ...")]] = (lines[k + 1], lines[k + 2], lines[k + 3])
    return res


def rep_lines(fields, k):
    """Defines/Undefines/Includes lines that -v prints for a representation encoded as lenc incs, lenc sys, defs, lenc undefs, std."""
    def take(k):
        n = int(fields[k])
        return fields[k + 1:k + 1 + n], k + 1 + n
    incs, k = take(k)
    sys_, k = take(k)
    defs = fields[k]
    undefs, k = take(k + 1)
    std = fields[k]
    L = lambda b: b.decode("latin-1")
    return ("Defines:" + L(defs), "Undefines:" + ";".join(" " + L(u) for u in undefs), "Includes:" + "".join(" -I" + L(i) for i in incs)), std


def probes_of(fields, names):
    """model/spec probe encoding (U | D lhs body per name) -> {name: value}"""
    out, k = {}, 1
    for n in names:
        if fields[k] == b"U":
            k += 1
        else:
            lhs, body = fields[k + 1], fields[k + 2]
            key = n.decode()
            if b"(" in lhs:      # FN(a): the probe expands FN(7)
                body = body.replace(b"a", b"7") if body != b"abc" else body
            out[key] = re.sub(r"\s+", "", body.decode("latin-1"))
            k += 3
    return out


def classify_macro(argv, name):
    ev = []
    k = 1
    while k < len(argv):
        a = argv[k]
        for pre, kind in ((b"-D", "D"), (b"-U", "U")):
            if a == pre and k + 1 < len(argv):
                ev.append((kind, argv[k + 1]))
                k += 1
                break
            if a.startswith(pre) and len(a) > 2:
                ev.append((kind, a[2:]))
                break
        k += 1
    nm = lambda v: re.split(rb"[=(]", v, 1)[0]
    mine = [(kind, v) for kind, v in ev if nm(v) == name.encode() or (kind == "D" and b";" in v)]
    if any(kind == "D" and b";" in v for kind, v in mine):
        return "define-semicolon"
    seen_u = False
    for kind, v in mine:
        if kind == "U":
            seen_u = True
        elif seen_u:
            return "undef-then-define"
    if sum(1 for kind, v in mine if kind == "D") > 1:
        return "redefine-first-wins"
    return None


def x2(run, model, quick):
    rng = run.rng
    ndb, K = (4, 30) if quick else (60, 40)
    names = G.PROBE_MACROS + [b"FN"]
    root = tempfile.mkdtemp(prefix="c32_", dir="/tmp")
    stats = {"oracle_gcc_runs": 0, "oracle_gcc_failed_or_skipped": 0, "isystem_only_dirs_ignored": 0}
    try:
        src = os.path.join(root, "w", "src")
        os.makedirs(src)
        for k, d in enumerate(G.PROBE_DIRS):
            dd = os.path.normpath(os.path.join(src, d.decode()))
            os.makedirs(dd, exist_ok=True)
            open(os.path.join(dd, "vprobe_%d.h" % k), "w").write("int vinc_%d ;\n" % k)
        stub = os.path.join(root, "stub")      # keeps the real compiler going when a probe header is not on its path
        os.makedirs(stub)
        for k in range(len(G.PROBE_DIRS)):
            open(os.path.join(stub, "vprobe_%d.h" % k), "w").write("int vstub_%d ;\n" % k)
        for db in range(ndb):
            ents = []
            wit = []
            if db == 0:
                f = lambda i: b"f0_%d.c" % i
                wit = [("a", [b"gcc", b"-UX", b"-DX", b"-c", f(0)]), ("a", [b"gcc", b"-DX=1", b"-DX=2", b"-c", f(1)]),
                       ("c", [b"gcc \"-DT=a\\$b\" -c " + f(2)]), ("a", [b"gcc", b"-DR=a;b", b"-c", f(3)]),
                       ("a", [b"gcc", b"-c", f(4), b"-o", b"/Data/o.o"]), ("a", [b"/Users/me/bin/cc", b"-Iinc", b"-c", f(5)]),
                       ("c", [b"gcc -U_F -D_F=2 -Iinc -c " + f(6)])]
            for i in range(K):
                fn = b"f%d_%d.c" % (db, i)
                open(os.path.join(src, fn.decode()), "w").write(G.probe_source(i))
                if i < len(wit):
                    kind, payload = wit[i]
                else:
                    args = G.gen_e2e_args(rng, fn, wild=rng.choice([0.0, 0.05, 0.15]))
                    if rng.random() < 0.5:
                        kind, payload = "a", args
                    else:
                        kind, payload = "c", [G.join_args(args, rng.choice(G.STYLES), rng)]
                ents.append((fn, kind, payload))
            dbfile = os.path.join(root, "w", "compile_commands_%d.json" % db)
            import json
            js = []
            for fn, kind, payload in ents:
                e = {"directory": src, "file": fn.decode()}
                if kind == "c":
                    e["command"] = payload[0].decode("latin-1")
                else:
                    e["arguments"] = [a.decode("latin-1") for a in payload]
                js.append(e)
            json.dump(js, open(dbfile, "w"))
            rc, outv, _ = vlib.sh([vlib.CPPCHECK, "--project=" + dbfile, "-v", "-j1"], timeout=600)
            rc, oute, _ = vlib.sh([vlib.CPPCHECK, "--project=" + dbfile, "-E", "-j1"], timeout=600)
            verb, bprobes = parse_verbose(outv), parse_probes(oute)
            sdir = src.encode()
            m_entry = model_eval(model, "entry", [[sdir, fn, kind] + payload for fn, kind, payload in ents])
            m_entrym = model_eval(model, "entrym", [[len(names)] + names + [sdir, fn, kind] + payload for fn, kind, payload in ents])
            m_words = model_eval(model, "shwords", [[payload[0]] if kind == "c" else [b""] for fn, kind, payload in ents])
            m_coll = model_eval(model, "collect", [[payload[0]] if kind == "c" else [b""] for fn, kind, payload in ents])
            for i, (fn, kind, payload) in enumerate(ents):
                path = os.path.join(src, fn.decode())
                me = m_entry[i]
                # the argument vector as the shell / the array gives it (specification side)
                if kind == "c":
                    if m_words[i][0] != b"1":
                        run.count("X2 spec", None, bucket="command outside the expansion-free sublanguage")
                        argv = None
                    else:
                        argv = m_words[i][1:]
                else:
                    argv = payload
                replay = {"entry": js[i], "how": "write the entry into compile_commands.json; build/repo/bin/cppcheck --project=<abs path> -v (and -E)"}
                bucket = ("command" if kind == "c" else "arguments")
                if me[0] != b"1":
                    run.count("X2 tie -v", None, bucket=bucket + ",import-rejected-or-undefined")
                    continue
                # A: binary -v lines vs model
                exp, _std = rep_lines(me, 2)
                got = verb.get(path)
                run.count("X2 tie -v", None, nontrivial=(kind, tuple(payload)), bucket=bucket)
                if got != exp:
                    run.stream("X2 tie -v")["disagreements"] += 1
                    run.violation("x2v:" + hashlib.sha1(repr((kind, payload)).encode()).hexdigest()[:12],
                                  "cppcheck -v prints %r for the entry, the model says %r" % (got, exp), dict(replay, model=list(exp), binary=list(got or [])))
                # B: binary -E macro probes vs model (import + preprocessor reading)
                bp = bprobes.get(i, {"m": {}, "i": set()})
                mp = probes_of(m_entrym[i], names)
                bm = {k: v for k, v in bp["m"].items() if k != "STDCV"}
                run.count("X2 tie -E", None, nontrivial=(kind, tuple(payload)), bucket="%d macros defined" % len(mp))
                if bm != mp:
                    run.stream("X2 tie -E")["disagreements"] += 1
                    run.violation("x2e:" + hashlib.sha1(repr((kind, payload)).encode()).hexdigest()[:12],
                                  "cppcheck -E shows macros %r, model (import + first-define-wins/undef-wins reading) says %r" % (bm, mp),
                                  dict(replay, model=mp, binary=bm))
                if argv is None:
                    continue
                # E: binary representation vs what the options specify (C32_parse_args_exact's right-hand side)
                sp = model_eval(model, "gccrep", [[sdir] + argv])[0]
                if sp[0] in (b"N", b"V", b"F", b"B"):
                    run.count("X2 spec", None, bucket="gcc rejects the line" if sp[0] == b"N" else "env/fuel")
                    continue
                hyp = sp[0] == b"1"
                sexp, sstd = rep_lines(sp, 1)
                shell_differs = kind == "c" and m_coll[i][1:] != [w for w in argv if w]
                run.count("X2 spec", None, nontrivial=(kind, tuple(payload)),
                          bucket=("hypotheses hold" if hyp and not shell_differs else "outside hypotheses") + ("" if got == sexp else ", differs"))
                keys = set()
                if got is not None and got != sexp:
                    run.stream("X2 spec")["disagreements"] += 1
                    if not hyp:
                        keys.add("optionlike-word")
                    elif shell_differs:
                        keys.add("backslash-escape")
                    else:
                        keys.add("x2s:" + hashlib.sha1(repr((kind, payload)).encode()).hexdigest()[:12])
                # C/D: the real compiler on the same line (macro state, include resolution, __STDC_VERSION__)
                gp = None
                for cand in ("out.o", "-Dx.o", "dep.d", fn.decode()[:-2] + ".d"):
                    try:
                        os.remove(os.path.join(src, cand))
                    except OSError:
                        pass
                if kind == "c":
                    p = subprocess.run(["/bin/sh", "-c", payload[0].decode("latin-1") + " -E -P -idirafter " + stub], cwd=src, stdout=subprocess.PIPE, stderr=subprocess.PIPE)
                else:
                    p = subprocess.run(["gcc"] + [a.decode("latin-1") for a in payload[1:]] + ["-E", "-P", "-idirafter", stub], cwd=src, stdout=subprocess.PIPE, stderr=subprocess.PIPE)
                stats["oracle_gcc_runs"] += 1
                text = p.stdout.decode("latin-1")
                if p.returncode == 0 and not text.strip():
                    for cand in ("out.o", "-Dx.o"):
                        if os.path.exists(os.path.join(src, cand)):
                            text = open(os.path.join(src, cand), encoding="latin-1").read()
                if p.returncode == 0 and "vmark_" in text:
                    gp = parse_probes(text).get(i)
                if gp is None:
                    stats["oracle_gcc_failed_or_skipped"] += 1
                else:
                    skip = {"__PIC__", "__pic__", "STDCV"}   # platform defaults (default-pie) / default standard
                    gm = {k: v for k, v in gp["m"].items() if k not in skip}
                    bm2 = {k: v for k, v in bp["m"].items() if k not in skip}
                    sm = {k: v for k, v in probes_of(model_eval(model, "gccm", [[len(names)] + names + argv])[0], names).items() if k not in skip}
                    run.count("X2 gcc oracle", None, nontrivial=(kind, tuple(payload)), bucket="macros agree" if gm == bm2 else "macros differ")
                    if sm != gm:
                        run.violation("spec:" + hashlib.sha1(repr(argv).encode()).hexdigest()[:12],
                                      "specification gcc_macros says %r, the real gcc says %r" % (sm, gm), dict(replay, spec=sm, gcc=gm), found_input=False)
                    if gm != bm2:
                        run.stream("X2 gcc oracle")["disagreements"] += 1
                        for nme in set(gm) | set(bm2):
                            if gm.get(nme) != bm2.get(nme):
                                if not hyp:
                                    keys.add("optionlike-word")
                                elif shell_differs:
                                    keys.add("backslash-escape")
                                else:
                                    keys.add(classify_macro(argv, nme) or "x2m:" + hashlib.sha1(repr((kind, payload, nme)).encode()).hexdigest()[:12])
                    if sstd and "STDCV" in gp["m"] and gp["m"].get("STDCV") != bp["m"].get("STDCV"):
                        keys.add("x2std:" + sstd.decode("latin-1"))
                    if gp["i"] != bp["i"]:
                        extra = gp["i"] - bp["i"]
                        sysd = {k for k, d in enumerate(G.PROBE_DIRS) if any(argv[j] == b"-isystem" and os.path.normpath(argv[j + 1].decode()) == os.path.normpath(d.decode())
                                                                               for j in range(len(argv) - 1))}
                        if bp["i"] - gp["i"] or not extra <= sysd:
                            keys.add("optionlike-word" if not hyp else "backslash-escape" if shell_differs else
                                     "x2i:" + hashlib.sha1(repr((kind, payload)).encode()).hexdigest()[:12])
                        else:
                            stats["isystem_only_dirs_ignored"] += 1
                for key in keys:
                    what = KNOWN_WHAT.get(key, "cppcheck analyses the file with other options than the compile command specifies")
                    run.violation(key, what, dict(replay, binary_v=list(got or []), specified=list(sexp), binary_probes=bp["m"],
                                                  gcc_probes=(gp or {}).get("m"), key=key))
    finally:
        shutil.rmtree(root, ignore_errors=True)
    run.extra.update(stats)


def sh_validation(run, model, quick):
    """The specification sh_words against the real /bin/sh, shlex_join against Python's shlex.join."""
    rng = run.rng
    n = 300 if quick else 5000
    cmds = []
    for _ in range(n * 3):
        c = G.gen_command(rng)
        if b"\x00" not in c and c not in cmds and not c.endswith(b"\\"):
            cmds.append(c)
        if len(cmds) >= n:
            break
    spec = model_eval(model, "shwords", [[c] for c in cmds])
    bad = 0
    for c, s in zip(cmds, spec):
        if s[0] != b"1":
            run.count("spec sh_words vs /bin/sh", None, bucket="outside sublanguage/unterminated")
            continue
        p = subprocess.run(["/bin/sh", "-c", "for a in " + c.decode("latin-1") + "\ndo printf '%s\\0' \"$a\"; done"],
                           stdout=subprocess.PIPE, stderr=subprocess.PIPE)
        got = p.stdout.split(b"\x00")[:-1] if p.returncode == 0 else None
        run.count("spec sh_words vs /bin/sh", None, nontrivial=c, bucket="ok")
        if got != s[1:]:
            bad += 1
            if bad <= 2:
                run.violation("spec-sh:" + c.hex()[:24], "specification sh_words(%r) = %r but /bin/sh gives %r" % (c, s[1:], got),
                              {"command": vlib.show(c), "spec": vlib.show(s[1:]), "sh": vlib.show(got) if got is not None else None}, found_input=False)
    import shlex
    vecs = [G.gen_args(rng, wild=0.4) for _ in range(n)]
    vecs = [v for v in vecs if all(b"\x00" not in a for a in v)]
    mj = model_eval(model, "shlex", vecs)
    for v, m in zip(vecs, mj):
        py = " ".join(shlex.quote(a.decode("latin-1")) for a in v).encode("latin-1")
        run.count("spec shlex_join vs Python shlex", None, nontrivial=tuple(v), bucket="ok")
        if (m[0] if m else b"") != py:
            run.violation("spec-shlex:" + py.hex()[:24], "specification shlex_join differs from Python shlex.quote on %r" % (v,),
                          {"args": vlib.show(v), "spec": vlib.show(m), "python": vlib.show(py)}, found_input=False)
            break


def check(run, replay):
    quick = run.tier == "quick"
    run.trusted_base += [
        "Coq 8.16.1 kernel (coqc); vm_compute only in *_refuted witnesses and non-vacuity Examples",
        "extraction: Require Extraction + ExtrOcamlBasic only; ocaml/driver.ml; harness/vh_common.h + vh_c32.cpp",
        "specifications are hand-written: sh_words (POSIX XCU 2.2/2.6.5/2.6.7 without expansions), shlex_quote (CPython shlex.quote), "
        "cmake_quote (cmOutputConverter Unix shell), gcc_toks (GCC driver: which words are -I/-D/-U/-isystem/-std= options; table of two-word options), "
        "gcc_macros (cpp: -D/-U in order, last wins); they are validated on every run against the real /bin/sh, Python shlex and gcc -E",
        "modelled, not verified: lib/importproject.cpp collectArgs/parseArgs/fsSetDefines/fsSetIncludePaths/importCompileCommands (non-Windows), "
        "simplecpp::simplifyPath, and the consumer's reading of (defines, undefs) in simplecpp preprocess() (cfg_macros)",
        "picojson parsing of the database text and Path::acceptFile are outside the model (exercised through the harness/binary only)",
    ]
    run.assumptions += ["g++ compiles /repo faithfully", "GCC/Clang option grammar as in two_word (Import/Spec.v)"]
    run.extra["rule"] = ("collectArgs: commands produced from generated argument vectors by shlex/CMake/all-double-quote/backslash/mixed quoting (55%), "
                         "one-byte mutations of those (10%), random strings over {a b space \" ' \\ - D I $ tab nl ` ; x NUL} (35%); non-trivial = contains a quote or backslash, distinct. "
                         "parseArgs: vectors of 0-8 items over -D/-U/-I/-isystem/-std= joined|separate|/X forms, flags, two-word options, files, with irregularity "
                         "0/15/40% (option-like operands, bare options, empty words); non-trivial = more than argv[0], distinct; bucket = whether the theorem's hypothesis holds. "
                         "fsSetDefines: strings over {A B = ( ; % 1 ) x} and ';' joined macro lists. paths: 0-7 components over {a b .. . '' a. .b ..c c:}. "
                         "X2: databases of 30 (quick) / 40 (thorough) entries over existing probe sources; vectors of 0-7 options over -D/-U (pool X Y NDEBUG _F FN(a) A1, "
                         "values '' =1 =2 =abc = =0), -I/-isystem (4 existing dirs + variants), -std=, flags, -o/-MF/-MT, irregularity 0/5/15%; half as arguments, half as "
                         "command strings in 5 quoting styles; the 7 witnesses of the *_refuted theorems are the first entries; non-trivial = distinct entry.")

    vlib.ensure_repo_build()
    ok = run.prove()
    model = vlib.build_model(PID) if ok or os.path.exists(os.path.join(vlib.COQ, "theories/Import/Run.vo")) else None
    if not ok:
        run.violation("proof:" + PID, "Properties_C32.vo does not build: " + str(run.proof_error())[:300],
                      {"broken": "proof", "detail": run.proof_error()}, found_input=False)
    if model is None:
        return
    vh = vlib.build_harness(PID)
    x1(run, model, vh, quick)
    sh_validation(run, model, quick)
    x2(run, model, quick)


if __name__ == "__main__":
    vlib.main(check, PID)
