#!/usr/bin/env python3
"""C10  Literal and constant values match the compiler on each platform.

translate:  tools/translate/platforms.py: lib/platform.cpp Platform::set + platforms/*.xml -> Lit/Gen_Platforms.v
prove:      coq/theories/Properties_C10.v (integer-literal grammar -> value, classifier branch per base,
            rejection at 2^64, character literals, platform table sanity, sizeof)
correspond: extracted model (Lit/Run.v) vs harness/vh_c10.cpp on the real MathLib::is*/toBigNumber/toBigUNumber,
            isCharLiteral, simplecpp::characterLiteralToLL, strtoull, Platform::set (X1);
            generated C files through `cppcheck --dump --platform=...` vs the model (X2)
search:     a disagreement on a grammar literal is checked against the value sum d_i*b^i itself; other
            disagreements are put to gcc (_Static_assert) as the external judge.
"""
import hashlib
import os
import shutil
import sys
import tempfile

sys.path.insert(0, os.path.dirname(os.path.dirname(os.path.abspath(__file__))))
import vlib
from props import lit_common as G
from translate import platforms as TP

PID = "C10"
ERRKIND = [(b"out_of_range", b"e1"), (b"invalid_argument", b"e2"), (b"not completely consumed", b"e3"),
           (b"characterLiteralToLL", b"e4")]


def canon_big(o):
    if o and o[0] == "!exc":
        if b"toDoubleNumber" in o[1]:
            return [b"f"]          # the isFloat branch (not modelled, never compared)
        for pat, k in ERRKIND:
            if pat in o[1]:
                return [k]
        return [b"e?" + o[1][:40]]
    if len(o) == 2 and o[1] == b"1":
        return [b"f"]
    if o and o[0][:1] == b"e":
        return [o[0]]
    return o


def canon_char(o):
    if o and o[0] == "!exc":
        return [b"e"]
    return o


def wrap64s(v):
    v %= 2 ** 64
    return v - 2 ** 64 if v >= 2 ** 63 else v


def check(run, replay):
    quick = run.tier == "quick"
    rng = run.rng
    run.trusted_base += [
        "Coq 8.16.1 kernel (coqc); vm_compute on the regenerated finite platform table and in non-vacuity Examples only",
        "extraction: Require Extraction + ExtrOcamlBasic only; ocaml/driver.ml (I/O)",
        "harness/vh_common.h + vh_c10.cpp (decode a case, call MathLib::isInt/isIntHex/isOct/isBin/isDec/isFloat/isDecimalFloat/isFloatHex/"
        "isValidIntegerSuffix/toBigNumber/toBigUNumber, isCharLiteral, simplecpp::characterLiteralToLL, std::strtoull, Platform::set)",
        "modelled, not verified: lib/mathlib.cpp (those functions), lib/utils.h isCharLiteral, externals/simplecpp/simplecpp.cpp "
        "characterLiteralToLL + stringToULLbounded; std::stoull/strtoull by ISO C 7.22.1.4 (model tied to glibc's strtoull by the `strto` stream)",
        "tools/translate/platforms.py (regex over Platform::set and loadFromXmlDocument, ElementTree over platforms/*.xml)",
        "not modelled: MathLib::toDoubleNumber (floating values are never compared; only the float classifiers are), "
        "digit separators (removed by the tokenizer before MathLib sees the token)",
    ]
    run.assumptions += ["g++ compiles /repo faithfully", "host char is signed and int is 32 bits (characterLiteralToLL casts through the host's char/int)"]
    run.extra["rule"] = (
        "literals: grammar (Lit/Spec.v) base{2,8,10,16} x 41 suffix spellings x digit count 1-25 (binary 1-70) x leading zeros x letter case, "
        "boundaries 2^7,2^8,2^15,2^16,2^31,2^32,2^63,2^64 each -1/0/+1, values in [2^64,2^90); malformed: random strings over a 48-symbol "
        "alphabet len 0-7, one/two-edit mutants of grammar literals, bad/odd suffixes, leading sign/whitespace, float look-alikes. "
        "non-trivial = distinct string (classify: accepted by at least one classifier; tobig: distinct (branch,result class)). "
        "charlit: prefix x 0-9 items of {plain, simple escape, octal 1-4, hex 1-17, \\u/\\U with 3-9 digits, UTF-8 valid/invalid, strtoull quirks, raw quote/newline}; "
        "X2: generated C files through cppcheck --dump per platform; non-trivial = distinct (platform, expression).")

    vlib.ensure_repo_build()
    # ---- T
    try:
        plats = TP.translate(vlib.REPO, os.path.join(vlib.COQ, "theories", "Lit", "Gen_Platforms.v"))
        run.extra["platforms_translated"] = len(plats)
    except Exception as e:  # translator must fail loudly
        run.violation("translate:platforms", "platform translator failed: %s" % e, {"broken": "translator", "detail": str(e)}, found_input=False)
        plats = []
    ok = run.prove(extra_targets=["theories/Lit/Run.vo", "theories/TypeConv/Run.vo"])
    model = vlib.build_model(PID) if ok or os.path.exists(os.path.join(vlib.COQ, "theories/Lit/Run.vo")) else None
    if not ok:
        run.violation("proof:" + PID, "Properties_C10.vo does not build: " + str(run.proof_error())[:300],
                      {"broken": "proof", "detail": run.proof_error()}, found_input=False)
    if model is None:
        return
    vh = vlib.build_harness(PID)

    # ---- X1.a grammar literals
    lits = G.grammar_literals(rng, quick)
    lits = list({l[0]: l for l in lits}.values())
    # the generator's value is the specification's value (Lit/Spec.v value_of_digits), checked on a sample
    spec_check(run, model, rng, lits)
    good = [l[0] for l in lits]
    cases = [[l[0]] for l in lits]
    meta = {l[0]: l for l in lits}

    def b_big(c, m, i):
        l = meta.get(c[0])
        cls = "err" if m and m[0][:1] == b"e" else "float" if m == [b"f"] else "neg" if m and m[0][:1] == b"-" else "val"
        if l:
            return "base%d,%s,%s" % (l[2], "ge2^64" if l[1] >= 2 ** 64 else "ge2^63" if l[1] >= 2 ** 63 else "ge2^32" if l[1] >= 2 ** 32 else "small", cls)
        return "malformed," + cls

    for cmd in ("tobig", "tobigu"):
        diffs = vlib.correspond(run, cmd + ":grammar", model, [vh, cmd], cases, tag=cmd, canon=canon_big,
                                nontrivial=lambda c, m, i: c[0], bucket=b_big)
        judge_grammar(run, cmd, diffs, meta)
        # the spec directly on the implementation, for every grammar literal (not only disagreements)
    spec_on_impl(run, vh, lits)

    # ---- X1.b malformed + float look-alikes
    n = 4000 if quick else 300000
    mal = [G.malformed(rng, good) for _ in range(n)] + G.FLOATS + [b"", b"+", b"-", b"0", b"00", b"0u", b"-0", b"+0x1", b"-0b1", b"-017"]
    mal = [m for m in dict.fromkeys(mal) if b"\n" not in m or True]
    mcases = [[m] for m in mal]
    diffs = vlib.correspond(run, "classify", model, [vh, "classify"], mcases + cases, tag="classify",
                            nontrivial=lambda c, m, i: c[0] if b"1" in m else None,
                            bucket=lambda c, m, i: "".join(x.decode() for x in m))
    judge_other(run, "classify", diffs)
    for cmd in ("tobig", "tobigu"):
        diffs = vlib.correspond(run, cmd + ":malformed", model, [vh, cmd], mcases, tag=cmd, canon=canon_big,
                                nontrivial=lambda c, m, i: c[0], bucket=b_big)
        judge_other(run, cmd, diffs)

    # ---- X1.c suffix machine
    sf = G.gen_suffix_strings(rng, quick)
    scases = [[s, ms] for s in sf for ms in (b"1", b"0")]
    diffs = vlib.correspond(run, "isValidIntegerSuffix", model, [vh, "suffix"], scases, tag="suffix",
                            nontrivial=lambda c, m, i: (c[0], c[1]), bucket=lambda c, m, i: "len%d,%s" % (len(c[0]), m[0].decode() if m else "?"))
    judge_other(run, "suffix", diffs)

    # ---- X1.d character literals
    n = 4000 if quick else 200000
    cl = {}
    for _ in range(n):
        s, k = G.gen_charlit(rng)
        cl.setdefault(s, k)
    ccases = [[s] for s in cl]
    diffs = vlib.correspond(run, "characterLiteralToLL", model, [vh, "charlit"], ccases, tag="charlit", canon=canon_char,
                            nontrivial=lambda c, m, i: c[0],
                            bucket=lambda c, m, i: "%s,n%d,%s" % (cl[c[0]][0] or "narrow", cl[c[0]][1], "err" if m == [b"e"] else "val"))
    judge_other(run, "charlit", diffs)
    diffs = vlib.correspond(run, "toBigNumber:charlit", model, [vh, "tobig"], ccases, tag="tobig", canon=canon_big,
                            nontrivial=lambda c, m, i: c[0], bucket=lambda c, m, i: "err" if m and m[0][:1] == b"e" else "val")
    judge_other(run, "tobig", diffs)

    # ---- X1.e strtoull (the C library function behind std::stoull / stringToULLbounded)
    n = 3000 if quick else 100000
    st = []
    for _ in range(n):
        base = rng.choice([8, 10, 16])
        k = rng.random()
        if k < 0.5:
            s = G.malformed(rng, good)
        elif k < 0.8:
            v = rng.choice([2 ** 64 - 1, 2 ** 64, 2 ** 64 + 1, 2 ** 63, rng.randrange(2 ** 70)])
            s = rng.choice([b"", b"-", b"+", b" ", b"0x", b"0X", b" -0x"]) + G.spell_digits(rng, G.to_digits(v, base)) + rng.choice([b"", b"u", b"g", b"'", b"x1"])
        else:
            s = bytes(rng.choices(b"0123456789abcdefxX+- \t'", k=rng.randint(0, 6)))
        if b"\x00" not in s:
            st.append([str(base).encode(), s])
    diffs = vlib.correspond(run, "strtoull", model, [vh, "strto"], st, tag="strto",
                            nontrivial=lambda c, m, i: (c[0], c[1]),
                            bucket=lambda c, m, i: "base%s,%s" % (c[0].decode(), "noconv" if m and m[0] == b"0" else "erange" if m and m[1] == b"1" else "ok"))
    judge_other(run, "strtoull (C library contract used by the model)", diffs)

    # ---- X1.f platform table: the real Platform::set / XML loader vs the translated table
    pdir = os.path.dirname(vlib.CPPCHECK)
    pc = [[p["name"].encode(), pdir.encode()] for p in plats]
    diffs = vlib.correspond(run, "Platform::set", model, [vh, "sizeof"], pc, tag="sizeof",
                            nontrivial=lambda c, m, i: c[0], bucket=lambda c, m, i: "ok" if m == i else "diff")
    # ---- X2 end to end on the real binary
    x2_end_to_end(run, model, plats, lits)

    for c, m, i in diffs:
        run.violation("platform-table:" + c[0].decode(), "Platform::set(%s) gives %s but the translated table has %s" % (c[0].decode(), vlib.show(i), vlib.show(m)),
                      {"broken": "translator/loader", "platform": c[0].decode(), "impl": vlib.show(i), "table": vlib.show(m)}, found_input=False)


CAST_TYPES = [("signed char", "TChar", True), ("unsigned char", "TChar", False), ("short", "TShort", True),
              ("unsigned short", "TShort", False), ("int", "TInt", True), ("unsigned int", "TInt", False),
              ("long", "TLong", True), ("unsigned long", "TLong", False), ("long long", "TLongLong", True)]
SIZEOF_TYPES = [("char", 1), ("signed char", 1), ("unsigned char", 1), ("short", "sizeof_short"), ("unsigned short", "sizeof_short"),
                ("int", "sizeof_int"), ("unsigned int", "sizeof_int"), ("long", "sizeof_long"), ("unsigned long", "sizeof_long"),
                ("long long", "sizeof_long_long"), ("unsigned long long", "sizeof_long_long"), ("float", "sizeof_float"),
                ("double", "sizeof_double"), ("long double", "sizeof_long_double"), ("void *", "sizeof_pointer"),
                ("char *", "sizeof_pointer"), ("int **", "sizeof_pointer")]
SZFIELD = {"TChar": 1, "TShort": "sizeof_short", "TInt": "sizeof_int", "TLong": "sizeof_long", "TLongLong": "sizeof_long_long"}
CHAR_BODIES = [b"a", b"Z", b"0", b" ", b"\\n", b"\\t", b"\\0", b"\\\\", b"\\'", b"\\\"", b"\\a", b"\\x41", b"\\x7f", b"\\x80", b"\\xff", b"\\xe9",
               b"\\x0ff", b"\\x041", b"\\101", b"\\177", b"\\200", b"\\377", b"\\e", b"ab", b"a\\n", b"\\xff\\xff", b"abcd", b"\\0a"]


def x2_end_to_end(run, model, plats, lits):
    """generated C / C++ files through the real `cppcheck --dump --platform=P`; Known values on the
    initializer expressions vs the model (literals, character tokens, sizeof, casts) and vs C semantics
    (unsigned arithmetic, range of the expression's type)."""
    quick = run.tier == "quick"
    rng = run.rng
    names = ["unix64", "unix32", "win64", "avr8", "arm32-wchar_t4"] if quick else [p["name"] for p in plats]
    byname = {p["name"]: p for p in plats}
    c_suffixes = [b"", b"u", b"U", b"l", b"L", b"ul", b"LU", b"ll", b"LL", b"ull", b"LLU", b"uLL"]
    pool = [l for l in lits if l[1] < 2 ** 63 and any(l[0].endswith(s) for s in c_suffixes[1:]) or (l[1] < 2 ** 63 and l[0][-1:] in b"0123456789abcdefABCDEF")]
    pool = [l for l in pool if not l[0].lower().endswith((b"z", b"zu", b"uz", b"i64"))]
    wd = tempfile.mkdtemp(prefix="c10x2_")
    try:
        sizeof_oracle(run, plats, wd)
        try:
            spec_model = vlib.build_model("C09")        # the extracted ISO C conversion rules (TypeConv/Spec.v)
        except vlib.BuildError as e:
            spec_model = None
            run.violation("build:C09-spec", "the C09 specification binary does not build: %s" % str(e)[:200], {"broken": "build"}, found_input=False)
        for pname in names:
            if spec_model and pname in byname:
                mixed_operands(run, spec_model, wd, byname[pname], rng, quick)
        for pname in names:
            p = byname.get(pname)
            if p is None:
                continue
            ib = 8 * p["sizeof_int"]
            for cpp in (False, True):
                cases = []      # (kind, text, expectation-producer)
                if not cpp:
                    ppool = [l for l in pool if l[1] < 2 ** (8 * p["sizeof_long_long"] - 1)]     # must fit the platform's long long, else no compiler value exists
                    for l in rng.sample(ppool, min(len(ppool), 60 if quick else 400)):
                        cases.append(("literal", l[0].decode(), ("value", l[1])))
                    for t, f in SIZEOF_TYPES:
                        cases.append(("sizeof", "sizeof(%s)" % t, ("value", f if isinstance(f, int) else p[f])))
                    for t, st, sg in CAST_TYPES:
                        for v in [0, 1, 127, 128, 200, 255, 256, 300, 32767] + [rng.randrange(32768) for _ in range(2)]:
                            for neg in (False, True):
                                cases.append(("cast", "(%s)%s%d" % (t, "-" if neg else "", v), ("cast", -v if neg else v, SZFIELD[st] if isinstance(SZFIELD[st], int) else p[SZFIELD[st]], sg)))
                        for v in [65535, 65536, 70000, 2 ** 31 - 1, 2 ** 31, 2 ** 32 - 1, 2 ** 32, 2 ** 40 + 123, rng.randrange(2 ** 62)]:
                            cases.append(("cast", "(%s)%dLL" % (t, v), ("cast", v, SZFIELD[st] if isinstance(SZFIELD[st], int) else p[SZFIELD[st]], sg)))
                    um = 2 ** ib
                    for _ in range(40 if quick else 300):
                        a = rng.choice([0, 1, 2, um - 1, um - 2, um // 2, um // 2 + 1, rng.randrange(um), rng.randrange(256)])
                        b = rng.choice([0, 1, 2, um - 1, um // 2, rng.randrange(um), rng.randrange(1, 256)])
                        op = rng.choice(["+", "-", "*", "/", "%", "&", "|", "^"])
                        if op in "/%" and b == 0:
                            b = 3
                        r = {"+": a + b, "-": a - b, "*": a * b, "/": a // b if b else 0, "%": a % b if b else 0, "&": a & b, "|": a | b, "^": a ^ b}[op] % um
                        cases.append(("uarith", "%du %s %du" % (a, op, b), ("uarith", r, op, (a, b))))
                for body in CHAR_BODIES:
                    if nchars(body) > p["sizeof_int"]:
                        continue        # more characters than an int holds: implementation-defined beyond what gcc/clang agree on
                    cases.append(("char", "'" + body.decode() + "'", ("cchar", body)))
                ext = "cpp" if cpp else "c"
                path = os.path.join(wd, "x2_%s.%s" % (pname.replace("-", "_"), ext))
                with open(path, "w") as f:
                    for i, (kind, text, exp) in enumerate(cases):     # one case per line, line i+1
                        # `return`: no binary parent, so no implicit conversion is applied to the expression's value
                        f.write("long long f%d(void) { return %s ; }\n" % (i, text))
                rc, out = G.run_cppcheck(vlib.CPPCHECK, path, platform=pname, extra=["--std=c++17"] if cpp else [])
                try:
                    cfgs = G.parse_dump(path + ".dump")
                except Exception as e:
                    run.violation("x2:dump:" + pname, "no dump for platform %s: %s %s" % (pname, e, out[-300:]), {"broken": "dump", "platform": pname}, found_input=False)
                    continue
                toks, vals = cfgs[0]
                byid = {t["id"]: t for t in toks}
                got = {}
                for t in toks:
                    if t["str"] == "return" and t.get("astOperand1") and t.get("file", "").endswith(os.path.basename(path)):
                        r = byid[t["astOperand1"]]
                        got[int(t["linenr"]) - 1] = (G.known_int(r, vals), r.get("valueType-type"), r.get("valueType-sign"))
                # model expectations in one batch
                mlines = []
                for kind, text, exp in cases:
                    if exp[0] == "cast":
                        mlines.append(vlib.enc_case([b"cast", str(exp[1]).encode(), str(exp[2]).encode(), b"1" if exp[3] else b"0"]))
                    elif exp[0] == "cchar":
                        mlines.append(vlib.enc_case([b"cchar", pname.encode(), b"1" if cpp else b"0", ("'" + exp[1].decode() + "'").encode()]))
                    else:
                        mlines.append(vlib.enc_case([b"classify", b"0"]))
                rc, mo, me = vlib.run_lines([model], mlines)
                for i, ((kind, text, exp), ml) in enumerate(zip(cases, mo)):
                    impl = got.get(i, (None, None, None))
                    mf = vlib.dec_line(ml)
                    if exp[0] in ("value", "uarith"):
                        want = exp[1]
                    elif mf and mf[0] not in (b"e", b"B"):
                        want = int(mf[0])
                    else:
                        want = None
                    stream = "x2:" + kind + (":cpp" if cpp else "")
                    if impl[0] is None:
                        run.count(stream, None, bucket=pname + ",no-known-value")
                        continue
                    run.count(stream, None, nontrivial=(pname, text), bucket=pname + ("" if want == impl[0] else ",diff"))
                    where = {"platform": pname, "language": ext, "expression": text, "cppcheck_known_value": impl[0], "expected": want,
                             "type": "%s %s" % (impl[2], impl[1]),
                             "how": "echo 'long long f(void){ return %s ; }' > t.%s && %s --dump -q --platform=%s t.%s  # Known value of the initializer" % (text, ext, vlib.CPPCHECK, pname, ext)}
                    # the value must be representable in the expression's type on this platform
                    bits = {"char": 8, "short": 8 * p["sizeof_short"], "int": ib, "long": 8 * p["sizeof_long"], "long long": 8 * p["sizeof_long_long"]}.get(impl[1])
                    out_of_type = False
                    if bits and bits < 64 and impl[2] in ("signed", "unsigned"):
                        lo, hi = (0, 2 ** bits - 1) if impl[2] == "unsigned" else (-2 ** (bits - 1), 2 ** (bits - 1) - 1)
                        out_of_type = not (lo <= impl[0] <= hi)
                    if want is not None and impl[0] != want:
                        if kind == "uarith" and exp[2] in ("*",):
                            run.violation("unsigned-same-sign-fold", "%s on %s: Known %d, C value %d (unsigned '*' is folded in 64 bits and not reduced)" % (text, pname, impl[0], want), where)
                        else:
                            run.violation("x2:%s:%s:%s" % (kind, pname, text), "%s on %s (%s): cppcheck reports Known %d, the value is %d" % (text, pname, ext, impl[0], want), where)
                    elif out_of_type:
                        key = "x2:range:%s:%s" % (pname, text)
                        run.violation(key, "%s on %s: Known %d is outside the range of its type %s %s" % (text, pname, impl[0], impl[2], impl[1]), where)
                    # the specification for one-character narrow literals: the platform's plain char
                    if kind == "char" and want is not None:
                        v1 = single_char_byte(exp[1])
                        if v1 is not None:
                            spec = v1 if (p["defaultSign"] == ord("u") or v1 < 128) else v1 - 256
                            run.count("x2:char-spec", None, nontrivial=(pname, text, cpp), bucket="%s,%s" % (pname, "ok" if spec == impl[0] else "diff"))
                            if spec != impl[0]:
                                run.violation("x2:charspec:%s:%s" % (pname, text),
                                              "%s in a .%s file on %s (plain char %s): Known %d, the value is %d" % (text, ext, pname, "unsigned" if p["defaultSign"] == ord("u") else "signed", impl[0], spec),
                                              dict(where, expected=spec, oracle="clang -target armv7-linux-gnueabihf / gcc -funsigned-char: _Static_assert('\\xff' == 255)"))
    finally:
        shutil.rmtree(wd, ignore_errors=True)


# C type index as in tools/props/c09.py / TypeConv/Run.v
MIX_TYPES = [(1, "signed char", "sizeof_char", True), (2, "unsigned char", "sizeof_char", False), (4, "short", "sizeof_short", True),
             (5, "unsigned short", "sizeof_short", False), (6, "int", "sizeof_int", True), (7, "unsigned int", "sizeof_int", False),
             (8, "long", "sizeof_long", True), (9, "unsigned long", "sizeof_long", False), (10, "long long", "sizeof_long_long", True),
             (11, "unsigned long long", "sizeof_long_long", False)]
MIX_OPS = ["<", ">", "<=", ">=", "==", "!=", "+", "-", "*", "/", "%"]


def code_rule_takes_left_sign(p, info, ia, ib_):
    """the branch `else if (n1 > n2 || type1 != type2) sign = sign1` of truncateImplicitConversion with n1 == n2"""
    enum = {1: 0, 2: 0, 4: 1, 5: 1, 6: 2, 7: 2, 8: 3, 9: 3, 10: 4, 11: 4}

    def code_view(i):
        n, sg, ty = info[i][1] // 8, info[i][2], enum[i]
        if n < p["sizeof_int"]:
            return p["sizeof_int"], True, 2
        return n, sg, ty
    (n1, s1, t1), (n2, s2, t2) = code_view(ia), code_view(ib_)
    return (n1 == n2 and t1 != t2 and s1 != s2), s1


def conv(v, bits, signed):
    v %= 2 ** bits
    return v - 2 ** bits if signed and v >= 2 ** (bits - 1) else v


def mixed_operands(run, spec_model, wd, p, rng, quick):
    """`(TA)(x) OP (TB)(y)` for every pair of integer types, comparisons and arithmetic, negative operands
    included, through `cppcheck --dump --platform=P`; the Known value is judged by C semantics for the
    platform: operands converted to their cast types, integer promotions and usual arithmetic conversions
    from the extracted specification TypeConv/Spec.v (`spec` tag of the C09 model binary), arithmetic in the
    common type (unsigned: modulo 2^N; signed overflow, division by zero: skipped as undefined)."""
    pname = p["name"]
    bits = lambda f: 8 * (1 if f == "sizeof_char" else p[f])
    info = {i: (name, bits(f), sg) for i, name, f, sg in MIX_TYPES}
    vals = [0, 1, 2, 3, 127, 128, 255, 256, 32767, -1, -2, -128, -129, -32767]
    cases = []
    for ia, na, fa, sa in MIX_TYPES:
        for ib_, nb, fb, sb in MIX_TYPES:
            for op in MIX_OPS:
                pairs = [(rng.choice(vals), -1), (rng.choice(vals), rng.choice(vals))]
                if quick and op in ("+", "-", "*", "/", "%"):
                    pairs = pairs[1:] if rng.random() < 0.5 else pairs[:1]
                if not quick:
                    pairs += [(-1, rng.choice(vals)), (rng.choice(vals), rng.choice(vals))]
                for x, y in pairs:
                    cases.append((ia, ib_, op, x, y))
    # the common type of every pair from the Coq specification
    pairs = sorted({(c[0], c[1]) for c in cases})
    rc, so, se = vlib.run_lines([spec_model], [vlib.enc_case([b"spec", b"0", pname.encode(), b"0", str(a).encode(), str(b).encode()]) for a, b in pairs])
    common = {}
    for (a, b), line in zip(pairs, so):
        f = vlib.dec_line(line)
        common[(a, b)] = int(f[0]) if f and f[0].isdigit() else None
    path = os.path.join(wd, "m_%s.c" % pname.replace("-", "_"))
    with open(path, "w") as f:
        for i, (ia, ib_, op, x, y) in enumerate(cases):
            f.write("long long f%d(void) { return (%s)(%d) %s (%s)(%d) ; }\n" % (i, info[ia][0], x, op, info[ib_][0], y))
    rc, out = G.run_cppcheck(vlib.CPPCHECK, path, platform=pname)
    try:
        toks, vs = G.parse_dump(path + ".dump")[0]
    except Exception as e:
        run.violation("x2:dump:mixed:" + pname, "no dump for %s: %s" % (pname, e), {"broken": "dump", "platform": pname}, found_input=False)
        return
    byid = {t["id"]: t for t in toks}
    got = {}
    for t in toks:
        if t["str"] == "return" and t.get("astOperand1"):
            got[int(t["linenr"]) - 1] = G.known_int(byid[t["astOperand1"]], vs)
    for i, (ia, ib_, op, x, y) in enumerate(cases):
        text = "(%s)(%d) %s (%s)(%d)" % (info[ia][0], x, op, info[ib_][0], y)
        T = common.get((ia, ib_))
        if T is None or T not in info:
            continue
        a1, b1 = conv(x, info[ia][1], info[ia][2]), conv(y, info[ib_][1], info[ib_][2])
        tb, ts = info[T][1], info[T][2]
        a2, b2 = conv(a1, tb, ts), conv(b1, tb, ts)
        want = None
        if op in ("<", ">", "<=", ">=", "==", "!="):
            want = int({"<": a2 < b2, ">": a2 > b2, "<=": a2 <= b2, ">=": a2 >= b2, "==": a2 == b2, "!=": a2 != b2}[op])
        elif op in "/%" and b2 == 0:
            want = None
        else:
            if op == "/":
                q = abs(a2) // abs(b2)
                r = q if (a2 < 0) == (b2 < 0) else -q
            elif op == "%":
                q = abs(a2) // abs(b2)
                r = a2 - (q if (a2 < 0) == (b2 < 0) else -q) * b2
            else:
                r = {"+": a2 + b2, "-": a2 - b2, "*": a2 * b2}[op]
            if ts:
                want = r if -2 ** (tb - 1) <= r < 2 ** (tb - 1) else None     # signed overflow: undefined
            else:
                want = r % 2 ** tb
        impl = got.get(i)
        kind = "cmp" if op in ("<", ">", "<=", ">=", "==", "!=") else "arith"
        if want is None or impl is None:
            run.count("x2:mixed", None, bucket="%s,%s,%s" % (pname, kind, "undefined" if want is None else "no-known-value"))
            continue
        # values of 64-bit unsigned expressions >= 2^63 are reported in two's complement (bigint)
        same = impl == want or (not ts and tb == 64 and kind == "arith" and impl == conv(want, 64, True))
        run.count("x2:mixed", None, nontrivial=(pname, text), bucket="%s,%s,%s" % (pname, kind, "ok" if same else "diff"))
        if same:
            continue
        where = {"platform": pname, "expression": text, "cppcheck_known_value": impl, "expected": want,
                 "common_type": info[T][0], "operands_after_conversion": [a2, b2],
                 "how": "echo 'long long f(void){ return %s ; }' > t.c && %s --dump -q --platform=%s t.c  # Known value of the returned expression" % (text, vlib.CPPCHECK, pname)}
        # promoted operand types (index, bits, signed) by the platform's representability rule
        def promoted(i):
            if i >= 6:
                return i, info[i][1], info[i][2]
            ibits = 8 * p["sizeof_int"]
            fits_int = info[i][1] < ibits or (info[i][2] and info[i][1] <= ibits)
            return (6, ibits, True) if fits_int else (7, ibits, False)
        pa, pb = promoted(ia), promoted(ib_)
        if not ts and tb == 64 and (a2 >= 2 ** 63 or b2 >= 2 ** 63 or want >= 2 ** 63):
            key = "u64-above-int64"
        elif op == "*" and not ts:
            key = "unsigned-same-sign-fold"
        elif op in "/%" and (y <= 0 or b2 <= 0 or b1 <= 0):
            key = "div-mod-nonpositive-divisor"
        elif code_rule_takes_left_sign(p, info, ia, ib_)[0] and (code_rule_takes_left_sign(p, info, ia, ib_)[1] or kind == "arith"):
            # truncateImplicitConversion: operands of equal size (after its by-size promotion) but different
            # enumerator type and different signs get the LEFT operand's sign; wrong whenever that is the signed
            # one, and for arithmetic also with an unsigned left operand (the expression is typed signed, C09)
            key = "mixed-equal-size-different-rank"
        elif kind == "arith" and ((ia < 6 and pa[0] == 7) or (ib_ < 6 and pb[0] == 7)):
            # an unsigned operand below int as wide as int: the expression is typed signed int (C09) and not reduced
            key = "unsigned-promotion-equal-width-arith"
        else:
            key = "x2:mixed:%s:%s" % (pname, text)
        run.violation(key, "%s on %s: cppcheck reports Known %d, the value is %d (common type %s)" % (text, pname, impl, want, info[T][0]), where)


def nchars(body):
    n, i = 0, 0
    while i < len(body):
        if body[i:i + 1] == b"\\":
            i += 2
            while i < len(body) and body[i:i + 1] in b"0123456789abcdefABCDEF" and body[i - 1:i] != b"\\" and (body[i - 2:i - 1] == b"\\" or body[i - 1:i] in b"0123456789abcdefABCDEFx"):
                i += 1
        else:
            i += 1
        n += 1
    return n


def sizeof_oracle(run, plats, wd):
    """the translated table against compilers for the targets that name one: gcc -m64/-m32 (unix64/unix32),
    clang -target x86_64/i686-pc-windows-msvc (win64/win32A/win32W)"""
    targets = {"unix64": ["gcc", "-m64"], "unix32": ["gcc", "-m32"],
               "win64": ["clang", "-target", "x86_64-pc-windows-msvc"], "win32A": ["clang", "-target", "i686-pc-windows-msvc"],
               "win32W": ["clang", "-target", "i686-pc-windows-msvc"]}
    byname = {p["name"]: p for p in plats}
    types = [("short", "sizeof_short"), ("int", "sizeof_int"), ("long", "sizeof_long"), ("long long", "sizeof_long_long"),
             ("float", "sizeof_float"), ("double", "sizeof_double"), ("void *", "sizeof_pointer"), ("__SIZE_TYPE__", "sizeof_size_t"),
             ("__WCHAR_TYPE__", "sizeof_wchar_t"), ("_Bool", "sizeof_bool")]
    for name, cc in targets.items():
        p = byname.get(name)
        if p is None:
            continue
        with open(os.path.join(wd, "probe.c"), "w") as f:
            f.write("int x;\n")
        if not G.have(cc + ["-fsyntax-only", os.path.join(wd, "probe.c")]):
            run.notes.append("oracle %s not available" % " ".join(cc))
            continue
        exprs = ["sizeof(%s) == %d" % (t, p[f]) for t, f in types] + ["(char)-1 %s 0" % ("<" if p["defaultSign"] == ord("s") else ">")]
        res = G.gcc_static_asserts(cc + ["-std=gnu11"], exprs, wd)
        for e, r in zip(exprs, res):
            run.count("platform-table-vs-compiler", None, nontrivial=(name, e), bucket="%s,%s" % (name, r))
            if r is False:
                run.violation("platform-table:%s:%s" % (name, e), "platform %s: the table says %s, %s disagrees" % (name, e, " ".join(cc)),
                              {"input": {"platform": name, "fact": e}, "oracle": " ".join(cc),
                               "how": "echo '_Static_assert(%s, \"x\");' | %s -std=gnu11 -fsyntax-only -x c -   # and: cppcheck --platform=%s on `int v = sizeof(...)`" % (e, " ".join(cc), name)})


def single_char_byte(body):
    """byte value of a one-character body written as a plain char, \\xHH, \\ooo or a simple escape; else None"""
    simple = {b"n": 10, b"t": 9, b"0": 0, b"\\": 92, b"'": 39, b'"': 34, b"a": 7, b"e": 27}
    if len(body) == 1:
        return body[0]
    if body[:2] == b"\\x" and 3 <= len(body) <= 5:
        return int(body[2:], 16)
    if body[:1] == b"\\" and len(body) == 4 and body[1:].isdigit():
        return int(body[1:], 8)
    if body[:1] == b"\\" and len(body) == 2 and body[1:] in simple:
        return simple[body[1:]]
    return None


def spec_check(run, model, rng, lits):
    """python's value of a generated literal == Lit/Spec.v value_of_digits (extracted), on a sample"""
    sample = rng.sample(lits, min(300, len(lits)))
    lines, exp = [], []
    for s, v, base, nd in sample:
        pre = G.PREFIX[base]
        body = s
        for p in sorted(pre, key=len, reverse=True):
            if p and body.startswith(p):
                body = body[len(p):]
                break
        digs = []
        for ch in body[:nd]:
            digs.append(ch - 48 if ch < 58 else (ch | 32) - 87)
        lines.append(vlib.enc_case([b"genlit", str(base).encode(), bytes(digs), b""]))
        exp.append(v)
    rc, out, err = vlib.run_lines([model], lines)
    bad = 0
    for l, e in zip(out, exp):
        f = vlib.dec_line(l)
        if len(f) != 2 or int(f[1]) != e:
            bad += 1
    run.extra["generator_value_vs_spec_checked"] = len(exp)
    if bad:
        run.violation("generator:value", "the generator's literal value differs from Lit/Spec.v value_of_digits on %d samples" % bad,
                      {"broken": "generator"}, found_input=False)


def spec_on_impl(run, vh, lits):
    """the property itself on the implementation: toBigNumber(spelling) = wrap64s(sum d_i b^i) if < 2^64,
    InternalError(out_of_range) otherwise (binary: wraps, documented)"""
    rc, out, err = vlib.run_lines([vh, "tobig"], [vlib.enc_case([l[0]]) for l in lits])
    if len(out) != len(lits):
        run.violation("harness:died", "vh_c10 tobig died", {"stderr": err[-500:]}, found_input=False)
        return
    shown = 0
    for (s, v, base, nd), line in zip(lits, out):
        o = canon_big(vlib.dec_line(line))
        if v < 2 ** 64:
            want = [str(wrap64s(v)).encode(), b"0"]
        elif base == 2:
            want = [str(wrap64s(v)).encode(), b"0"]
        else:
            want = [b"e1"]
        run.count("spec-on-impl", None, nontrivial=s, bucket="base%d,%s" % (base, "ge2^64" if v >= 2 ** 64 else "lt2^64"))
        if o != want and shown < 3:
            shown += 1
            run.violation("literal:%s" % s.decode("latin-1"),
                          "MathLib::toBigNumber(%r) = %s but the literal's value is %d (expected %s)" % (s.decode("latin-1"), vlib.show(o), v, vlib.show(want)),
                          {"input": {"literal": s.decode("latin-1"), "base": base, "value": v}, "impl": vlib.show(o), "spec": vlib.show(want),
                           "how": "echo '%s' | build/harness/vh_c10 tobig" % vlib.enc_case([s])})


def judge_grammar(run, cmd, diffs, meta):
    for c, m, i in sorted(diffs, key=lambda d: len(d[0][0]))[:3]:
        l = meta[c[0]]
        run.violation("model-%s:%s" % (cmd, c[0].decode("latin-1")),
                      "model and MathLib::%s disagree on the grammar literal %r (value %d): model %s impl %s" % (cmd, c[0], l[1], vlib.show(m), vlib.show(i)),
                      {"broken": "correspondence " + cmd, "case": vlib.show(c), "model": vlib.show(m), "impl": vlib.show(i), "value": l[1]},
                      found_input=False)


def judge_other(run, stream, diffs):
    """a disagreement outside the grammar: the model misreads the code or the code changed -> no failing input
    by itself; gcc is asked whether the string is a valid constant and what its value is."""
    for c, m, i in sorted(diffs, key=lambda d: len(d[0][0]))[:3]:
        verdict = None
        s = c[-1] if stream.startswith("strtoull") else c[0]
        if stream in ("tobig", "tobigu", "charlit") and i and i[0][:1] not in (b"e", b"f") and G.have(["gcc", "--version"]):
            try:
                txt = s.decode("ascii")
                wd = tempfile.mkdtemp(prefix="c10_")
                r = G.gcc_static_asserts(["gcc", "-std=gnu11"], ["(%s) == (%s)" % (txt, i[0].decode())], wd)
                shutil.rmtree(wd, ignore_errors=True)
                verdict = r[0]
            except UnicodeDecodeError:
                pass
        key = "%s:%s" % (stream, hashlib.sha1(b" ".join(c)).hexdigest()[:12])
        if verdict is False:
            run.violation(key, "%s(%r) = %s, gcc computes a different value for this constant (model says %s)" % (stream, s, vlib.show(i), vlib.show(m)),
                          {"input": vlib.show(c), "impl": vlib.show(i), "model": vlib.show(m), "oracle": "gcc -std=gnu11 _Static_assert",
                           "how": "echo '%s' | build/harness/vh_c10 %s" % (vlib.enc_case(c), stream)})
        else:
            run.violation(key, "model and implementation disagree on %s(%s): model %s impl %s" % (stream, vlib.show(c), vlib.show(m), vlib.show(i)),
                          {"broken": "correspondence " + stream, "case": vlib.show(c), "case_line": vlib.enc_case(c), "model": vlib.show(m), "impl": vlib.show(i)},
                          found_input=False)


if __name__ == "__main__":
    vlib.main(check, PID)
