#!/usr/bin/env python3
"""C05  Results are invariant under meaning-preserving rewrites.

prove:      coq/theories/Properties_C05.v (VariableMap ids independent of spelling; phase 1 of the raw lexer
            recovers tokens and positions from every blank-separated rendering)
correspond: X1 extracted lexer model (Names/LexDefs.v lex = readfile + combineOperators fragment) vs
            simplecpp::TokenList on the same bytes (harness/vh_c05.cpp, FileStream as cppcheck uses) and vs the
            <rawtokens> of `cppcheck --dump`; X2 the VariableMap class on renamed scripts (vh_c08)
property:   X3 end to end: P and rewrite(P) through the real binary with --enable=all --inconclusive, findings
            compared under the rewrite's location / name map (families: whitespace intraline / lines / free /
            asymmetric inside one compound statement, alpha-renaming, reordering of independent top-level items), exclusions in c05_excluded.json
search:     a pair whose findings differ beyond the map is the failing input (replay = two files + two outputs)
"""
import collections
import hashlib
import json
import os
import re
import subprocess
import sys

sys.path.insert(0, os.path.dirname(os.path.dirname(os.path.abspath(__file__))))
import vlib
from props import names_common as NC
from props import c05_rewrite as RW
from props import gen_programs as GP

PID = "C05"
WORK = os.path.join(vlib.BUILD, "work", PID)
BASE_CACHE = {}
EXCL = json.load(open(os.path.join(os.path.dirname(os.path.abspath(__file__)), "c05_excluded.json")))

WORDS = [b"a", b"b1", b"x_y", b"int", b"0", b"12", b"0x1F", b"1e", b"$d", b"_", b"if", b"9z"]
OPS = [bytes([c]) for c in b"+-*/%=<>!&|^~?:;,.()[]{}@`"]
SEPS = [b"", b"", b" ", b"  ", b"\t", b"\n", b"\r\n", b"\r", b"\r\r\n", b"\f", b"\v", b" \n ", b"/* c */", b"/**/", b"/* a\n b */", b"// c\n", b"//\r\n",
        b"\\\n", b"\\ \n", b"\x01", b"/*/ */", b"/* * / */"]


def gen_soup(rng, seps=SEPS):
    out = []
    for _ in range(rng.randint(1, 14)):
        r = rng.random()
        out.append(rng.choice(WORDS) if r < 0.4 else rng.choice(OPS))
        k = rng.random()
        out.append(b"" if k < 0.45 else rng.choice(seps))
    if rng.random() < 0.1:
        out.append(rng.choice([b"/* open", b"\\", b"// x", b"\x80", b"'", b'"']))
    return b"".join(out)


def rawtokens(path):
    """(str, line, col) of the <rawtokens> of a dump"""
    import xml.etree.ElementTree as ET
    root = ET.parse(path).getroot()
    rt = root.find("rawtokens")
    return [(t.get("str"), int(t.get("linenr")), int(t.get("column"))) for t in rt.findall("tok")] if rt is not None else None


def dump_text(b):
    """how the dump renders a token text (lib/errorlogger.cpp ErrorLogger::toxml, then read back by an XML parser):
    \\t \\n \\r and printable ASCII survive, NUL becomes the two characters \\0, every other control byte and every byte
    > 0x7f becomes the letter x. The rendering is lossy by design of the dump layer (a C14 matter); this stream compares
    the lexer's tokens under that rendering."""
    out = []
    for ch in b:
        if ch == 0:
            out.append("\\0")
        elif ch in (9, 10, 13) or 32 <= ch <= 0x7f:
            out.append(chr(ch))
        else:
            out.append("x")
    return "".join(out)


def toks_of(fields):
    return [tuple(fields[i:i + 4]) for i in range(0, len(fields) - 3, 4)]


def write(path, data):
    with open(path, "wb" if isinstance(data, bytes) else "w") as f:
        f.write(data)
    return path


def x3_pair(run, fam, ext, p0_text, p1_text, locmap, rho, stats, tag):
    """run both programs, compare; returns None or a difference record"""
    p0 = write(os.path.join(WORK, "x3_%s_a.%s" % (tag, ext)), p0_text)
    p1 = write(os.path.join(WORK, "x3_%s_b.%s" % (tag, ext)), p1_text)
    ck = hashlib.sha1((ext + "|" + (p0_text if isinstance(p0_text, str) else p0_text.decode("latin-1"))).encode("latin-1", "replace")).hexdigest()
    if ck not in BASE_CACHE:
        BASE_CACHE.clear()
        BASE_CACHE[ck] = RW.run_cppcheck(p0)
    f0, f1 = BASE_CACHE[ck], RW.run_cppcheck(p1)
    if f0 is None or f1 is None:
        stats["no_xml"] += 1
        return None
    excl = set(EXCL["whitespace" if fam.startswith("ws") else fam]) | {"unmatchedSuppression"}
    f0 = [f for f in f0 if f["id"] not in excl]
    f1 = [f for f in f1 if f["id"] not in excl]
    a = RW.canon(f0, locmap)
    b = RW.canon(f1, None, {v: k for k, v in rho.items()} if rho else None)
    ids = set(f["id"] for f in f0)
    run.count("rewrite pairs", None, nontrivial=hashlib.sha1((fam + p0_text if isinstance(p0_text, str) else fam).encode()).hexdigest()[:12] if len(f0) > 0 else None,
              bucket="%s,findings%s" % (fam, "0" if not f0 else "1-5" if len(f0) <= 5 else "6+"))
    stats["findings_compared"] += len(f0)
    stats["ids"].update(ids)
    if a == b:
        return None
    run.stream("rewrite pairs")["disagreements"] += 1
    da = [x for x in a if x not in b]
    db = [x for x in b if x not in a]
    return {"family": fam, "original": p0_text if isinstance(p0_text, str) else p0_text.decode("latin-1"),
            "rewritten": p1_text if isinstance(p1_text, str) else p1_text.decode("latin-1"),
            "expected_only": [list(map(str, x)) for x in da[:4]], "actual_only": [list(map(str, x)) for x in db[:4]],
            "ids": sorted(set(x[0] for x in da + db)),
            "how": "cppcheck --enable=all --inconclusive --xml on both files; map the locations of the first by token index%s" % (" and the names by the renaming" if rho else "")}


def check(run, replay):
    quick = run.tier == "quick"
    rng = run.rng
    os.makedirs(WORK, exist_ok=True)
    run.level = "proof"
    run.trusted_base += [
        "Coq 8.16.1 kernel (coqc); vm_compute only in the Examples and the _refuted witness",
        "extraction: Require Extraction + ExtrOcamlBasic only; ocaml/driver.ml",
        "harness/vh_c05.cpp (writes the case to a file, simplecpp::TokenList(filename) as cppcheck does, prints str/line/col/comment), harness/vh_c08.cpp + hook a37a0ca (VariableMap script driver)",
        "modelled, not verified: externals/simplecpp/simplecpp.cpp Stream::readChar (CR/CRLF), TokenList::readfile (names/numbers, one-character operators, blanks, newlines, backslash-newline, // and /* */ comments, multiline bookkeeping, Location::adjust) and TokenList::combineOperators (==-class, && || :: -> << >> <<= >>= ++ -- ...); outside the fragment (string/char literals, '#', digit separators, backslash inside a comment, `&=`, float assembly) the model answers UNSUPPORTED and the case is counted, not compared",
        "proved only for phase 1 with blank separators; comments, splices, CRLF and combineOperators are tied by X1 only",
        "tools/props/c05_rewrite.py (a C token splitter and the rewrite families; a wrong split shows up as a syntax error / difference, never hides one), clang 14 (which names are declared in the main file)",
        "the claim that every later pass looks only at tokens and ids is not provable here: X3 carries it",
    ]
    run.assumptions += ["g++ compiles /repo faithfully"]
    run.extra["rule"] = ("X1: token soups of 1-14 tokens (12 words, 26 one-character operators) with separators from {none, blanks, LF, CRLF, FF, VT, comments, backslash-newline, control char}; "
                         "non-trivial = distinct input the model handles (not UNSUPPORTED) with at least one separator containing a newline, comment or splice. "
                         "X3: programs = gen_programs templates (findings of ~60 ids), generated scoped programs, /repo/samples, multi-line candidates whose findings compare two pieces of code (token-identical multi-statement branches, duplicated conditions/expressions on separate lines, repeated statements) with layout changes also inside one compound statement only; non-trivial = distinct (family, program) with at least one finding.")

    vlib.ensure_repo_build()
    ok = run.prove()
    vlib.coq_make(["theories/Names/Run.vo"])
    model = vlib.build_model(PID) if ok or os.path.exists(os.path.join(vlib.COQ, "theories/Names/Run.vo")) else None
    if not ok:
        run.violation("proof:" + PID, "Properties_C05.vo does not build: " + str(run.proof_error())[:300],
                      {"broken": "proof", "detail": run.proof_error()}, found_input=False)
    if model is None:
        return
    vh = vlib.build_harness(PID)
    vh8 = vlib.build_harness("C08")

    # ---- X1a: lexer model vs simplecpp on the same bytes
    n = 4000 if quick else 60000
    corpus = [b"a+b", b"ab  cd\n  e", b"a /* x\ny */ b\n c", b"a\\\nb c\n d", b"x<<=y>>=z ++1 a++ +b", b"a // c\n b", b"a\r\nb", b"a\x80",
              b"a ... b . . .", b"a/", b"/*", b"/*/", b"a &&& b ||| c -> d ::: e", b"a\\  \n b /* c\n */ d\n e", b"a\tb\x0cc\x0bd", b"", b"\n\n", b">>>=", b"a===b"]
    cases = [[c] for c in dict.fromkeys(corpus + [gen_soup(rng) for _ in range(n)])]
    interesting = re.compile(rb"\n|/\*|//|\\")
    diffs = vlib.correspond(run, "raw lexer", model, [vh, "lex"], cases, tag="lex",
                            nontrivial=lambda c, m, i: c[0] if m != [b"U"] and interesting.search(c[0]) else None,
                            bucket=lambda c, m, i: "unsupported" if m == [b"U"] else ("cleared" if not m and c[0].strip() else "tokens<%d" % (4 if len(m) < 16 else 8 if len(m) < 32 else 16)) +
                            (",splice" if b"\\\n" in c[0] or b"\\ \n" in c[0] else "") + (",comment" if b"/*" in c[0] or b"//" in c[0] else "") + (",crlf" if b"\r" in c[0] else ""))
    real = [(c, m, i) for c, m, i in diffs if m != [b"U"]]
    run.stream("raw lexer")["disagreements"] = len(real)
    for c, m, i in sorted(real, key=lambda d: len(d[0][0]))[:2]:
        run.violation("lex:" + hashlib.sha1(c[0]).hexdigest()[:12],
                      "lexer model and simplecpp disagree on %r: model %s, simplecpp %s" % (c[0], toks_of(vlib.show(m)), toks_of(vlib.show(i))),
                      {"broken": "correspondence raw lexer", "input": vlib.show(c[0]), "model": vlib.show(m), "impl": vlib.show(i),
                       "how": "echo '%s' | build/harness/vh_c05 lex" % vlib.enc_case(c)}, found_input=False)

    # ---- X1b: the same through `cppcheck --dump` <rawtokens> (comments are part of rawtokens)
    nb = 40 if quick else 400
    # (token texts are compared under the dump's own rendering of control bytes, see dump_text)
    sample = [c for c in cases if c[0].strip() and b"\x80" not in c[0]][:nb]
    _, mo, _ = vlib.run_lines([model], [vlib.enc_case(["lex"] + c) for c in sample])
    for k, (c, ml) in enumerate(zip(sample, mo)):
        m = vlib.dec_line(ml)
        if m == [b"U"]:
            continue
        p = write(os.path.join(WORK, "soup.c"), c[0])
        subprocess.run([vlib.CPPCHECK, "-q", "--dump", p], stdout=subprocess.PIPE, stderr=subprocess.PIPE, timeout=60)
        try:
            rt = rawtokens(p + ".dump")
        except Exception:
            rt = None
        if rt is None:
            run.count("rawtokens (--dump)", None, bucket="no-dump")
            continue
        exp = [(dump_text(s), int(l), int(co)) for (s, l, co, cm) in toks_of(m)]
        run.count("rawtokens (--dump)", None, nontrivial=c[0] if interesting.search(c[0]) else None, bucket="compared")
        if exp != rt:
            run.stream("rawtokens (--dump)")["disagreements"] += 1
            run.violation("rawtokens:" + hashlib.sha1(c[0]).hexdigest()[:12], "lexer model and <rawtokens> of --dump disagree on %r: %s vs %s" % (c[0], exp, rt),
                          {"broken": "correspondence rawtokens", "input": vlib.show(c[0]), "model": exp, "dump": rt}, found_input=False)
            break

    # ---- X2: the class answers renamed scripts identically (C05_rename_invariant on the real VariableMap)
    n2 = 1500 if quick else 40000
    scripts = [NC.gen_ops(rng) for _ in range(n2)]
    scripts = [s for s in scripts if s]
    ren = [NC.rename_ops(s, lambda nme: b"zz_" + nme[::-1] + b"9") for s in scripts]
    _, o1, _ = vlib.run_lines([vh8, "vm"], [vlib.enc_case(s) for s in scripts])
    _, o2, _ = vlib.run_lines([vh8, "vm"], [vlib.enc_case(s) for s in ren])
    for s, a, b in zip(scripts, o1, o2):
        run.count("VariableMap renamed", None, nontrivial=tuple(s) if any(o[:1] == b"A" for o in s) else None, bucket="len<%d" % (8 if len(s) < 8 else 32))
        if a != b:
            run.stream("VariableMap renamed")["disagreements"] += 1
            run.violation("vmrename:" + hashlib.sha1(b" ".join(s)).hexdigest()[:12], "VariableMap gives different ids after an injective renaming of the names",
                          {"ops": vlib.show(s), "ids": a, "ids_renamed": b, "how": "build/harness/vh_c08 vm"})
            break

    # ---- X3: the property itself
    stats = collections.Counter()
    stats["ids"] = set()
    progs = []
    sd = os.path.join(vlib.REPO, "samples")
    for d in sorted(os.listdir(sd))[:(6 if quick else 999)]:
        for f in sorted(os.listdir(os.path.join(sd, d))):
            if f.endswith((".c", ".cpp")):
                progs.append((f.rsplit(".", 1)[1], open(os.path.join(sd, d, f), encoding="latin-1").read(), "samples/%s/%s" % (d, f)))
    ngen = 9 if quick else 150
    for k in range(ngen):
        lang, src, picks = GP.gen_program(rng)
        progs.append(("cpp" if lang == "cpp" else "c", src, "templates%s" % picks))
    for k in range(4 if quick else 60):
        cpp = k % 2 == 1
        src, feats = NC.gen_program(rng, cpp)
        progs.append(("cpp" if cpp else "c", src, "scoped"))
    # candidates that are layout-sensitive by accident: findings that compare two pieces of code with each other
    for k in range(8 if quick else 150):
        src, picks = RW.gen_candidates(rng)
        progs.append(("c", src, "candidates%s" % picks))
    found = collections.defaultdict(list)
    for k, (ext, src, origin) in enumerate(progs):
        toks = RW.tokenize(src)
        if toks is None:
            stats["not_rewritable"] += 1
            continue
        variants = []
        for mode in ("intraline", "lines", "free"):
            variants.append(("ws-" + mode, src, RW.rw_whitespace(rng, toks, mode)))
        # layout changes inside ONE compound statement only (one branch of an if/else, one case, one body)
        for _ in range(4 if origin.startswith("candidates") else 1):
            ra = RW.rw_asym(rng, toks)
            if ra:
                variants.append(("ws-asym", src, ra))
        if origin.startswith("candidates"):
            for fam, base, (text, locmap, rho) in variants:
                d = x3_pair(run, fam, ext, base, text, locmap, rho, stats, "p")
                if d:
                    d["origin"] = origin
                    found[(fam, tuple(d["ids"]))].append(d)
            continue
        p0 = write(os.path.join(WORK, "x3_names.%s" % ext), src)
        names = RW.main_file_names(p0, ext == "cpp", toks)
        if names:
            for style in ("suffix", "short", "random"):
                variants.append(("rename", src, RW.rw_rename(rng, toks, names, style)))
        srcn = RW.normalize_layout(toks)
        tn = RW.tokenize(srcn)
        r = RW.rw_reorder(rng, tn) if tn else None
        if r:
            variants.append(("reorder", srcn, r))
        for fam, base, (text, locmap, rho) in variants:
            d = x3_pair(run, fam, ext, base, text, locmap, rho, stats, "p")
            if d:
                d["origin"] = origin
                found[(fam, tuple(d["ids"]))].append(d)
    # the two layout defects repaired by /repo 9966aa3 and 5b5c259 stay as regression families
    kn = []
    base = "#include <stdlib.h>\nint f0(int x) { int y = 100 / x; if (x == 0) return 13; return y; }\n"
    tb = RW.tokenize(base)
    txt = "#include <stdlib.h>\n/* a\n b */int f0(int x) { int y = 100 / x; if (x == 0) return 13; return y; }\n"
    lm = {(t.line, t.col): ((t.line + 1, t.col + 5) if t.line == 2 else (t.line, t.col)) for t in tb}
    d = x3_pair(run, "ws-comment-after-directive", "c", base, txt, lm, {}, stats, "k1")
    if d:
        kn.append(("multiline-comment-after-directive-shifts-locations",
                   "a /* */ comment spanning lines that directly follows a preprocessor directive line is lexed as if it had no newlines (readfile: `if (multiline || isLastLinePreprocessor())` looks at the last token's line, not at the comment's line): every token up to the next newline gets the comment's first line and a column past the line's end", d))
    base2 = "int f(int b, int c) { return b\n-c; }\n"
    txt2 = base2.replace("b\n-c", "b\r-c")
    tb2 = RW.tokenize(base2)
    d = x3_pair(run, "ws-lone-cr", "c", base2, txt2.encode("latin-1"), {(t.line, t.col): (t.line, t.col) for t in tb2}, {}, stats, "k2")
    _, lo, _ = vlib.run_lines([vh, "lex"], [vlib.enc_case([b"b\r-c"])])
    lone = toks_of(vlib.show(vlib.dec_line(lo[0])))
    if d or [t[0] for t in lone] != ["b", "-", "c"]:
        kn.append(("lone-cr-after-name-duplicates-next-char",
                   "a lone CR (old Mac line ending) directly after a name/number or // comment: Stream::readChar looks ahead with get()+unget(), FileStream::unget() pushes back lastCh, and the caller's own ungetChar() pushes the same character again - the newline is lost and the next character is duplicated: `b<CR>-c` lexes as %s (`b--c`)" % lone,
                   d or {"family": "ws-lone-cr", "original": base2, "rewritten": txt2, "tokens": lone}))
    for key, what, d in kn:
        run.violation(key, what, d)

    stats["ids"] = len(stats["ids"])
    run.extra["x3_stats"] = dict(stats)
    run.extra["x3_excluded_ids"] = EXCL
    for (fam, ids), lst in found.items():
        d = min(lst, key=lambda x: len(x["original"]))
        key = "x3:%s:%s" % (fam, ",".join(ids)[:60])
        run.violation(key, "findings of a program and of its %s rewrite differ beyond the location/name map (ids %s; %d pairs this run)" % (fam, ",".join(ids), len(lst)), d)


if __name__ == "__main__":
    vlib.main(check, PID)
