"""Shared by c18.py / c19.py / c20.py: scratch projects, runs of the real binary
with and without a build dir, token dumps through the harness, the extracted model."""
import os
import re
import shutil
import subprocess
import sys
import tempfile

sys.path.insert(0, os.path.dirname(os.path.dirname(os.path.abspath(__file__))))
import vlib

TEMPLATE = "--template={file}:{line}:{column}:{severity}:{id}:{message}"
ALL_FIELDS = ["product", "warning", "style", "performance", "portability", "information", "userDefines",
              "checkConfiguration", "force", "maxConfigs", "checkLevel", "addonInfos", "premiumArgs", "suppressions",
              "inconclusive", "unusedFunction", "missingInclude", "userUndefs", "includePaths", "standards",
              "enforcedLang", "platform", "libraries", "filePath", "getMaxConfigs"]


class Scratch:
    """One scratch area under /tmp: project dir `p`, build dir `bd`."""

    def __init__(self, tag):
        self.root = tempfile.mkdtemp(prefix="verif_%s_" % tag, dir="/tmp")
        self.p = os.path.join(self.root, "p")
        self.bd = os.path.join(self.root, "bd")
        os.makedirs(self.p)
        os.makedirs(self.bd)

    def write(self, rel, text):
        path = os.path.join(self.p, rel)
        os.makedirs(os.path.dirname(path), exist_ok=True)
        with open(path, "w") as f:
            f.write(text)

    def read(self, rel):
        with open(os.path.join(self.p, rel)) as f:
            return f.read()

    def exists(self, rel):
        return os.path.exists(os.path.join(self.p, rel))

    def remove(self, rel):
        os.remove(os.path.join(self.p, rel))

    def rename(self, a, b):
        dst = os.path.join(self.p, b)
        os.makedirs(os.path.dirname(dst), exist_ok=True)
        os.rename(os.path.join(self.p, a), dst)

    def touch(self, rel):
        os.utime(os.path.join(self.p, rel), None)

    def reset_bd(self):
        shutil.rmtree(self.bd, ignore_errors=True)
        os.makedirs(self.bd)

    def close(self):
        shutil.rmtree(self.root, ignore_errors=True)


def cppcheck(sc, files, opts=(), builddir=True, jobs=1, env=None, debug=False, timeout=120):
    """Run the real binary in the project dir. Returns (sorted finding lines, debug lines, rc)."""
    cmd = [vlib.CPPCHECK, "-q", TEMPLATE, "-j%d" % jobs] + list(opts)
    if builddir:
        cmd.append("--cppcheck-build-dir=" + sc.bd)
        if debug:
            cmd.append("--debug-analyzerinfo")
    cmd += list(files)
    e = dict(os.environ)
    if env:
        e.update(env)
    p = None
    for attempt in range(60):
        try:
            p = subprocess.run(cmd, cwd=sc.p, stdout=subprocess.PIPE, stderr=subprocess.PIPE, env=e, timeout=timeout,
                               start_new_session=True)
            break
        except subprocess.TimeoutExpired:
            return ["!timeout"], [], 124
        except OSError:
            # the shared binary is being relinked by a concurrent build of /repo: wait for it
            import time
            time.sleep(2)
    if p is None:
        raise vlib.BuildError("cannot execute " + vlib.CPPCHECK)
    err = p.stderr.decode("utf-8", "replace").splitlines()
    out = p.stdout.decode("utf-8", "replace").splitlines()
    findings = sorted(set(l for l in err if l.strip()))
    return findings, out, p.returncode


def hits_of(debug_lines):
    """source files whose analysis was skipped (cache hit) according to --debug-analyzerinfo"""
    hits = set()
    for l in debug_lines:
        m = re.match(r"skipping analysis - loaded \d+ cached finding\(s\) from '.*' for '(.*)'", l)
        if m:
            hits.add(m.group(1))
    return hits


def read_files_txt(sc):
    p = os.path.join(sc.bd, "files.txt")
    if not os.path.exists(p):
        return "", []
    txt = open(p).read()
    rows = []
    for l in txt.splitlines():
        parts = l.split(":", 3)
        if len(parts) == 4:
            rows.append((parts[0], parts[3]))
    return txt, rows


def cache_hash(sc, afile):
    p = os.path.join(sc.bd, afile)
    if not os.path.exists(p):
        return None
    m = re.search(rb'<analyzerinfo hash="(\d+)">', open(p, "rb").read())
    return m.group(1).decode() if m else None


class Tools:
    """extracted model + harness, line based"""

    def __init__(self, model, vh):
        self.model, self.vh = model, vh

    def model_run(self, cases):
        rc, out, err = vlib.run_lines([self.model], [vlib.enc_case(c) for c in cases])
        if rc != 0 or len(out) != len(cases):
            raise vlib.BuildError("model run failed rc=%s: %s" % (rc, err[-1000:]))
        return [vlib.dec_line(l) for l in out]

    def vh_run(self, cmd, cases):
        rc, out, err = vlib.run_lines([self.vh, cmd], [vlib.enc_case(c) for c in cases])
        if len(out) != len(cases):
            raise vlib.BuildError("harness %s died rc=%s: %s" % (cmd, rc, err[-1000:]))
        return [vlib.dec_line(l) for l in out]

    def keyfields(self):
        r = self.model_run([["keyfields"]])[0]
        return {"loc_enc": r[0].decode(), "hdr_path_in_key": r[1] == b"1", "lookup_mode": r[2].decode(),
                "key_fields": [x.decode() for x in r[3:]]}

    def missing(self):
        return [x.decode() for x in self.model_run([["missing"]])[0]]


def parse_dump(fields):
    """calchash output -> (hash, toks, hdrs, raw fields after the hash)"""
    h = fields[0].decode()
    i = 1
    n = int(fields[i]); i += 1
    toks = [(fields[i + 3 * k], int(fields[i + 3 * k + 1]), int(fields[i + 3 * k + 2])) for k in range(n)]
    i += 3 * n
    nh = int(fields[i]); i += 1
    hdrs = []
    for _ in range(nh):
        hp = fields[i]; i += 1
        m = int(fields[i]); i += 1
        ht = [(fields[i + 3 * k], int(fields[i + 3 * k + 1]), int(fields[i + 3 * k + 2])) for k in range(m)]
        i += 3 * m
        hdrs.append((hp, ht))
    return h, toks, hdrs, fields[1:]


def default_renderings(version, opts=None):
    """How CppCheck::calculateHash streams each member for the option set `opts`
    (dict name -> value; missing = command line default)."""
    o = dict(opts or {})
    sev = lambda n, ch: ch if o.get(n) else " "
    r = {
        "product": o.get("product") or version,
        "warning": sev("warning", "w"), "style": sev("style", "s"), "performance": sev("performance", "p"),
        "portability": sev("portability", "p"), "information": sev("information", "i"),
        "userDefines": o.get("userDefines", ""),
        "checkConfiguration": "c" if o.get("checkConfiguration") else " ",
        "force": "f" if o.get("force") else " ",
        "maxConfigs": str(o.get("maxConfigs", 0)),
        "checkLevel": str(o.get("checkLevel", 1)),
        "addonInfos": o.get("addonName", "") + o.get("addonArgs", ""),
        "premiumArgs": o.get("premiumArgs", ""),
        "suppressions": o.get("suppdump", "  <suppressions>\n  </suppressions>\n"),
    }
    # Settings::getMaxConfigs()
    r["getMaxConfigs"] = str(2147483647 if o.get("force") else o["maxConfigs"] if o.get("maxConfigs", 0) != 0
                             else 1 if o.get("userDefines") else 12)
    for k in ALL_FIELDS:
        r.setdefault(k, o.get("render_" + k, ""))
    return [r[k] for k in ALL_FIELDS]


def lang_of(path):
    return "2" if path.rsplit(".", 1)[-1] in ("cpp", "cxx", "cc", "hpp", "C") else "1"


def settings_of_cli(opts, defaults=None, path=None):
    """the Settings members (as far as toolinfo streams them) that a list of command line options sets;
    defaults = {"standards":..., "platform":...} as the real Settings render them (harness toolhash)"""
    o = {}
    d = defaults or {}
    o["render_inconclusive"] = " "
    o["render_unusedFunction"] = " "
    o["render_missingInclude"] = " "
    o["render_standards"] = d.get("standards", "")
    o["render_platform"] = d.get("platform", "")
    o["render_enforcedLang"] = lang_of(path) if path else "1"
    for k in ("userUndefs", "includePaths", "libraries"):
        o["render_" + k] = ""
    for a in opts:
        if a == "--inconclusive":
            o["render_inconclusive"] = "i"
        if a.startswith("--enable="):
            es = a[len("--enable="):].split(",")
            if "unusedFunction" in es or "all" in es:
                o["render_unusedFunction"] = "u"
            if "missingInclude" in es or "all" in es:
                o["render_missingInclude"] = "m"
        if a.startswith("-U"):
            o["render_userUndefs"] += "-U" + a[2:]
        if a.startswith("-I"):
            o["render_includePaths"] += "-I" + a[2:].rstrip("/") + "/"
        if a.startswith("--library="):
            o["render_libraries"] += "-l" + a.split("=", 1)[1]
    for a in opts:
        if a.startswith("--enable="):
            for e in a[len("--enable="):].split(","):
                if e in ("style", "all"):
                    o.update(style=True, warning=True, performance=True, portability=True)
                if e in ("warning", "performance", "portability", "information"):
                    o[e] = True
                if e == "all":
                    o["information"] = True
        elif a.startswith("-D"):
            o["userDefines"] = (o.get("userDefines", "") + ";" if o.get("userDefines") else "") + a[2:]
        elif a == "--force":
            o["force"] = True
        elif a.startswith("--max-configs="):
            o["maxConfigs"] = int(a.split("=", 1)[1])
        elif a.startswith("--check-level="):
            o["checkLevel"] = {"reduced": 0, "normal": 1, "exhaustive": 2}[a.split("=", 1)[1]]
    return o
