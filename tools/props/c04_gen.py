"""C04 X3: correct-by-construction C functions: every operation that could be undefined is preceded by a
guard (in several syntactic forms) that excludes the undefined case; inputs are int parameters of a small
declared domain over which the driver runs the function exhaustively.  Generation only."""

DOM = list(range(-9, 41))


class GFunc:
    def __init__(self, name, text, driver, ops, domain):
        self.name, self.text, self.driver, self.ops, self.domain = name, text, driver, ops, domain


class Gen:
    def __init__(self, rng):
        self.rng = rng

    def prologue(self):
        return "#include <stdlib.h>\n#include <string.h>\nint g1 = 5;\nint g2[8] = {1, 2, 3, 4, 5, 6, 7, 8};\n"

    def function(self, name):
        rng = self.rng
        nparams = rng.randint(1, 3)
        params = ["x", "y", "z"][:nparams]
        self.params = params
        self.tmp = 0
        body, ops = ["  int r = 0;"], set()
        for _ in range(rng.randint(2, 4)):
            op, lines = self.op()
            ops.add(op)
            body += lines
        body.append("  return r;")
        text = ["int %s(%s) {" % (name, ", ".join("int " + p for p in params))] + body + ["}"]
        loops = "".join("for (int %s = %d; %s <= %d; %s++) " % (p, DOM[0], p, DOM[-1], p) for p in params)
        driver = "{ volatile int s_ = 0; %ss_ += %s(%s); }" % (loops, name, ", ".join(params))
        return GFunc(name, text, driver, ops, "each parameter in [%d, %d]" % (DOM[0], DOM[-1]))

    def v(self):
        return self.rng.choice(self.params)

    def fresh(self, p):
        self.tmp += 1
        return "%s%d" % (p, self.tmp)

    def guard(self, cond, neg, stmts):
        """the guarded statements in one of several forms; `cond` = safe condition, `neg` = its negation"""
        rng = self.rng
        form = rng.randint(0, 4)
        ind = ["    " + s for s in stmts]
        if form == 0:
            return ["  if (%s) {" % cond] + ind + ["  }"]
        if form == 1:
            return ["  if (%s) {" % neg, "    return r;", "  }"] + ["  " + s for s in stmts]
        if form == 2:
            ok = self.fresh("ok")
            return ["  int %s = %s;" % (ok, cond), "  if (%s) {" % ok] + ind + ["  }"]
        if form == 3:
            return ["  if (%s) {" % neg, "    r++;", "  } else {"] + ind + ["  }"]
        return ["  if (!(%s)) {" % cond, "    r--;", "  } else {"] + ind + ["  }"]

    def op(self):
        rng = self.rng
        k = rng.choice(["div", "mod", "index", "index_loop", "deref", "shift", "overflow", "heap", "uninit", "funcarg", "mask_index", "heap_buf"])
        a, b = self.v(), self.v()
        if k == "div":
            d = rng.choice([b, "%s - %d" % (b, rng.randint(0, 9)), "%s %% 4" % b])
            return k, self.guard("(%s) != 0" % d, "(%s) == 0" % d, ["r += %s / (%s);" % (a, d)])
        if k == "mod":
            d = rng.choice([b, "%s + %d" % (b, rng.randint(0, 9))])
            return k, self.guard("(%s) > 0" % d, "(%s) <= 0" % d, ["r += %s %% (%s);" % (a, d)])
        if k == "index":
            n = rng.choice([4, 8, 16])
            arr = self.fresh("a")
            i = rng.choice([a, "%s + %d" % (a, rng.randint(1, 5)), "%s - %d" % (a, rng.randint(1, 5))])
            decl = ["  int %s[%d] = {0};" % (arr, n), "  %s[%d] = %s;" % (arr, n - 1, b)]
            return k, decl + self.guard("(%s) >= 0 && (%s) < %d" % (i, i, n), "(%s) < 0 || (%s) >= %d" % (i, i, n), ["r += %s[%s];" % (arr, i)])
        if k == "index_loop":
            n = rng.choice([4, 8])
            arr = self.fresh("a")
            i = self.fresh("i")
            return k, ["  int %s[%d];" % (arr, n),
                       "  for (int %s = 0; %s < %d; %s++) {" % (i, i, n, i), "    %s[%s] = %s + %s;" % (arr, i, a, i), "  }",
                       "  for (int %s = %d; %s >= 0; %s--) {" % (i, n - 1, i, i), "    r += %s[%s];" % (arr, i), "  }"]
        if k == "mask_index":
            i = rng.choice(["%s & 7" % a, "(%s %% 8 + 8) %% 8" % a])
            return k, ["  r += g2[%s];" % i]
        if k == "deref":
            p = self.fresh("p")
            decl = ["  int *%s = (%s > %d) ? &g1 : 0;" % (p, a, rng.randint(-3, 20))]
            return k, decl + self.guard("%s != 0" % p, "%s == 0" % p, ["r += *%s;" % p])
        if k == "shift":
            return k, self.guard("%s >= 0 && %s < 32" % (b, b), "%s < 0 || %s >= 32" % (b, b), ["r ^= (int)((1u << %s) & 255u);" % b])
        if k == "overflow":
            c = rng.choice([1000, 65536, 50000000])
            lim = 2147483647 // c
            return k, self.guard("%s <= %d && %s >= -%d" % (a, lim, a, lim), "%s > %d || %s < -%d" % (a, lim, a, lim), ["r += (%s * %d) / %d;" % (a, c, c)])
        if k == "heap":
            m = self.fresh("m")
            form = rng.randint(0, 2)
            if form == 0:
                return k, ["  char *%s = malloc(8);" % m, "  if (%s) {" % m, "    %s[0] = (char)%s;" % (m, a), "    r += %s[0];" % m, "    free(%s);" % m, "  }"]
            if form == 1:
                return k, ["  char *%s = malloc(8);" % m, "  if (!%s) {" % m, "    return r;", "  }", "  %s[7] = (char)%s;" % (m, a),
                           "  if (%s > 3) {" % b, "    r += %s[7];" % m, "  }", "  free(%s);" % m]
            return k, ["  char *%s = 0;" % m, "  if (%s > 0) {" % a, "    %s = malloc(4);" % m, "  }", "  if (%s) {" % m, "    %s[0] = 1;" % m, "    r += %s[0];" % m, "  }",
                       "  free(%s);" % m]
        if k == "heap_buf":
            m = self.fresh("m")
            n = rng.choice([4, 8])
            i = rng.choice([a, "%s + 1" % a])
            return k, ["  char *%s = calloc(%d, 1);" % (m, n), "  if (%s) {" % m, "    if ((%s) >= 0 && (%s) < %d) {" % (i, i, n), "      %s[%s] = 1;" % (m, i),
                       "      r += %s[%s];" % (m, i), "    }", "    free(%s);" % m, "  }"]
        if k == "uninit":
            v = self.fresh("v")
            form = rng.randint(0, 2)
            c = "%s > %d" % (a, rng.randint(-5, 30))
            if form == 0:
                return k, ["  int %s;" % v, "  if (%s) {" % c, "    %s = %s;" % (v, b), "  } else {", "    %s = 1;" % v, "  }", "  r += %s;" % v]
            if form == 1:
                return k, ["  int %s;" % v, "  if (%s) {" % c, "    %s = %s;" % (v, b), "  }", "  if (%s) {" % c, "    r += %s;" % v, "  }"]
            f = self.fresh("set")
            return k, ["  int %s;" % v, "  int %s = 0;" % f, "  if (%s) {" % c, "    %s = %s;" % (v, b), "    %s = 1;" % f, "  }", "  if (%s) {" % f, "    r += %s;" % v, "  }"]
        # funcarg: strtol base must be 0 or 2..36
        return "funcarg", self.guard("%s == 0 || (%s >= 2 && %s <= 36)" % (b, b, b), "%s != 0 && (%s < 2 || %s > 36)" % (b, b, b),
                                     ["r += (int)strtol(\"12\", 0, %s);" % b])


WTYPES = [("_Bool", 1, False), ("unsigned char", 8, False), ("signed char", 8, True), ("unsigned short", 16, False), ("short", 16, True),
          ("unsigned int", 32, False), ("int", 32, True), ("unsigned long", 64, False), ("long", 64, True),
          ("unsigned long long", 64, False), ("long long", 64, True)]


class WidthGen(Gen):
    """Third fixed family (rounds w<r>): locals of every integer width / signedness, compound assignments
    (<<= >>= += -= *= /= %= &= |= ^=) and plain operators, shift counts / divisors at the interesting boundaries
    (narrow width, narrow width - 1, int width - 1, promoted width - 1), guarded so that every execution is defined
    (the left operand of a shift is promoted: `unsigned char c; c >>= 8;` is fine)."""

    def function(self, name):
        rng = self.rng
        self.params = ["x", "y"]
        self.tmp = 0
        body, ops = ["  int r = 0;"], set()
        for _ in range(rng.randint(2, 4)):
            op, lines = self.wop()
            ops.add(op)
            body += lines
        body.append("  return r;")
        text = ["int %s(int x, int y) {" % name] + body + ["}"]
        loops = "".join("for (int %s = %d; %s <= %d; %s++) " % (p, DOM[0], p, DOM[-1], p) for p in self.params)
        driver = "{ volatile int s_ = 0; %ss_ += %s(x, y); }" % (loops, name)
        return GFunc(name, text, driver, ops, "each parameter in [%d, %d]" % (DOM[0], DOM[-1]))

    def wop(self):
        rng = self.rng
        t, w, signed = rng.choice(WTYPES)
        P = max(32, w)                       # width of the promoted left operand
        psigned = signed or w < 32           # narrow types promote to (signed) int
        v = self.fresh("v")
        a, b = self.v(), self.v()
        decl = ["  %s %s = (%s)%s;" % (t, v, t, a)]
        use = ["  r += (int)(%s & 255);" % v] if t != "_Bool" else ["  r += %s;" % v]
        k = rng.choice(["shr_c", "shr_c", "shl_c", "shl_c", "sh_var", "sh_plain", "arith_c", "divmod_c", "bits_c", "index"])
        tag = "%s:%s" % (k, t.replace(" ", "_"))
        bounds = sorted({c for c in (w - 1, w, 31, P - 1, 7, 8, 15, 16) if 0 <= c < P})
        if k == "shr_c":
            c = rng.choice(bounds)
            pre = ["  if (%s < 0) {" % v, "    %s = 0;" % v, "  }"] if signed else []       # keep >> of negative values out (implementation-defined)
            return tag, decl + pre + ["  %s >>= %d;" % (v, c)] + use
        if k == "shl_c":
            lim = P - 2 if psigned else P - 1
            c = rng.choice([c_ for c_ in bounds if c_ <= lim] or [0])
            return tag, decl + ["  %s &= 1;" % v, "  %s <<= %d;" % (v, c)] + use
        if k == "sh_var":
            lim = P - 1 if not psigned else P - 2
            op = rng.choice(["<<=", ">>="])
            pre = ["  %s &= 1;" % v]
            return tag, decl + pre + self.guard("%s >= 0 && %s <= %d" % (b, b, lim), "%s < 0 || %s > %d" % (b, b, lim), ["%s %s %s;" % (v, op, b)]) + use
        if k == "sh_plain":
            c = rng.choice(bounds)
            pre = ["  if (%s < 0) {" % v, "    %s = 0;" % v, "  }"] if signed else []
            return tag, decl + pre + ["  r ^= (int)((%s >> %d) & 1);" % (v, c)] + use
        if k == "arith_c":
            op = rng.choice(["+=", "-=", "*="])
            rhs = rng.choice([b, "3", "2", "100"])
            return tag, decl + ["  %s %s %s;" % (v, op, rhs)] + use
        if k == "divmod_c":
            op = rng.choice(["/=", "%="])
            d = rng.choice([b, "%s - %d" % (b, rng.randint(0, 9))])
            return tag, decl + self.guard("(%s) > 0" % d, "(%s) <= 0" % d, ["%s %s (%s);" % (v, op, d)]) + use
        if k == "bits_c":
            op = rng.choice(["&=", "|=", "^="])
            return tag, decl + ["  %s %s %s;" % (v, op, rng.choice(["12", "255", "1", b]))] + use
        return tag, decl + ["  r += g2[%s & 7];" % v] + use
