#!/usr/bin/env python3
"""C16  The thread executor is free of data races.

prove:      coq/theories/Properties_C16.v (lockset discipline => no race in any reachable state of
            any interleaving of any number of threads; invariant: at most one thread holds a mutex)
correspond: hook VERIF_EVLOG (lib/verifev.h): the real binary, run with --executor=thread over
            generated file sets / job counts / options, logs lock/unlock of the instrumented mutexes
            and rd/wr of the members they guard, per thread.  Every thread's trace is checked with
            the *extracted* check_thread against the fixed guard table below; by the theorem the
            traces observed then have no racy interleaving at all (partial: uninstrumented shared
            state is invisible).
structure:  every std::lock_guard on an instrumented mutex carries its VERIF_EV_LOCKED line, the
            guarded members are touched nowhere else in the instrumented files (source scan).
search:     a failing trace is reported with the run's command line and the events around the
            offending one.
"""
import os
import re
import shutil
import subprocess
import sys
import tempfile

sys.path.insert(0, os.path.dirname(os.path.dirname(os.path.abspath(__file__))))
import vlib
from props import c17 as G

PID = "C16"

# member -> mutex that guards it (both belong to the same object: same `this` in the log)
GUARD = {
    "mItNextFile": "mFileSync", "mItNextFileSettings": "mFileSync", "mProcessedSize": "mFileSync", "mProcessedFiles": "mFileSync",
    "mErrorLogger": "mReportSync",
    "mErrorList": "mErrorListSync",
    "mSuppressions": "mSuppressionsSync",
    "mResults": "mResultsSync",
}
FILES = {"cli/threadexecutor.cpp": ["mFileSync", "mReportSync"], "cli/executor.cpp": ["mErrorListSync"],
         "lib/suppressions.cpp": ["mSuppressionsSync"], "lib/timer.cpp": ["mResultsSync"]}


# mutexes of the instrumented files that guard something outside the model (listed in the limits)
UNINSTRUMENTED_MUTEXES = {"stdCoutLock"}      # lib/timer.cpp: serialises writes to std::cout


def strip_comments(src):
    src = re.sub(r"//[^\n]*", "", src)
    return re.sub(r"/\*.*?\*/", lambda m: "\n" * m.group(0).count("\n"), src, flags=re.S)


def scan_sources(repo):
    """-> list of problems (strings)"""
    bad = []
    for rel, mutexes in FILES.items():
        lines = strip_comments(open(os.path.join(repo, rel), encoding="utf-8", errors="replace").read()).split("\n")
        for i, l in enumerate(lines):
            m = re.search(r"std::(?:lock_guard|unique_lock|scoped_lock)\s*<[^>]*>\s*(\w+)\s*\(\s*(\w+)\s*\)", l)
            if m:
                nxt = lines[i + 1] if i + 1 < len(lines) else ""
                want = 'VERIF_EV_LOCKED("%s", %s)' % (m.group(2), m.group(1))
                if want not in nxt.replace(" ", "").replace('",', '", '):
                    bad.append("%s:%d: lock of %s without its VERIF_EV_LOCKED line" % (rel, i + 1, m.group(2)))
                if m.group(2) in UNINSTRUMENTED_MUTEXES:
                    if bad and bad[-1].endswith("without its VERIF_EV_LOCKED line"):
                        bad.pop()
                    continue
                if m.group(2) not in mutexes:
                    bad.append("%s:%d: mutex %s is not in the guard table" % (rel, i + 1, m.group(2)))
            for mu in re.findall(r"\b(\w+Sync)\s*\.\s*(?:lock|unlock|try_lock)\s*\(", l):
                bad.append("%s:%d: manual lock/unlock of %s (not instrumented)" % (rel, i + 1, mu))
        # every function body that touches a guarded member must log an access to it
        src = "\n".join(lines)
        for member, mu in GUARD.items():
            if mu not in mutexes:
                continue
            for fm in re.finditer(r"\n(?:[\w:<>,&\*~ ]+?)\b(\w+)\s*\([^;{}]*\)\s*(?:const\s*)?(?:override\s*)?(?::[^{;]*)?\{", src):
                start = fm.end() - 1
                depth, j = 0, start
                while j < len(src):
                    if src[j] == "{":
                        depth += 1
                    elif src[j] == "}":
                        depth -= 1
                        if depth == 0:
                            break
                    j += 1
                body = src[start:j]
                uses = re.findall(r"(?<![\w\"])%s\b(?!\")" % member, body)
                if member == "mErrorLogger" and rel == "cli/threadexecutor.cpp":
                    uses = re.findall(r"(?<![\w\"])mErrorLogger\s*\.", body)
                    uses += re.findall(r"mThreadExecutor\s*\.\s*reportStatus", body)
                logged = ('"%s")' % member) in body
                if fm.group(1) in ("if", "for", "while", "switch", "catch"):
                    continue
                if rel == "lib/timer.cpp" and "TimerResults::" not in fm.group(0):
                    continue                 # Timer::mResults / OneShotTimer::mResults are other members (pointers to the results object)
                ctor = fm.group(1) in ("ThreadData", "SyncLogForwarder", "Executor", "ThreadExecutor", "TimerResults", "SuppressionList", "check")
                if uses and not logged and not ctor:
                    bad.append("%s: %s() touches %s without logging it" % (rel, fm.group(1), member))
    # element-level logging: the flags of a list entry are tracked fields owned by the list they are inserted into
    sh = open(os.path.join(repo, "lib", "suppressions.h"), encoding="utf-8", errors="replace").read()
    for fld in ("matched", "checked"):
        if not re.search(r"#ifdef DANMAR_CPPCHECK_VERIF[^#]*VERIF_TRACKED\(bool\)\s+%s\b" % fld, sh):
            bad.append("lib/suppressions.h: Suppression::%s is not a tracked field under the hook guard" % fld)
    sc = strip_comments(open(os.path.join(repo, "lib", "suppressions.cpp"), encoding="utf-8", errors="replace").read())
    inserts = re.findall(r"\bmSuppressions\s*\.\s*(?:push_back|emplace_back|push_front|emplace_front|insert|emplace|splice|assign|merge)\s*\(", sc) + \
        re.findall(r"\bmSuppressions\s*=[^=]", sc)
    owns = re.findall(r"VERIF_EV_OWN\(mSuppressions\.back\(\)\.(\w+)", sc)
    if len(inserts) != 1 or sorted(owns) != ["checked", "matched"]:
        bad.append("lib/suppressions.cpp: %d statements put entries into mSuppressions, ownership of the tracked flags is set for %s" % (len(inserts), owns))
    vh = open(os.path.join(repo, "lib", "verifev.h"), encoding="utf-8", errors="replace").read()
    if not re.search(r"#define VERIF_EV\(kind, name\) verifev::acc\(", vh) or not re.search(r"inline void acc\([^)]*\)\s*\{\s*for \(ScopeBase\* s : activeScopes\(\)\)\s*s->revalidate\(\);", vh):
        bad.append("lib/verifev.h: an access no longer revalidates the lock scopes against the real guards")
    if "return g.owns_lock();" not in vh:
        bad.append("lib/verifev.h: a unique_lock's scope no longer asks the guard whether it owns the mutex")
    hdr = strip_comments(open(os.path.join(repo, "lib", "settings.h"), encoding="utf-8", errors="replace").read())
    if not re.search(r"static\s+std::atomic<bool>\s+mTerminated", hdr):
        bad.append("lib/settings.h: Settings::mTerminated is no longer std::atomic<bool>")
    return bad


def parse_log(path):
    """-> (threads {tid: [(kind, name, obj)]} restricted to the parallel phases, n_events_total, problems)"""
    ev = []
    for l in open(path, errors="replace"):
        p = l.split()
        if len(p) == 4:
            ev.append((p[0], p[1], p[2], p[3]))
    main = None
    phase = False
    threads = {}
    forks = joins = 0
    for tid, kind, name, obj in ev:
        if kind == "fork":
            main, phase = tid, True
            forks += 1
            continue
        if kind == "join":
            phase = False
            joins += 1
            continue
        if tid == main and not phase:
            continue
        if main is None:
            continue                       # before the executor starts: single-threaded
        if not phase and tid != main:
            threads.setdefault(tid, []).append((kind, name, obj))   # a worker outside fork/join would be a bug: keep it
            continue
        threads.setdefault(tid, []).append((kind, name, obj))
    return threads, len(ev), forks, joins


def trace_case(trace):
    """encode one thread's trace for the model: table + events"""
    mids, vids = {}, {}
    fields_ev = []
    for kind, name, obj in trace:
        if kind in ("lock", "unlock"):
            k = mids.setdefault((name, obj), len(mids) + 1)
            fields_ev.append(("L" if kind == "lock" else "U") + str(k))
        else:
            k = vids.setdefault((name, obj), len(vids) + 1)
            fields_ev.append(("R" if kind == "rd" else "W") + str(k))
    table = []
    for (name, obj), k in vids.items():
        g = GUARD.get(name)
        if g is None:
            continue                        # unknown member: no table entry -> the model rejects the access
        table += [str(k), str(mids.setdefault((g, obj), len(mids) + 1))]
    return ["check", str(len(table) // 2)] + table + fields_ev


def tsan_search(run, rng, n_runs=40):
    """search aid only (not part of the claim): the same kind of runs under a -fsanitize=thread build;
    reports are listed in the evidence, a report that names one of the modelled members becomes a violation"""
    bd = os.path.join(vlib.BUILD, "repo_tsan")
    with vlib.Lock("repo_tsan"):
        if not os.path.exists(os.path.join(bd, "build.ninja")):
            rc, out, _ = vlib.sh(["cmake", "-G", "Ninja", "-S", vlib.REPO, "-B", bd, "-DCMAKE_BUILD_TYPE=RelWithDebInfo", "-DBUILD_TESTS=OFF",
                                  "-DCMAKE_CXX_FLAGS=-D%s -Wno-error -fsanitize=thread -O1 -g" % vlib.GUARD,
                                  "-DCMAKE_EXE_LINKER_FLAGS=-fsanitize=thread", "-DCMAKE_DISABLE_PRECOMPILE_HEADERS=ON"])
            if rc != 0:
                run.notes.append("tsan build could not be configured")
                run.extra["tsan"] = "configure failed"
                return
        rc, out, dt = vlib.sh(["ninja", "-C", bd, "cppcheck"], timeout=3000)
        if rc != 0:
            run.extra["tsan"] = "build failed: " + out[-300:]
            return
    exe = os.path.join(bd, "bin", "cppcheck")
    reports = {}
    for ri in range(n_runs):
        d = tempfile.mkdtemp(prefix="c16t_")
        try:
            names = []
            while len(names) < rng.randint(3, 8):
                case = G.gen_case(rng, trigger_macro=True, with_header=False)
                for n in case["names"]:
                    nn = "r%d_%s" % (len(names), n)
                    open(os.path.join(d, nn), "w").write(case["files"][n])
                    names.append(nn)
            args = ["-q", "-j%d" % rng.choice([2, 3, 4, 8]), "--executor=thread", "--inline-suppr", "--showtime=summary", "--enable=warning,style"]
            e = dict(os.environ)
            e["TSAN_OPTIONS"] = "halt_on_error=0 report_signal_unsafe=0 exitcode=0"
            p = subprocess.run([exe] + args + names, cwd=d, env=e, stdout=subprocess.PIPE, stderr=subprocess.PIPE, timeout=600)
            err = p.stderr.decode("utf-8", "replace")
            for blk in err.split("WARNING: ThreadSanitizer:")[1:]:
                frames = re.findall(r"#\d+ (\S+) [^\n]*?([\w./]+\.(?:cpp|h):\d+)", blk)
                top = next((f for f in frames if "/lib/" in f[1] or "/cli/" in f[1] or f[1].startswith(("lib/", "cli/"))), frames[0] if frames else ("?", "?"))
                key = "%s %s @ %s" % (blk.split("\n", 1)[0].strip()[:40], top[0][:60], top[1])
                reports[key] = reports.get(key, 0) + 1
            run.count("TSan search (aid, not claimed)", None, nontrivial=ri, bucket="reports" if "WARNING: ThreadSanitizer:" in err else "clean")
        finally:
            shutil.rmtree(d, ignore_errors=True)
    run.extra["tsan_reports"] = reports
    for key in reports:
        if any(re.search(r"suppressions\.cpp|threadexecutor\.cpp|executor\.cpp|timer\.cpp", key) for _ in [0]):
            run.violation("tsan:" + vlib.hashlib.sha1(key.encode()).hexdigest()[:10], "ThreadSanitizer report in an instrumented file: " + key,
                          {"report": key, "count": reports[key], "how": "build/repo_tsan/bin/cppcheck -q -jN --executor=thread --inline-suppr --showtime=summary <generated files>"})


def check(run, replay):
    quick = run.tier == "quick"
    rng = run.rng
    run.trusted_base += [
        "Coq 8.16.1 kernel (coqc); extraction: Require Extraction + ExtrOcamlBasic only; ocaml/driver.ml",
        "hooks 365f587 + 66319a6 (lib/verifev.h + VERIF_EV lines): a `lock` line is written after the guard is constructed and the `unlock` line before it is destroyed (RAII object declared right after the guard, referring to it); before every logged access the scopes of the thread are revalidated against the real guards (unique_lock::owns_lock), so an early unlock()/re-lock() shows as an event; Suppression::matched/checked of list entries are tracked fields: every read/write of them, wherever it is written in the source, is logged as an access to the owning list (source scan on every run)",
        "tools/props/c16.py: guard table (member -> mutex of the same object), restriction of the main thread's trace to the fork..join phase (before/after, thread creation and join order the accesses)",
        "the calculus: std::mutex = non-recursive exclusive lock; sequentially consistent interleavings (data-race freedom of the observed traces under SC implies SC behaviour by the C++ memory model's DRF guarantee - not formalised)",
        "LIMIT: shared state that is not instrumented is invisible: Library and Settings objects (read-only by design during analysis), static data in lib/ (caches, static locals), Settings::mTerminated (std::atomic<bool>, checked syntactically), TimerResults::getResults, std::cout/std::cerr, the AnalyzerInformation files of --cppcheck-build-dir",
    ]
    run.assumptions += ["g++ compiles /repo faithfully", "the instrumented binary takes the same synchronisation decisions as the uninstrumented one (the hook only appends to a log under its own mutex)"]
    run.extra["rule"] = ("runs of the hooked binary with --executor=thread: 3-8 generated C files (C17 generator: planted findings, inline suppressions, duplicate contents), "
                         "-j2/-j3/-j4/-j8, with/without --inline-suppr, --showtime=summary, --enable sets, --suppress; one evaluation = one thread's trace of one run "
                         "checked by the extracted check_thread; non-trivial = trace contains at least one lock and one guarded access, distinct event sequence.")

    vlib.ensure_repo_build()
    ok = run.prove(extra_targets=["theories/Conc/Run.vo"])
    if not ok:
        run.violation("proof:" + PID, "Properties_C16.vo does not build: " + str(run.proof_error())[:300],
                      {"broken": "proof", "detail": run.proof_error()}, found_input=False)
    model = vlib.build_model(PID) if os.path.exists(os.path.join(vlib.COQ, "theories/Conc/Run.vo")) else None

    problems = scan_sources(vlib.REPO)
    run.extra["source_scan_problems"] = problems
    for pb in problems[:5]:
        run.violation("scan:" + vlib.hashlib.sha1(pb.encode()).hexdigest()[:10], "instrumentation incomplete: " + pb,
                      {"broken": "source scan", "detail": pb}, found_input=False)
    if model is None:
        return

    n_runs = 40 if quick else 400
    kinds_seen = {}
    for ri in range(n_runs):
        d = tempfile.mkdtemp(prefix="c16_")
        try:
            names = []
            while len(names) < rng.randint(3, 8):
                case = G.gen_case(rng, trigger_macro=True, with_header=rng.random() < 0.3)
                for n in case["names"]:
                    nn = "r%d_%s" % (len(names), n)
                    open(os.path.join(d, nn), "w").write(case["files"][n])
                    names.append(nn)
                if case["header"]:
                    open(os.path.join(d, case["header"]), "w").write(G.HEADER_SRC % 0)
            jobs = rng.choice([2, 2, 3, 4, 8])
            args = ["-q", "-j%d" % jobs, "--executor=thread"]
            if rng.random() < 0.7:
                args.append("--inline-suppr")
            if rng.random() < 0.6:
                args.append("--showtime=" + rng.choice(["summary", "file", "top5_file"]))
            if rng.random() < 0.5:
                args.append("--enable=" + rng.choice(["warning", "style,warning", "warning,style,performance,portability,information"]))
            if rng.random() < 0.3:
                args.append("--suppress=" + rng.choice(["nullPointer", "zerodiv:" + names[0], "*:" + names[-1]]))
            log = os.path.join(d, "ev.log")
            e = dict(os.environ)
            e["VERIF_EVLOG"] = log
            p = subprocess.run([vlib.CPPCHECK] + args + names, cwd=d, env=e, stdout=subprocess.PIPE, stderr=subprocess.PIPE, timeout=300)
            if not os.path.exists(log):
                run.violation("hook:evlog", "VERIF_EVLOG produced no log (hook missing?)", {"broken": "hook", "args": args}, found_input=False)
                break
            threads, total, forks, joins = parse_log(log)
            if forks != 1 or joins != 1:
                run.violation("hook:forkjoin", "expected one fork and one join marker, got %d/%d" % (forks, joins),
                              {"broken": "hook", "args": args}, found_input=False)
            lines, tids = [], []
            for tid, tr in threads.items():
                lines.append(vlib.enc_case(trace_case(tr)))
                tids.append(tid)
            if not lines:
                continue
            _, mo, _ = vlib.run_lines([model], lines)
            for tid, line, o in zip(tids, lines, mo):
                tr = threads[tid]
                res = vlib.dec_line(o)
                nlock = sum(1 for k, _, _ in tr if k == "lock")
                nacc = sum(1 for k, _, _ in tr if k in ("rd", "wr"))
                for k, n_, _ in tr:
                    kinds_seen[(k, n_)] = kinds_seen.get((k, n_), 0) + 1
                run.count("X thread traces", None, nontrivial=tuple((k, n_) for k, n_, _ in tr) if nlock and nacc else None,
                          bucket="j%d,threads%d,%s" % (jobs, len(threads), "events<100" if len(tr) < 100 else "events<1000" if len(tr) < 1000 else "events>=1000"))
                if res != [b"1"]:
                    run.stream("X thread traces")["disagreements"] += 1
                    idx = int(res[1]) if len(res) > 1 and res[1].isdigit() else -1
                    around = tr[max(0, idx - 6):idx + 3] if idx >= 0 else tr[:8]
                    k, n_, o_ = tr[idx] if 0 <= idx < len(tr) else ("?", "?", "?")
                    run.violation("trace:%s:%s" % (k, n_),
                                  "thread trace violates the lockset discipline at event %d: %s %s (guard %s not held)" % (idx, k, n_, GUARD.get(n_, "<none in table>")),
                                  {"args": args + names, "thread": tid, "event_index": idx, "event": [k, n_, o_], "events_around": around, "model_answer": vlib.show(res),
                                   "sources": {n: open(os.path.join(d, n)).read() for n in names[:4]},
                                   "how": "VERIF_EVLOG=ev.log cppcheck %s <files>; the thread's lines of ev.log between the fork and join markers, checked with check_thread" % " ".join(args)})
            if len(run.samples) < 3:
                run.samples.append({"stream": "X", "args": args, "threads": len(threads), "events": total})
            # negative control on the real trace: drop one lock event -> must be rejected
            for tid, tr in list(threads.items())[:1]:
                li = [i for i, (k, _, _) in enumerate(tr) if k == "lock"]
                if li:
                    i = rng.choice(li)
                    guarded_after = any(k in ("rd", "wr") for k, _, _ in tr[i + 1:i + 3])
                    cut = tr[:i] + tr[i + 1:]
                    _, mo, _ = vlib.run_lines([model], [vlib.enc_case(trace_case(cut))])
                    res = vlib.dec_line(mo[0])
                    run.count("negative control", None, nontrivial=(ri, i), bucket="rejected" if res != [b"1"] else "accepted")
                    if res == [b"1"]:
                        run.stream("negative control")["disagreements"] += 1
                        run.violation("negctl", "a trace with a lock event removed is accepted by check_thread",
                                      {"broken": "comparator", "removed_index": i, "events_around": tr[max(0, i - 3):i + 4]}, found_input=False)
        finally:
            shutil.rmtree(d, ignore_errors=True)
    if not quick:
        tsan_search(run, rng)
    run.extra["event_kinds_seen"] = {"%s %s" % k: v for k, v in sorted(kinds_seen.items())}
    missing = [m for m in GUARD if ("wr", m) not in kinds_seen and ("rd", m) not in kinds_seen]
    if missing:
        run.notes.append("guarded members never observed in this run: " + ", ".join(missing))
        run.extra["members_never_observed"] = missing


if __name__ == "__main__":
    vlib.main(check, PID)
