#!/usr/bin/env python3
"""C30  Library configuration semantics are applied as declared.

translate:  tools/translate/valids.py -> coq/theories/Lib/Gen_Valids.v (every <valid> text of cfg/*.cfg)
prove:      coq/theories/Properties_C30.v (isIntArgValid's token walk = the documented grammar's
            denotation, documented expressions load, <arg> children, shipped table)
correspond: extracted model (Lib/Run.v) vs harness/vh_c30.cpp on the real
            Library::isCompliantValidationExpression, Library::load + isIntArgValid,
            isnullargbad/isboolargbad/validarg; and vs the real cppcheck binary on generated
            cfg + C files (invalidFunctionArg / invalidFunctionArgBool / nullPointer per call)
search:     a disagreement is evaluated against the documented meaning (spec) -> failing input
loading:    mutated shipped cfg files through the real binary: must never die by a signal
            (differential only, no theorem: the claim is "partial")
"""
import hashlib
import os
import re
import subprocess
import sys
import tempfile

sys.path.insert(0, os.path.dirname(os.path.dirname(os.path.abspath(__file__))))
import vlib
from props import lib_common as L
from translate import valids as T

PID = "C30"
XML_BAD = set(b"<>&\x00\r")


def xml_safe(t):
    return not any(c in XML_BAD for c in t)


def canon_exc(o):
    return [b"X"] if o and o[0] == "!exc" else o


def model_eval(model, tag, cases):
    rc, out, err = vlib.run_lines([model], [vlib.enc_case([tag] + list(c)) for c in cases])
    if rc != 0 or len(out) != len(cases):
        raise vlib.BuildError("model run failed (%s): %s" % (tag, err[-1000:]))
    return [vlib.dec_line(o) for o in out]


def check(run, replay):
    quick = run.tier == "quick"
    rng = run.rng
    run.level = "proof"
    run.trusted_base += [
        "Coq 8.16.1 kernel (coqc); vm_compute only for the regenerated table (40 shipped texts) and closed witnesses; no native_compute",
        "extraction: Require Extraction + ExtrOcamlBasic only; Z/N/positive stay Coq datatypes",
        "ocaml/driver.ml, harness/vh_common.h + vh_c30.cpp (decode a case, build a one-function cfg document in memory, Library::load(doc), call isIntArgValid / isCompliantValidationExpression / isnullargbad / isboolargbad / validarg)",
        "tools/translate/valids.py (ElementTree reads cfg/*.cfg; fails if a <valid> sits outside function/arg or none is found)",
        "modelled, not verified: lib/library.cpp isCompliantValidationExpression, gettokenlistfromvalid, isIntArgValid, the <arg> child loop of loadFunction; "
        "simplecpp tokenisation restricted to compliant texts over 0-9 : , - + ! ; MathLib::toBigNumber on [-]digits; "
        "lib/checkfunctions.cpp invalidFunctionUsage and checknullpointer.cpp nullConstantDereference as decision kernels for constant arguments",
        "not modelled: expressions containing '.', 'e' or 'E' (isFloatArgValid, double comparisons): the model answers 'O' there, counted, never compared",
        "loading robustness (malformed cfg never crashes) is a differential run only; no theorem",
    ]
    run.assumptions += ["g++ compiles /repo faithfully", "tinyxml2 delivers the element text unchanged (GetText)"]
    run.extra["rule"] = (
        "compliant: corpus + generated texts (70% grammar/near-grammar/random over 0-9:,-+! , 30% any bytes incl. NUL, >=0x80); "
        "non-trivial = distinct text made only of accepted characters (the verdict depends on the state machine). "
        "intvalid: texts 40% documented grammar, 35% one-to-three edits of it, 15% random over the alphabet, 10% with . e E or foreign bytes; "
        "values = every bound under decimal and octal reading +-1, negated, wrapped to 64 bit, 0, +-1, INT64 extremes, 3 random; "
        "non-trivial = distinct (text, value) on which the library loaded and the model answers 0/1/X. "
        "calls: one real cppcheck run per batch of generated functions (children subset of not-null/not-bool/not-uninit/valid) "
        "and calls with constants around the bounds, NULL, boolean expressions, unknown values; non-trivial = distinct (children, argument). "
        "loading: byte- and element-level mutants of cfg/*.cfg through the binary.")

    vlib.ensure_repo_build()

    # ---- translator
    shipped = None
    try:
        texts, where, nfiles = T.write()
        shipped = (texts, where)
        run.extra["shipped_valids"] = {"distinct": len(texts), "occurrences": sum(len(v) for v in where.values()), "cfg_files": nfiles}
    except Exception as e:  # translator cannot find what it expects
        run.violation("translate:valids", "valids.py failed: %s" % str(e)[:300], {"broken": "translator", "detail": str(e)}, found_input=False)

    ok = run.prove()
    have_model = os.path.exists(os.path.join(vlib.COQ, "theories/Lib/Run.vo"))
    model = vlib.build_model(PID) if have_model else None
    if model is None:
        run.violation("proof:" + PID, "Lib/Run.vo does not build: " + str(run.proof_error())[:300],
                      {"broken": "proof", "detail": run.proof_error()}, found_input=False)
        return
    vh = vlib.build_harness(PID)

    if replay:
        do_replay(run, model, vh, replay)
        return

    if not ok:
        # which shipped text breaks the table theorem? -> concrete input
        found = False
        if shipped:
            texts = shipped[0]
            comp = model_eval(model, "compliant", [[t] for t in texts])
            spec = model_eval(model, "spec", [[t, b"0"] for t in texts])
            for t, c, s in zip(texts, comp, spec):
                intdom = not any(ch in t for ch in b".eE")
                if c != [b"1"] or (intdom and s in ([b"N"], [b"K"])):
                    found = True
                    run.violation("shipped:" + t.hex(), "shipped <valid>%s</valid> (%s) is %s" % (
                        vlib.show(t), shipped[1][t][0], "refused by the loader" if c != [b"1"] else "outside the documented grammar / 64-bit ordered bounds"),
                        {"valid_text": vlib.show(t), "where": shipped[1][t][:5], "compliant": vlib.show(c), "spec": vlib.show(s)})
        if not found:
            run.violation("proof:" + PID, "Properties_C30.vo does not build: " + str(run.proof_error())[:300],
                          {"broken": "proof", "detail": run.proof_error()}, found_input=False)

    # ---- stream 1: isCompliantValidationExpression
    n = 20000 if quick else 400000
    cases = [[t] for t in L.CORPUS_VALID] + [[L.gen_any_text(rng)] for _ in range(n)]
    cases = [list(c) for c in dict.fromkeys(tuple(c) for c in cases)]
    accepted = set(b"0123456789:,-+.eE!")
    diffs = vlib.correspond(run, "compliant", model, [vh, "compliant"], cases, tag="compliant",
                            nontrivial=lambda c, m, i: c[0] if c[0] and all(ch in accepted for ch in c[0]) else None,
                            bucket=lambda c, m, i: ("accept" if m == [b"1"] else "refuse") + "," + ("alphabet" if all(ch in accepted for ch in c[0]) else "foreign"))
    for c, m, i in sorted(diffs, key=lambda d: len(d[0][0]))[:3]:
        run.violation("compliant:" + c[0].hex(), "model and isCompliantValidationExpression disagree on %r: model %s, code %s" % (c[0], vlib.show(m), vlib.show(i)),
                      {"broken": "correspondence compliant", "text": vlib.show(c[0]), "model": vlib.show(m), "impl": vlib.show(i),
                       "how": "echo '%s' | build/harness/vh_c30 compliant" % vlib.enc_case(c)}, found_input=False)

    # ---- stream 2: Library::load + isIntArgValid
    n = 2500 if quick else 60000
    texts2 = [t for t in L.CORPUS_VALID if xml_safe(t)] + [L.gen_valid_text(rng) for _ in range(n)]
    if shipped:
        texts2 += shipped[0]
    cases = []
    for t in dict.fromkeys(texts2):
        if not xml_safe(t):
            continue
        for z in L.values_for(rng, t):
            cases.append([t, str(z).encode(), rng.choice([b"c", b"cpp"])])
    diffs = vlib.correspond(run, "isIntArgValid", model, [vh, "intvalid"], cases, tag="intvalid", canon=canon_exc,
                            nontrivial=lambda c, m, i: (c[0], c[1]) if m in ([b"0"], [b"1"], [b"X"]) else None,
                            bucket=lambda c, m, i: {b"0": "invalid", b"1": "valid", b"X": "throws", b"O": "float-path(not compared)", b"E": "refused-at-load"}.get(m[0] if m else b"?", "?") + "|" + L.shape(c[0]))
    diffs = [d for d in diffs if d[1] != [b"O"]]
    judge(run, model, "isIntArgValid", diffs)

    # ---- stream 2b: the documented meaning itself on the implementation (grammar texts only)
    n = 1500 if quick else 40000
    gtexts = list(dict.fromkeys([L.gen_grammar(rng) for _ in range(n)] + ([t for t in shipped[0] if not any(ch in t for ch in b".eE")] if shipped else [])))
    cases = []
    for t in gtexts:
        for z in L.values_for(rng, t, extra=1):
            cases.append([t, str(z).encode(), b"c"])
    spec = model_eval(model, "spec", [c[:2] for c in cases])
    rc, io, ie = vlib.run_lines([vh, "intvalid"], [vlib.enc_case(c) for c in cases])
    nbad = 0
    for c, s, o in zip(cases, spec, io):
        i = canon_exc(vlib.dec_line(o))
        comparable = s in ([b"0"], [b"1"])
        run.count("documented-meaning", None, nontrivial=(c[0], c[1]) if comparable else None,
                  bucket=("in" if s == [b"1"] else "out" if s == [b"0"] else "side-condition-fails(not compared)"))
        if comparable and i != s:
            nbad += 1
            if nbad <= 3:
                run.violation("spec:%s:%s" % (c[0].hex(), c[1].decode()),
                              "isIntArgValid(<valid>%s</valid>, %s) = %s but the documented meaning is %s" % (vlib.show(c[0]), c[1].decode(), vlib.show(i), vlib.show(s)),
                              {"valid_text": vlib.show(c[0]), "value": c[1].decode(), "impl": vlib.show(i), "documented": vlib.show(s),
                               "how": "echo '%s' | build/harness/vh_c30 intvalid" % vlib.enc_case(c)})
    run.stream("documented-meaning")["disagreements"] += nbad

    # ---- stream 2c: `!v` with an integer v (manual: "all values are accepted, except v"; was finding valid-bang-int, fixed by b7bc34c)
    bang = []
    for v in (0, 1, 5, -3, 255):
        for z in (v, v + 1, v - 1, 0, 100):
            bang.append([("!%d" % v).encode(), str(z).encode(), b"c", v, z])
    rc, io, ie = vlib.run_lines([vh, "intvalid"], [vlib.enc_case(c[:3]) for c in bang])
    for c, o in zip(bang, io):
        i = canon_exc(vlib.dec_line(o))
        doc = [b"1"] if c[4] != c[3] else [b"0"]
        run.count("bang-int", None, nontrivial=(c[0], c[1]), bucket="agrees" if i == doc else "deviates")
        if i != doc:
            run.stream("bang-int")["disagreements"] += 1
            run.violation("valid-bang-int",
                          "<valid>%s</valid>: isIntArgValid(%s) = %s, the manual's meaning of '!' (all values except) is %s" % (c[0].decode(), c[1].decode(), vlib.show(i), vlib.show(doc)),
                          {"valid_text": c[0].decode(), "value": c[1].decode(), "impl": vlib.show(i), "documented": vlib.show(doc),
                           "how": "cfg: <function name=\"f\"><arg nr=\"1\"><valid>!0</valid></arg></function>; code: void g(void){ f(0); f(1); } -> "
                                  "cppcheck --library=x.cfg reports invalidFunctionArg for f(1) ('The value is 1 but the valid values are '!0'') and nothing for f(0)"})

    # ---- stream 3: the children of <arg>
    n = 1500 if quick else 30000
    cases = []
    for _ in range(n):
        cs = []
        for _ in range(rng.choice([0, 1, 1, 2, 3, 4])):
            k = rng.random()
            if k < 0.5:
                cs.append(rng.choice([b"n", b"b", b"u", b"o"]))
            else:
                t = L.gen_valid_text(rng)
                cs.append(b"v" + (t if xml_safe(t) and b" " not in t and b"\t" not in t else L.gen_grammar(rng)))
        cases.append(cs)
    cases = [list(c) for c in dict.fromkeys(tuple(c) for c in cases) if c]
    diffs = vlib.correspond(run, "arg-children", model, [vh, "argflags"], cases, tag="argflags",
                            nontrivial=lambda c, m, i: tuple(c),
                            bucket=lambda c, m, i: "refused" if m and m[0] == b"E" else "loaded,%d-children" % len(c))
    for c, m, i in sorted(diffs, key=lambda d: len(d[0]))[:2]:
        run.violation("children:" + hashlib.sha1(vlib.enc_case(c).encode()).hexdigest()[:12],
                      "<arg> children %s: model %s, Library %s" % (vlib.show(c), vlib.show(m), vlib.show(i)),
                      {"broken": "correspondence arg-children", "children": vlib.show(c), "model": vlib.show(m), "impl": vlib.show(i),
                       "how": "echo '%s' | build/harness/vh_c30 argflags" % vlib.enc_case(c)}, found_input=False)

    # ---- stream 4: end to end through the real binary
    e2e(run, model, rng, batches=2 if quick else 40, nfun=120 if quick else 250)

    # ---- stream 5: loading robustness (differential only)
    load_mutants(run, rng, n=60 if quick else 1500)


def do_replay(run, model, vh, path):
    """Re-run one recorded failing input on the current tree."""
    import json
    d = json.load(open(path))
    if "valid_text" in d and "value" in d:
        t = d["valid_text"]
        t = bytes.fromhex(t[4:]) if t.startswith("hex:") else t.encode("latin-1")
        c = [t, str(d["value"]).encode(), b"c"]
        rc, io, ie = vlib.run_lines([vh, "intvalid"], [vlib.enc_case(c)])
        i = canon_exc(vlib.dec_line(io[0]))
        s = model_eval(model, "spec", [c[:2]])[0]
        m = model_eval(model, "intvalid", [c])[0]
        doc = s
        if t.startswith(b"!") and s == [b"N"]:
            try:
                doc = [b"1"] if int(t[1:]) != int(d["value"]) else [b"0"]
            except ValueError:
                pass
        vlib.log("replay: impl %s, documented %s, model %s" % (vlib.show(i), vlib.show(doc), vlib.show(m)))
        if doc in ([b"0"], [b"1"]) and i != doc:
            run.violation(d.get("key", "replay"), d.get("what", "replayed input still fails"), d)
        elif m != i and m != [b"O"]:
            run.violation(d.get("key", "replay"), "model and Library disagree on the replayed input", d, found_input=False)
    elif "cfg" in d and "c" in d and os.path.exists(str(d["cfg"])):
        p = subprocess.run([vlib.CPPCHECK, "--library=" + d["cfg"], "--template={line}:{id}", "-q", d["c"]], stdout=subprocess.PIPE, stderr=subprocess.STDOUT)
        vlib.log(p.stdout.decode("utf-8", "replace")[-2000:])
        if p.returncode < 0:
            run.violation(d.get("key", "replay"), d.get("what", ""), d)
    elif "cfg" in d and os.path.exists(str(d["cfg"])):
        tmp = tempfile.mkdtemp(prefix="c30r_")
        srcp = os.path.join(tmp, "t.c")
        open(srcp, "w").write("void f(int x) { memset(0, x, 1); }\n")
        p = subprocess.run([vlib.CPPCHECK, "--library=" + d["cfg"], "-q", srcp], stdout=subprocess.PIPE, stderr=subprocess.STDOUT)
        vlib.log("replay: rc=%s %s" % (p.returncode, p.stdout.decode("utf-8", "replace")[-300:]))
        if p.returncode < 0:
            run.violation(d.get("key", "replay"), d.get("what", ""), d)
    elif "cfg" in d and "c" in d:      # inline texts (end-to-end case)
        tmp = tempfile.mkdtemp(prefix="c30r_")
        open(os.path.join(tmp, "f.cfg"), "w").write(d["cfg"])
        open(os.path.join(tmp, "f.c"), "w").write(d["c"])
        p = subprocess.run([vlib.CPPCHECK, "--library=" + os.path.join(tmp, "f.cfg"), "--template={line}:{id}", "-q", os.path.join(tmp, "f.c")],
                           stdout=subprocess.PIPE, stderr=subprocess.STDOUT)
        got = sorted(set(re.findall(r":(invalidFunctionArgBool|invalidFunctionArg|nullPointer)\b", p.stdout.decode("utf-8", "replace"))))
        vlib.log("replay: reported %s, recorded %s" % (got, d.get("reported")))
        if got == sorted(d.get("reported", [])):
            run.violation(d.get("key", "replay"), d.get("what", ""), d)
    else:
        vlib.log("replay: nothing replayable in " + path)


def judge(run, model, stream, diffs):
    """A disagreement: evaluate the documented meaning on the same input."""
    shown = 0
    for c, m, i in sorted(diffs, key=lambda d: (len(d[0][0]) + len(d[0][1]), d[0][0], d[0][1])):
        if shown >= 3:
            break
        shown += 1
        s = model_eval(model, "spec", [c[:2]])[0]
        how = "echo '%s' | build/harness/vh_c30 intvalid" % vlib.enc_case(c)
        if s in ([b"0"], [b"1"]) and i != s:
            run.violation("spec:%s:%s" % (c[0].hex(), c[1].decode()),
                          "isIntArgValid(<valid>%s</valid>, %s) = %s but the documented meaning is %s" % (vlib.show(c[0]), c[1].decode(), vlib.show(i), vlib.show(s)),
                          {"valid_text": vlib.show(c[0]), "value": c[1].decode(), "impl": vlib.show(i), "documented": vlib.show(s), "model": vlib.show(m), "how": how})
        else:
            run.violation("model:%s:%s" % (c[0].hex(), c[1].decode()),
                          "model and Library disagree on <valid>%s</valid>, value %s: model %s, code %s (documented meaning: %s)" % (
                              vlib.show(c[0]), c[1].decode(), vlib.show(m), vlib.show(i), vlib.show(s)),
                          {"broken": "correspondence " + stream, "valid_text": vlib.show(c[0]), "value": c[1].decode(), "model": vlib.show(m), "impl": vlib.show(i), "how": how},
                          found_input=False)


# ------------------------------------------------------------------ end to end
def c_literal(z):
    if -(1 << 31) < z < (1 << 31):
        return str(z)
    return "%dLL" % z


def e2e(run, model, rng, batches, nfun):
    ids = {"invalidFunctionArg": 0, "invalidFunctionArgBool": 1, "nullPointer": 2}
    tmp = tempfile.mkdtemp(prefix="c30_")
    try:
        for b in range(batches):
            funs, calls = [], []      # calls: (line, fidx, kindfield, ctext)
            for f in range(nfun):
                cs = []
                if rng.random() < 0.8:
                    for _ in range(40):
                        t = L.gen_grammar(rng) if rng.random() < 0.6 else L.gen_valid_text(rng)
                        if xml_safe(t) and not any(ch in t for ch in b".eE \t") and not re.search(rb"[0-9]{19,}", t) and t:
                            break
                    else:
                        t = b"0:"
                    cs.append(b"v" + t)
                for k in (b"n", b"b", b"u"):
                    if rng.random() < 0.35:
                        cs.append(k)
                rng.shuffle(cs)
                funs.append(cs)
            # refuse non-compliant texts up front (the whole cfg would be refused)
            flags = model_eval(model, "argflags", funs)
            funs = [cs if fl and fl[0] != b"E" else [c for c in cs if not c.startswith(b"v")] for cs, fl in zip(funs, flags)]
            funs = [cs if cs else [b"o"] for cs in funs]
            cfg = ['<?xml version="1.0"?>', "<def>"]
            for f, cs in enumerate(funs):
                inner = "".join({"n": "<not-null/>", "b": "<not-bool/>", "u": "<not-uninit/>", "o": "<strz/>"}.get(c.decode("latin-1"), "")
                                if not c.startswith(b"v") else "<valid>%s</valid>" % c[1:].decode("latin-1") for c in cs)
                cfg.append('<function name="vf_%d"><arg nr="1">%s</arg></function>' % (f, inner))
            cfg.append("</def>")
            src = ["void vf_caller(int x, int y, char *p) {"]
            for f, cs in enumerate(funs):
                vt = next((c[1:] for c in cs if c.startswith(b"v")), b"")
                vals = [v for v in L.values_for(rng, vt, extra=1) if abs(v) < (1 << 63) - 1]
                rng.shuffle(vals)
                vals = sorted(set(vals[:5] + [0, 1]))
                for z in vals:
                    txt = "NULL" if z == 0 and rng.random() < 0.3 else c_literal(z)
                    calls.append((len(src) + 1, f, b"i" + str(z).encode(), txt))
                    src.append("  vf_%d(%s);" % (f, txt))
                for txt in rng.sample(["x == 1", "!x", "x < y", "x && y"], 2):
                    calls.append((len(src) + 1, f, b"b", txt))
                    src.append("  vf_%d(%s);" % (f, txt))
                txt = rng.choice(["x", "p", "x + y"])
                calls.append((len(src) + 1, f, b"o", txt))
                src.append("  vf_%d(%s);" % (f, txt))
            src.append("}")
            cfgp, srcp = os.path.join(tmp, "b%d.cfg" % b), os.path.join(tmp, "b%d.c" % b)
            open(cfgp, "w").write("\n".join(cfg) + "\n")
            open(srcp, "w").write("\n".join(src) + "\n")
            p = subprocess.run([vlib.CPPCHECK, "--library=" + cfgp, "--template={line}:{id}", "-q", "--max-ctu-depth=0", srcp],
                               stdout=subprocess.PIPE, stderr=subprocess.STDOUT, timeout=900)
            out = p.stdout.decode("utf-8", "replace")
            got, other = {}, []
            for line in out.splitlines():
                m = re.match(r"^(\d+):(\w+)$", line.strip())
                if m and m.group(2) in ids:
                    got.setdefault(int(m.group(1)), set()).add(m.group(2))
                elif line.strip():
                    other.append(line.strip())
            if p.returncode < 0 or other:
                keep = os.path.join(vlib.BUILD, "replay", "C30-e2e-b%d" % b)
                os.makedirs(keep, exist_ok=True)
                for q in (cfgp, srcp):
                    os.replace(q, os.path.join(keep, os.path.basename(q)))
                run.violation("e2e-run:%d" % b, "cppcheck on a generated cfg/C pair: rc=%s, unexpected output %s" % (p.returncode, other[:3]),
                              {"cfg": os.path.join(keep, "b%d.cfg" % b), "c": os.path.join(keep, "b%d.c" % b), "rc": p.returncode, "output": other[:10],
                               "how": "build/repo/bin/cppcheck --library=<cfg> --template={line}:{id} -q <c>"}, found_input=p.returncode < 0)
                continue
            exp = model_eval(model, "call", [[k] + funs[f] for (_, f, k, _) in calls])
            nbad = 0
            for (line, f, k, txt), e in zip(calls, exp):
                g = got.get(line, set())
                gv = [b"1" if n in g else b"0" for n in ("invalidFunctionArg", "invalidFunctionArgBool", "nullPointer")]
                comparable = len(e) == 3
                run.count("cppcheck-run", None, nontrivial=(tuple(funs[f]), k) if comparable else None,
                          bucket=("arg=%s bool=%s null=%s" % tuple(x.decode() for x in e)) if comparable else "model:" + vlib.show(e)[0])
                if comparable and gv != e:
                    nbad += 1
                    if nbad <= 2:
                        one_cfg = '<?xml version="1.0"?>\n<def>\n' + cfg[2 + f].replace("vf_%d" % f, "f") + "\n</def>\n"
                        one_c = "void g(int x, int y, char *p) {\n  f(%s);\n}\n" % txt
                        run.violation("e2e:" + hashlib.sha1((one_cfg + one_c).encode()).hexdigest()[:12],
                                      "cppcheck reports %s for f(%s) with <arg>%s</arg>; the model of the declared restrictions says %s (invalidFunctionArg, invalidFunctionArgBool, nullPointer)" % (
                                          vlib.show(gv), txt, vlib.show(funs[f]), vlib.show(e)),
                                      {"cfg": one_cfg, "c": one_c, "reported": sorted(g), "expected_arg_bool_null": vlib.show(e),
                                       "how": "cppcheck --library=f.cfg --template={line}:{id} -q f.c"})
            run.stream("cppcheck-run")["disagreements"] += nbad
    finally:
        import shutil
        shutil.rmtree(tmp, ignore_errors=True)


# ------------------------------------------------------------------ loading robustness
def mutate_cfg(rng, data):
    data = bytearray(data)
    kind = rng.random()
    if kind < 0.45:     # byte level
        for _ in range(rng.choice([1, 1, 2, 5, 20])):
            if not data:
                break
            pos = rng.randrange(len(data))
            k = rng.randrange(4)
            if k == 0:
                data[pos] = rng.randrange(256)
            elif k == 1:
                del data[pos]
            elif k == 2:
                data.insert(pos, rng.choice(b"<>/\"'&=!-:,.0123456789 \x00\xff"))
            else:
                end = min(len(data), pos + rng.randrange(1, 200))
                del data[pos:end]
        return bytes(data), "bytes"
    txt = bytes(data)
    if kind < 0.65:     # attribute values
        ms = list(re.finditer(rb'="([^"]*)"', txt))
        if ms:
            m = rng.choice(ms)
            new = rng.choice([b"", b"-1", b"99999999999999999999", b"any", b"variadic", b"0", b"x" * 300, b"1,2", b"%", b"true", b"&lt;", b"nan"])
            return txt[:m.start(1)] + new + txt[m.end(1):], "attribute"
    if kind < 0.8:      # element text
        ms = list(re.finditer(rb">([^<>\s][^<>]*)<", txt))
        if ms:
            m = rng.choice(ms)
            new = rng.choice([b"", b":", b"1:2:3", b"-", b"!", b"1e", b"99999999999999999999999", b"arg1", b"arg9999999999", b"strlen(arg1", b"\xff\xfe", b"0x", b"1.5.5", b" "])
            return txt[:m.start(1)] + new + txt[m.end(1):], "text"
    # element level: drop / duplicate / rename a tag
    ms = list(re.finditer(rb"<(/?)([A-Za-z][A-Za-z0-9-]*)", txt))
    if ms:
        m = rng.choice(ms)
        k = rng.randrange(3)
        if k == 0:
            return txt[:m.start(2)] + rng.choice([b"valid", b"arg", b"function", b"container", b"x", b"minsize", b"not-null", b"podtype", b"define", b"memory"]) + txt[m.end(2):], "rename"
        end = txt.find(b">", m.end())
        if end > 0:
            if k == 1:
                return txt[:m.start()] + txt[end + 1:], "drop-tag"
            return txt[:end + 1] + txt[m.start():end + 1] + txt[end + 1:], "dup-tag"
    return txt + b"<", "append"


# minimal malformed documents (each child of <def>): every element the loader reads text or numbers from
LOAD_PROBES = [
    '<function name="f"><noreturn/></function>', '<function name="f"><noreturn></noreturn></function>',
    '<memory><dealloc/></memory>', '<memory><alloc/></memory>', '<memory><realloc/></memory>', '<resource><use/></resource>',
    '<resource><alloc init="true"/><dealloc>x</dealloc></resource>',
    '<reflection><call arg="1"/></reflection>', '<reflection><call>x</call></reflection>',
    '<markup ext=".qml" reporterrors="false"><exported><exporter prefix="Q"><prefix/></exporter></exported></markup>',
    '<markup ext=".qml" reporterrors="false"><exported><exporter prefix="Q"><suffix/></exporter></exported></markup>',
    '<markup ext=".qml" reporterrors="false"><imported><importer/></imported></markup>',
    '<markup ext=".qml" reporterrors="false"><keywords><keyword/></keywords></markup>',
    '<markup ext=".qml" reporterrors="false"><codeblocks><block/><structure/></codeblocks></markup>',
    '<markup/>', '<define/>', '<podtype/>', '<container/>', '<smart-pointer/>', '<platformtype/>', '<entrypoint/>', '<memory/>',
    '<type-checks><unusedvar><check/><suppress/></unusedvar></type-checks>',
    '<function/>', '<function name=""/>', '<function name="f"><use-retval/><arg/></function>',
    '<function name="f"><arg nr="x"/></function>', '<function name="f"><arg nr="99999999999999999999"/></function>',
    '<function name="f"><arg nr="-1"/></function>', '<function name="f"><arg nr="1" direction="in" indirect="x"/></function>',
    '<function name="f"><arg nr="1"><not-uninit indirect="x"/></arg></function>',
    '<function name="f"><arg nr="1"><minsize/></arg></function>', '<function name="f"><arg nr="1"><minsize type="value" value="x"/></arg></function>',
    '<function name="f"><arg nr="1"><minsize type="mul" arg="1"/></arg></function>', '<function name="f"><arg nr="1"><iterator/></arg></function>',
    '<function name="f"><arg nr="1"><valid/></arg></function>', '<function name="f"><arg nr="1"><valid></valid></arg></function>',
    '<function name="f"><arg nr="1"><valid>1:2:3</valid></arg></function>', '<function name="f"><arg nr="1"><valid>99999999999999999999</valid></arg></function>',
    '<function name="f"><returnValue/></function>', '<function name="f"><returnValue type="int" container="x"/></function>',
    '<function name="f"><container/></function>', '<function name="f"><container yields="x"/></function>', '<function name="f"><formatstr/></function>',
    '<function name="f"><warn/></function>', '<function name="f"><warn severity="x"/></function>', '<function name="f"><not-overlapping-data/></function>',
    '<function name="f"><not-overlapping-data ptr1-arg="x"/></function>', '<function name="f"><leak-ignore/><pure/><const/></function>',
    '<container id="c"><size templateParameter="x"/></container>', '<container id="c"><type templateParameter="x"/></container>',
    '<container id="c"><access><function/></access></container>', '<container id="c"><rangeItemRecordType><member/></rangeItemRecordType></container>',
    '<container id="c" inherits="nope"/>', '<podtype name="p" size="x"/>', '<podtype name="p" sign="x"/>', '<define name="A"/>',
    '<platformtype name="t" value="int"><platform/></platformtype>', '<smart-pointer class-name="s"><unique/></smart-pointer>',
    '<unknown-element/>',
]


def classify(data, rc, out):
    """Stable key of a loader crash (root cause), so that a known finding can be matched."""
    if rc == -6:
        if "construction from null" in out:
            return "load-abort:null-text"
        if "to integer failed" in out:
            return "load-abort:strtoint"
        m = re.search(r"what\(\):\s*(.*)", out)
        return "load-abort:" + hashlib.sha1((m.group(1) if m else out[-200:]).encode()).hexdigest()[:10]
    if rc == -11:
        nr = re.search(rb"<noreturn\s*(/>|>\s*</noreturn>)", data)
        mem = re.search(rb"<(alloc|dealloc|realloc|use)(\s[^>]*)?(/>|>\s*</)", data)
        if nr and not mem:
            return "load-crash:noreturn-empty"
        if mem and not nr:
            return "load-crash:memory-empty-names"
    return "load-signal%d:%s" % (-rc, hashlib.sha1(data).hexdigest()[:12])


def load_one(run, tmp, srcp, data, kind, origin, idx):
    mp = os.path.join(tmp, "m%d.cfg" % idx)
    open(mp, "wb").write(data)
    try:
        p = subprocess.run([vlib.CPPCHECK, "--library=" + mp, "-q", "--template={id}", srcp],
                           stdout=subprocess.PIPE, stderr=subprocess.STDOUT, timeout=300)
        rc, out = p.returncode, p.stdout.decode("utf-8", "replace")
    except subprocess.TimeoutExpired:
        rc, out = "timeout", ""
    if rc == "timeout":
        cls = "timeout(noted)"
        run.notes.append("loading %s mutant of %s took > 300 s" % (kind, origin))
    elif rc < 0:
        cls = "signal"
    elif "Failed to load library" in out:
        cls = "load-error"
    else:
        cls = "loaded"
    run.count("load-mutants", None, nontrivial=hashlib.sha1(data).hexdigest(), bucket=cls + "|" + kind)
    if cls == "signal":
        key = classify(data, rc, out)
        keep = os.path.join(vlib.BUILD, "replay", "C30-%s.cfg" % re.sub(r"[^A-Za-z0-9-]", "_", key))
        os.makedirs(os.path.dirname(keep), exist_ok=True)
        if not os.path.exists(keep) or len(data) < os.path.getsize(keep):
            open(keep, "wb").write(data)
        run.stream("load-mutants")["disagreements"] += 1
        run.violation(key, "cppcheck dies with signal %d while loading a malformed library configuration (%s of %s): %s" % (
            -rc, kind, origin, out.strip().splitlines()[-1][:160] if out.strip() else ""),
            {"cfg": keep, "mutation": kind, "origin": origin, "signal": -rc, "output_tail": out[-400:],
             "how": "build/repo/bin/cppcheck --library=%s -q t.c   (t.c: any C file)" % keep})
    os.remove(mp)


def load_mutants(run, rng, n):
    import glob
    files = sorted(glob.glob(os.path.join(vlib.REPO, "cfg", "*.cfg")))
    files = [f for f in files if os.path.getsize(f) < 400000] or files
    tmp = tempfile.mkdtemp(prefix="c30m_")
    srcp = os.path.join(tmp, "t.c")
    open(srcp, "w").write("void f(int x) { memset(0, x, 1); strtol(\"1\", 0, 1); }\n")
    try:
        for k, body in enumerate(LOAD_PROBES):
            data = ('<?xml version="1.0"?>\n<def format="2">%s</def>\n' % body).encode()
            load_one(run, tmp, srcp, data, "probe", "probe %d" % k, k)
        for k in range(n):
            f = rng.choice(files)
            data, kind = mutate_cfg(rng, open(f, "rb").read())
            load_one(run, tmp, srcp, data, kind, os.path.basename(f), len(LOAD_PROBES) + k)
    finally:
        import shutil
        shutil.rmtree(tmp, ignore_errors=True)


if __name__ == "__main__":
    vlib.main(check, PID)
