#!/usr/bin/env python3
"""C17  A file's findings do not depend on the other files in the run.

prove:      coq/theories/Properties_C17.v (one reused CppCheck object as a state machine over
            abstract per-file analyses; clean-state lemma, invariant over any file sequence,
            isolation theorem; two refuted instances)
translate:  tools/translate/resets.py -> Iso/Gen_Resets.v (reset points and exits of
            CppCheck::check / checkInternal in source order; obligation: as modelled)
correspond: (XM) extracted model (Iso/Run.v) predicts, from the raw findings of each file
            (observed alone, no suppressions) and the generator's knowledge of inline
            suppressions / remark comments / macro locations, what the real binary forwards for
            every file in every rotation of the sequence;
            (X1) the property itself on the real binary: findings projected on one file, file
            analysed alone vs every rotation of the sequence, -j1;
            (X2) the same for the findings recorded per file in --cppcheck-build-dir;
            (XP) project path: generated compile_commands.json whose entries differ in -std / -D / -I,
            every entry alone vs every rotation, -j1 and -j2, findings projected per file.
search:     a disagreement is reduced to a pair (earlier file, file) and reported with sources.
"""
import glob as _glob
import os
import re
import shutil
import subprocess
import sys
import tempfile

sys.path.insert(0, os.path.dirname(os.path.dirname(os.path.abspath(__file__))))
import vlib
from translate import resets

PID = "C17"
US = "\x1f"
TEMPLATE = US.join(["{file}", "{line}", "{id}", "{message}", "{remark}"])
K_MACRO = "macro-suppression-leaks-across-files"
K_CACHED = "duplicate-list-kept-after-cached-file"

SLOT = 6          # lines per block
HEAD = 2          # header lines of a file


# ------------------------------------------------------------------ generator
def block(rng, kind, u, sup, macro):
    """-> (lines, finding (offset,id) or None, inline supp spec or None, remark or None, macro use or None)"""
    if kind == "null":
        L = ["void n%s(void) {" % u, "    int *p = 0;", "", "    *p = 1;", "}", ""]
        fo, fid = 3, "nullPointer"
    elif kind == "array":
        L = ["int a%s(void) {" % u, "    int a[2];", "", "    a[3] = 0;", "    return a[0];", "}"]
        fo, fid = 3, "arrayIndexOutOfBounds"
    elif kind == "uninit":
        L = ["int u%s(void) {" % u, "    int x;", "", "    return x;", "}", ""]
        fo, fid = 3, "uninitvar"
    elif kind == "macro":
        L = ["", "#define %s(x) (1/(x))" % macro, "int d%s(void) {" % u, "    int z = 0;", "    return %s(z);" % macro, "}"]
        fo, fid = 4, "zerodiv"
    else:
        return ["int c%s(int x) {" % u, "    return x + 1;", "}", "", "", ""], None, None, None, None
    s = r = None
    if kind == "macro":
        if sup == "macro":
            L[0] = "// cppcheck-suppress-macro zerodiv"
            s = ("macro", fid, 1, macro)            # line offset of the #define
        elif sup == "line":
            L[4] = L[4] + " // cppcheck-suppress zerodiv"
            s = ("line", fid, 4, None)
        return L, (fo, fid), s, None, (fo, macro)
    if sup == "line":
        L[2] = "    // cppcheck-suppress %s" % fid
        s = ("line", fid, fo, None)
    elif sup == "wrongid":
        L[2] = "    // cppcheck-suppress memleak"
        s = ("line", "memleak", fo, None)
    elif sup == "same":
        L[fo] = L[fo] + " // cppcheck-suppress %s" % fid
        s = ("line", fid, fo, None)
    elif sup == "remark":
        txt = "r%s" % u
        L[2] = "    // REMARK %s" % txt
        r = (fo, txt)
    return L, (fo, fid), s, r, None


KINDS = ["null", "array", "uninit", "macro", "clean"]
SUPS = [None, None, "line", "same", "remark", "wrongid"]


def gen_file(rng, idx, name, nslots, macros_free, allow_macro_supp, header):
    lines = ["", '#include "%s"' % header if header else ""]
    meta = {"supp": [], "remarks": [], "macros": [], "planted": [], "macro_supp": []}
    filesupp = None
    if rng.random() < 0.15:
        filesupp = rng.choice(["nullPointer", "uninitvar", "zerodiv"])
        lines[0] = "// cppcheck-suppress-file %s" % filesupp
        meta["supp"].append(("file", filesupp, 1, None))
    for k in range(nslots):
        kind = rng.choice(KINDS)
        macro = None
        sup = rng.choice(SUPS)
        if kind == "macro":
            if not macros_free:
                kind = "clean"
            else:
                macro = macros_free.pop(rng.randrange(len(macros_free)))
                sup = rng.choice([None, None, "line", "macro"] if allow_macro_supp else [None, None, "line"])
        L, fnd, s, r, mu = block(rng, kind, "%d_%d" % (idx, k), sup, macro)
        assert len(L) == SLOT, (kind, sup, L)
        base = HEAD + k * SLOT + 1            # 1-based line of L[0]
        lines += L
        if fnd:
            meta["planted"].append((base + fnd[0], fnd[1]))
        if s:
            meta["supp"].append((s[0], s[1], base + s[2], s[3]))
            if s[0] == "macro":
                meta["macro_supp"].append(s[3])
        if r:
            meta["remarks"].append((base + r[0], r[1]))
        if mu:
            meta["macros"].append((base + mu[0], mu[1]))
    return "\n".join(lines) + "\n", meta


HEADER_SRC = "static int hdiv%d(void) { int z = 0; return 1 / z; }\n"


def gen_case(rng, trigger_macro=False, with_header=None):
    k = rng.choice([2, 2, 3, 3, 4])
    nslots = rng.choice([2, 3, 4])
    names = ["f%d.c" % i for i in range(k)]
    use_header = rng.random() < 0.25 if with_header is None else with_header
    header = "h0.h" if use_header else None
    files, metas = {}, {}
    suppressed_macros = set()
    for i, n in enumerate(names):
        free = ["DIV", "QUO"]
        if not trigger_macro:
            # the known leak: never reuse a macro name that another file suppresses
            free = [m for m in free if m not in suppressed_macros] if i else free
        src, meta = gen_file(rng, i, n, nslots, free, True, header if rng.random() < 0.8 else None)
        if not trigger_macro:
            # a macro suppressed here must not be used by any other file
            for m in meta["macro_supp"]:
                suppressed_macros.add(m)
        if i and not trigger_macro and rng.random() < 0.2:
            # identical content under another name (duplicate findings across files)
            o = names[rng.randrange(i)]
            if not metas[o]["macro_supp"]:
                src, meta = files[o], {k: list(v) for k, v in metas[o].items()}
        files[n], metas[n] = src, meta
    if not trigger_macro:
        used = {n: {m for _, m in metas[n]["macros"]} for n in names}
        for n in names:
            for m in metas[n]["macro_supp"]:
                if any(m in used[o] for o in names if o != n):
                    return gen_case(rng, trigger_macro, with_header)
    cli = []
    if rng.random() < 0.3:
        n = rng.choice(names)
        cli.append((rng.choice(["nullPointer", "zerodiv", "uninitvar", "arrayIndexOutOfBounds"]), n))
    if rng.random() < 0.1:
        cli.append((rng.choice(["nullPointer", "uninitvar"]), None))
    enable = rng.choice(["", "", "warning", "style,warning", "warning,style,performance,portability"])
    return {"names": names, "files": files, "metas": metas, "header": header, "cli": cli, "enable": enable}


# ------------------------------------------------------------------ running the binary
def run_cppcheck(d, args, timeout=120):
    cmd = [vlib.CPPCHECK, "-q", "--template=" + TEMPLATE] + args
    p = subprocess.run(cmd, cwd=d, stdout=subprocess.PIPE, stderr=subprocess.PIPE, timeout=timeout)
    out = []
    for l in p.stderr.decode("latin-1").split("\n"):
        f = l.split(US)
        if len(f) == 5:
            out.append((f[0], int(f[1]) if f[1].lstrip("-").isdigit() else -1, f[2], f[3], f[4]))
    return out, p.returncode


def base_args(case, inline=True, cli=True):
    a = []
    if inline:
        a.append("--inline-suppr")
    if case["enable"]:
        a.append("--enable=" + case["enable"])
    if cli:
        for i, f in case["cli"]:
            a.append("--suppress=%s%s" % (i, ":" + f if f else ""))
    return a


def write_case(case, d):
    for n, s in case["files"].items():
        open(os.path.join(d, n), "w").write(s)
    if case["header"]:
        open(os.path.join(d, case["header"]), "w").write(HEADER_SRC % 0)


def proj(findings, name):
    return sorted(f for f in findings if f[0] == name)


def rotations(names):
    return [names[i:] + names[:i] for i in range(len(names))]


# ------------------------------------------------------------------ model case
def supp_fields(kind, sid, fname, line, macro, inline=True):
    ty = {"line": 0, "file": 1, "macro": 5}[kind]
    return [sid, fname, line if kind != "file" else line, -1, -1, ty, b"", macro or b"", 0, 0, 1 if inline else 0, 0, 0]


def model_case(case, order, raws):
    f = ["seq", 1]
    f.append(len(case["cli"]))
    for sid, fn in case["cli"]:
        f += [sid, fn or b"", -1, -1, -1, 0, b"", b"", 0, 0, 0, 0, 0]
    f.append(0)
    f.append(len(order))
    for n in order:
        m = case["metas"][n]
        f += [n, 3, 0]
        f.append(len(m["remarks"]))
        for line, txt in m["remarks"]:
            f += [n, line, txt]
        f.append(len(m["supp"]))
        for kind, sid, line, macro in m["supp"]:
            f += supp_fields(kind, sid, n, line, macro)
        f.append(0)
        f.append(1)
        f.append(1)
        f.append(len(m["macros"]))
        for line, macro in m["macros"]:
            f += [n, line, 1, macro]
        own = [r for r in raws[n] if r[0] == n]
        f.append(len(own))
        for (fn, line, fid, msg, _rem) in own:
            f += [0, fid, fn, line, b"", 1, "%s:%d:%s:%s" % (fn, line, fid, msg)]
    return f


def decode_model(out, order, raws):
    """-> {name: sorted findings as the binary would print them}"""
    if out == [b"F"] or out == [b"B"]:
        return None
    res, cur, i = {}, None, -1
    groups = []
    for fld in out:
        if fld == b"|":
            groups.append([])
        else:
            groups[-1].append(fld)
    if len(groups) != len(order):
        return None
    for n, g in zip(order, groups):
        own = [r for r in raws[n] if r[0] == n]
        if len(g) != len(own):
            return None
        l = []
        for r, o in zip(own, g):
            bits, _, rem = o.partition(b":")
            if bits[1:2] == b"1":
                l.append((r[0], r[1], r[2], r[3], rem.decode("latin-1")))
        res[n] = sorted(l)
    return res


# ------------------------------------------------------------------ streams
def case_sources(case):
    d = dict(case["files"])
    if case["header"]:
        d[case["header"]] = HEADER_SRC % 0
    return d


def reduce_pair(case, d, name, alone_proj, args):
    """find one earlier file g such that [g, name] already changes name's findings"""
    for g in case["names"]:
        if g == name:
            continue
        seq, _ = run_cppcheck(d, args + [g, name])
        if proj(seq, name) != alone_proj:
            return g, proj(seq, name)
    return None, None


def is_macro_leak(case, name, missing):
    """a finding of `name` at a macro use whose macro name another file suppresses"""
    mac = dict(case["metas"][name]["macros"])
    for f in missing:
        m = mac.get(f[1])
        if m and any(m in case["metas"][o]["macro_supp"] for o in case["names"] if o != name):
            return m
    return None


def stream_x1(run, model, n_cases, trigger=False, stream="X1 alone-vs-rotations"):
    rng = run.rng
    nleak = 0
    for ci in range(n_cases):
        case = gen_case(rng, trigger_macro=trigger, with_header=False if trigger else None)
        d = tempfile.mkdtemp(prefix="c17_")
        try:
            write_case(case, d)
            args = base_args(case)
            names = case["names"]
            alone = {n: run_cppcheck(d, args + [n])[0] for n in names}
            raws = None
            if not case["header"]:
                raws = {n: run_cppcheck(d, base_args(case, inline=False, cli=False) + [n])[0] for n in names}
            hdr_alone = sorted({f for n in names for f in alone[n] if f[0] == case["header"]}) if case["header"] else []
            for order in rotations(names):
                seq, _ = run_cppcheck(d, args + order)
                feats = "files%d,%s%s%s" % (len(names), "hdr," if case["header"] else "", "cli," if case["cli"] else "",
                                            "en:" + (case["enable"] or "-"))
                for n in names:
                    a, s = proj(alone[n], n), proj(seq, n)
                    nt = (tuple(order), n, tuple(a)) if a or case["metas"][n]["supp"] else None
                    run.count(stream, None, nontrivial=nt, bucket=feats)
                    if a != s:
                        run.stream(stream)["disagreements"] += 1
                        missing = [f for f in a if f not in s] + [f for f in s if f not in a]
                        m = is_macro_leak(case, n, missing)
                        g, sp = reduce_pair(case, d, n, a, args)
                        rep = {"stream": stream, "file": n, "order": order, "alone": a, "in_sequence": s,
                               "reduced_to": [g, n] if g else None, "options": args, "sources": case_sources(case),
                               "how": "write the sources to a directory; cppcheck -q --template=<file,line,id,message,remark> %s %s  vs  ... %s"
                                      % (" ".join(args), n, " ".join(order))}
                        if m:
                            nleak += 1
                            run.violation(K_MACRO, "inline cppcheck-suppress-macro for %s in another file hides %s's findings in its own macro %s"
                                          % (m, n, m), rep)
                        else:
                            run.violation("x1:%s:%s" % (n, vlib.hashlib.sha1(repr((order, a, s)).encode()).hexdigest()[:10]),
                                          "findings of %s differ: alone %d, in sequence %s %d" % (n, len(a), order, len(s)), rep)
                if case["header"]:
                    hs = sorted(f for f in seq if f[0] == case["header"])
                    run.count(stream + " (header union)", None, nontrivial=(tuple(order), tuple(hs)) if hs else None, bucket="hdr")
                    if hs != hdr_alone:
                        run.stream(stream + " (header union)")["disagreements"] += 1
                        run.violation("x1hdr:%s" % vlib.hashlib.sha1(repr((order, hs, hdr_alone)).encode()).hexdigest()[:10],
                                      "findings in the shared header differ from the union of the files analysed alone",
                                      {"order": order, "in_sequence": hs, "union_alone": hdr_alone, "sources": case_sources(case), "options": args})
                # model prediction for this order
                if raws is not None and model:
                    fields = model_case(case, order, raws)
                    _, mo, _ = vlib.run_lines([model], [vlib.enc_case(fields)])
                    pred = decode_model(vlib.dec_line(mo[0]), order, raws)
                    for n in names:
                        s = proj(seq, n)
                        planted_only = [f for f in s if f[2] != "unmatchedSuppression"]
                        if pred is None:
                            run.count("XM model-vs-binary", None, bucket="undecodable")
                            continue
                        nt = (tuple(order), n, tuple(pred[n])) if raws[n] else None
                        leak = bool(is_macro_leak(case, n, [f for f in proj(alone[n], n) if f not in s]))
                        run.count("XM model-vs-binary", None, nontrivial=nt,
                                  bucket="fwd%d/raw%d%s" % (len(pred[n]), len([r for r in raws[n] if r[0] == n]), ",leak" if leak else ""))
                        if pred[n] != planted_only:
                            run.stream("XM model-vs-binary")["disagreements"] += 1
                            run.violation("xm:%s" % vlib.hashlib.sha1(repr((order, n, pred[n], planted_only)).encode()).hexdigest()[:10],
                                          "model and binary disagree on what is reported for %s in %s" % (n, order),
                                          {"broken": "correspondence XM", "file": n, "order": order, "model": pred[n], "binary": planted_only,
                                           "sources": case_sources(case), "options": args, "case_line": vlib.enc_case(fields)},
                                          found_input=False)
                    if len(run.samples) < 4:
                        run.samples.append({"stream": "XM", "order": order, "model": {k: [list(x) for x in v] for k, v in (pred or {}).items()}})
        finally:
            shutil.rmtree(d, ignore_errors=True)
    return nleak


# ------------------------------------------------------------------ project path (compile_commands.json)
def gen_project(rng):
    """entries that differ in -std / -D / -I; sources whose findings depend on them"""
    import json as _json
    k = rng.choice([2, 2, 3, 3, 4])
    entries, files = [], {}
    for i in range(k):
        cpp = rng.random() < 0.7
        name = "p%d.%s" % (i, "cpp" if cpp else "c")
        guard = "#if __cplusplus >= 201103L" if cpp else "#if defined(__STDC_VERSION__) && __STDC_VERSION__ >= 199901L"
        src = ['#include "cfg.h"' if rng.random() < 0.6 else "",
               guard, "void s%d(void) { int *p = 0; *p = 1; }" % i, "#endif",
               "#ifdef FLAGA", "int d%d(void) { int z = 0; return 1 / z; }" % i, "#endif",
               "#if defined(FLAGB) && FLAGB == 2", "int b%d(void) { int a[2]; a[2] = 0; return a[0]; }" % i, "#endif",
               "#if defined(HVAL) && HVAL == 2", "int a%d(void) { int a[2]; a[3] = 0; return a[0]; }" % i, "#endif",
               "int u%d(void) { int x; return x; }" % i if rng.random() < 0.7 else ""]
        files[name] = "\n".join(src) + "\n"
        std = rng.choice([None, None, "c++03", "c++11", "c++17"] if cpp else [None, None, "c89", "c99", "c11"])
        flags = []
        if std:
            flags.append("-std=" + std)
        if rng.random() < 0.4:
            flags.append("-DFLAGA")
        if rng.random() < 0.4:
            flags.append("-DFLAGB=%d" % rng.choice([1, 2]))
        inc = rng.choice([None, "inc1", "inc2"])
        if inc:
            flags.append("-I" + inc)
        entries.append({"file": name, "flags": flags, "std": std, "cpp": cpp})
    return entries, files


def gen_project_biased(rng):
    """half of the projects: two entries of one language, the first with the oldest standard, the second
    with none (the constellation in which a settings object carried over between entries shows)"""
    while True:
        entries, files = gen_project(rng)
        if rng.random() < 0.5:
            return entries, files
        for lang in (True, False):
            es = [e for e in entries if e["cpp"] == lang]
            if len(es) >= 2:
                old = "c++03" if lang else "c89"
                es[0]["flags"] = ["-std=" + old] + [f for f in es[0]["flags"] if not f.startswith("-std=")]
                es[0]["std"] = old
                es[1]["flags"] = [f for f in es[1]["flags"] if not f.startswith("-std=")]
                es[1]["std"] = None
                return entries, files


def write_project(d, entries, files, order, fname):
    import json as _json
    for n, s_ in files.items():
        open(os.path.join(d, n), "w").write(s_)
    for j in (1, 2):
        os.makedirs(os.path.join(d, "inc%d" % j), exist_ok=True)
        open(os.path.join(d, "inc%d" % j, "cfg.h"), "w").write("#define HVAL %d\n" % j)
    byname = {e["file"]: e for e in entries}
    db = [{"directory": d, "command": "%s %s -c %s" % ("g++" if byname[n]["cpp"] else "gcc", " ".join(byname[n]["flags"]), n), "file": n} for n in order]
    open(os.path.join(d, fname), "w").write(_json.dumps(db, indent=1))


def proj_base(findings, name):
    return sorted((os.path.basename(f[0]),) + f[1:] for f in findings if os.path.basename(f[0]) == name)


def stream_xp(run, n_cases):
    rng = run.rng
    stream = "XP project entries alone-vs-rotations"
    for ci in range(n_cases):
        entries, files = gen_project_biased(rng)
        names = [e["file"] for e in entries]
        d = tempfile.mkdtemp(prefix="c17p_")
        try:
            alone = {}
            for n in names:
                write_project(d, entries, files, [n], "alone.json")
                alone[n] = proj_base(run_cppcheck(d, ["--project=alone.json"])[0], n)
            for order in rotations(names):
                write_project(d, entries, files, order, "cc.json")
                for jobs in ("-j1", "-j2"):
                    seq, _ = run_cppcheck(d, ["--project=cc.json", jobs])
                    for pos, n in enumerate(order):
                        s_ = proj_base(seq, n)
                        e = [x for x in entries if x["file"] == n][0]
                        stds_before = sorted({x["std"] or "-" for x in entries if x["file"] in order[:pos] and x["cpp"] == e["cpp"]})
                        run.count(stream, None, nontrivial=(tuple(order), n, jobs, tuple(alone[n])) if alone[n] else None,
                                  bucket="%s,std:%s,before:%s" % (jobs, e["std"] or "-", "/".join(stds_before) or "none"))
                        if s_ != alone[n]:
                            run.stream(stream)["disagreements"] += 1
                            key = "xp:%s" % vlib.hashlib.sha1(repr((order, n, jobs, s_, alone[n])).encode()).hexdigest()[:10]
                            if jobs == "-j1" and not e["std"] and any(x != "-" for x in stds_before):
                                key = "project-entry-inherits-earlier-std"
                            run.violation(key, "findings of project entry %s differ: alone %d, in project order %s (%s) %d"
                                          % (n, len(alone[n]), order, jobs, len(s_)),
                                          {"stream": stream, "file": n, "order": order, "jobs": jobs, "alone": alone[n], "in_project": s_,
                                           "entries": [{"file": x["file"], "flags": x["flags"]} for x in entries], "sources": files,
                                           "how": "compile_commands.json with the entries in the given order (command: g++/gcc <flags> -c <file>); "
                                                  "cppcheck -q --project=cc.json %s vs a compile_commands.json with the one entry" % jobs})
        finally:
            shutil.rmtree(d, ignore_errors=True)


def recorded(bd, d):
    """{source file: sorted (id, file, line) recorded in its analyzer info}"""
    res = {}
    ft = os.path.join(bd, "files.txt")
    if not os.path.exists(ft):
        return res
    for l in open(ft):
        p = l.rstrip("\n").split(":")
        if len(p) < 4:
            continue
        a1, src = p[0], p[3]
        try:
            txt = open(os.path.join(bd, a1)).read()
        except OSError:
            continue
        errs = []
        for m in re.finditer(r'<error id="([^"]*)"[^>]*?(?:/>|>(.*?)</error>)', txt, re.S):
            loc = re.search(r'<location file="([^"]*)" line="(\d+)"', m.group(2) or "")
            errs.append((m.group(1), loc.group(1) if loc else "", int(loc.group(2)) if loc else 0))
        res[src] = sorted(errs)
    return res


def stream_x2(run, n_cases):
    """findings recorded per file in the build directory: rotation with some files up to date vs alone"""
    rng = run.rng
    stream = "X2 recorded-in-build-dir"
    seen_known = 0
    for ci in range(n_cases):
        case = gen_case(rng, with_header=rng.random() < 0.7)
        d = tempfile.mkdtemp(prefix="c17b_")
        try:
            write_case(case, d)
            names = case["names"]
            args = base_args(case)
            bd0 = os.path.join(d, "bd0")
            os.mkdir(bd0)
            run_cppcheck(d, args + ["--cppcheck-build-dir=bd0"] + names)
            # first run: every file analysed; what is recorded per file must be what the file alone gives
            got0 = recorded(bd0, d)
            for n in names:
                bda = os.path.join(d, "bd1_" + n)
                os.mkdir(bda)
                run_cppcheck(d, args + ["--cppcheck-build-dir=" + os.path.basename(bda), n])
                e0 = recorded(bda, d).get(n, [])
                run.count(stream, None, nontrivial=("first", tuple(names), n, tuple(e0)) if e0 else None,
                          bucket="firstrun,%s" % ("hdr" if case["header"] else "nohdr"))
                if got0.get(n, []) != e0:
                    run.stream(stream)["disagreements"] += 1
                    run.violation("x2first:%s" % vlib.hashlib.sha1(repr((names, n, got0.get(n), e0)).encode()).hexdigest()[:10],
                                  "findings recorded for %s in a fresh build dir differ from the file analysed alone" % n,
                                  {"stream": stream, "file": n, "order": names, "recorded_alone": e0, "recorded_in_sequence": got0.get(n, []),
                                   "options": args, "sources": case_sources(case),
                                   "how": "cppcheck --cppcheck-build-dir=<fresh> <order>  vs  cppcheck --cppcheck-build-dir=<fresh> <file>; compare the file's .a1"})
            changed = [n for n in names if rng.random() < 0.5] or [names[-1]]
            for n in changed:
                case["files"][n] += "int extra_%s(void) { return %d; }\n" % (n[:-2], rng.randint(1, 9))
                open(os.path.join(d, n), "w").write(case["files"][n])
            expect = {}
            for n in changed:
                bda = os.path.join(d, "bda_" + n)
                os.mkdir(bda)
                run_cppcheck(d, args + ["--cppcheck-build-dir=" + os.path.basename(bda), n])
                expect[n] = recorded(bda, d).get(n, [])
            for ri, order in enumerate(rotations(names)):
                bdr = os.path.join(d, "bdr%d" % ri)
                shutil.copytree(bd0, bdr)
                run_cppcheck(d, args + ["--cppcheck-build-dir=" + os.path.basename(bdr)] + order)
                got = recorded(bdr, d)
                for n in changed:
                    g = got.get(n, [])
                    cached_before = [o for o in order[:order.index(n)] if o not in changed]
                    run.count(stream, None, nontrivial=(tuple(order), n, tuple(expect[n])) if expect[n] else None,
                              bucket="changed%d/%d,%s,cachedbefore%d" % (len(changed), len(names), "hdr" if case["header"] else "nohdr", len(cached_before)))
                    if g != expect[n]:
                        run.stream(stream)["disagreements"] += 1
                        missing = [e for e in expect[n] if e not in g]
                        extra = [e for e in g if e not in expect[n]]
                        rep = {"stream": stream, "file": n, "order": order, "changed_since_first_run": changed,
                               "recorded_alone": expect[n], "recorded_in_sequence": g, "options": args, "sources": case_sources(case),
                               "how": "run 1: all files with --cppcheck-build-dir; change the listed files; run 2 in the given order; "
                                      "compare <error> entries of the file's .a1 with a run of the file alone in a fresh build dir"}
                        if missing and not extra and cached_before and all(e[1] != n for e in missing):
                            seen_known += 1
                            run.violation(K_CACHED, "finding in a shared header is not recorded for %s when an up-to-date file that "
                                          "has the same finding is handled before it" % n, rep)
                        else:
                            run.violation("x2:%s" % vlib.hashlib.sha1(repr((order, n, g, expect[n])).encode()).hexdigest()[:10],
                                          "findings recorded for %s in the build dir differ from the file analysed alone" % n, rep)
        finally:
            shutil.rmtree(d, ignore_errors=True)
    return seen_known


def known_histories(run):
    """the two model instances of Iso/Witness.v (macro leak: refuted; cached return: holds since fix 8cb695c) on the real binary"""
    d = tempfile.mkdtemp(prefix="c17k_")
    stream = "W witnesses-on-binary"
    try:
        # 1. macro suppression
        open(os.path.join(d, "a.c"), "w").write("// cppcheck-suppress-macro zerodiv\n#define DIV(x) (1/(x))\nint f1(void) {\n    int z = 0;\n    return DIV(z);\n}\n")
        open(os.path.join(d, "b.c"), "w").write("#define DIV(x) (1/(x))\nint g1(void) {\n    int z = 0;\n    return DIV(z);\n}\n")
        alone, _ = run_cppcheck(d, ["--inline-suppr", "b.c"])
        seq, _ = run_cppcheck(d, ["--inline-suppr", "a.c", "b.c"])
        run.count(stream, None, nontrivial="macro", bucket="macro:" + ("leak" if proj(alone, "b.c") != proj(seq, "b.c") else "isolated"))
        if proj(alone, "b.c") != proj(seq, "b.c"):
            run.stream(stream)["disagreements"] += 1
            run.violation(K_MACRO, "inline cppcheck-suppress-macro in a.c hides b.c's finding in its own macro of the same name",
                          {"alone": proj(alone, "b.c"), "after_a.c": proj(seq, "b.c"), "sources": {n: open(os.path.join(d, n)).read() for n in ("a.c", "b.c")},
                           "how": "cppcheck --inline-suppr b.c  vs  cppcheck --inline-suppr a.c b.c (Iso/Witness.v wa, wb)"})
        else:
            run.notes.append("macro suppression witness no longer reproduces on the binary: update Iso/Witness.v / known_findings.txt")
        # 2. cached return before clear(): three-run history with a user-visible lost finding
        open(os.path.join(d, "h.h"), "w").write("static int hdiv(void) { int z = 0; return 1 / z; }\n")
        open(os.path.join(d, "A.c"), "w").write('#include "h.h"\nint a1(void) { return hdiv(); }\n')
        open(os.path.join(d, "B.c"), "w").write('#include "h.h"\nint b1(void) { return hdiv(); }\n')
        os.mkdir(os.path.join(d, "bd"))
        r1, _ = run_cppcheck(d, ["--cppcheck-build-dir=bd", "A.c", "B.c"])
        open(os.path.join(d, "B.c"), "w").write('#include "h.h"\nint b1(void) { return hdiv() + 1; }\n')
        r2, _ = run_cppcheck(d, ["--cppcheck-build-dir=bd", "A.c", "B.c"])
        rec = recorded(os.path.join(d, "bd"), d)
        open(os.path.join(d, "A.c"), "w").write("int a1(void) { return 0; }\n")
        r3, _ = run_cppcheck(d, ["--cppcheck-build-dir=bd", "A.c", "B.c"])
        fresh, _ = run_cppcheck(d, ["A.c", "B.c"])
        lost = sorted(fresh) != sorted(r3)
        run.count(stream, None, nontrivial="cached", bucket="cached:" + ("lost" if lost else "kept"))
        if lost:
            run.stream(stream)["disagreements"] += 1
            run.violation(K_CACHED, "the duplicate list is not emptied at the start of a file (fix 8cb695c missing?): after an up-to-date file the next file's identical header finding is not recorded; a later run loses it",
                          {"run1": r1, "run2": r2, "recorded_for_B.c_after_run2": rec.get("B.c"), "run3_incremental": r3, "run3_fresh": fresh,
                           "how": "h.h: static int hdiv(void){int z=0;return 1/z;}  A.c,B.c include it and call hdiv(). "
                                  "run1: --cppcheck-build-dir=bd A.c B.c; change B.c; run2 same; make A.c not include h.h; run3 same -> no zerodiv, a fresh run reports it "
                                  "(Iso/Witness.v ca, cb)"})
    finally:
        shutil.rmtree(d, ignore_errors=True)


def check(run, replay):
    quick = run.tier == "quick"
    run.trusted_base += [
        "Coq 8.16.1 kernel (coqc); vm_compute in the two refuted instances, the inhabitation Examples and the reset-point equality",
        "extraction: Require Extraction + ExtrOcamlBasic only; ocaml/driver.ml",
        "the per-file analysis (preprocessor, tokenizer, checks) is abstract: a record of findings, inline suppressions, remark comments and location macros per exit point of checkInternal; the theorems hold for every such record",
        "modelled, not verified: CppCheck::check / checkInternal state handling (lib/cppcheck.cpp), CppCheckLogger (C23 model), SuppressionList::addSuppression (C24 model); tied by T (reset points and exits, in order) and XM/X1/X2 on the real binary",
        "state outside the model (static data in lib/, Library caches, Settings) is covered only by X1/X2",
        "whole-program checks (unusedFunction, CTU) are excluded by construction: not enabled / no cross-file calls in generated sources",
        "PathMatch::match is the parameter pm; the extracted instance is equality on plain file names (generated files have plain names)",
    ]
    run.assumptions += ["g++ compiles /repo faithfully", "cppcheck's run-wide duplicate filter (StdLogger::mShownErrors) is by design: header findings are compared as the union over the files"]
    run.extra["rule"] = ("generated C sources: 2-4 files x 2-4 six-line slots (null deref / array index / uninit / macro division / clean) at identical line numbers, "
                         "inline suppressions (line, same line, wrong id, file level, macro), REMARK comments, optional shared header with a finding, "
                         "optional --suppress, --enable sets; every file alone vs every rotation, -j1. non-trivial = file has a finding or a suppression, distinct (order, file, findings).")

    vlib.ensure_repo_build()
    try:
        pts = resets.main(vlib.REPO, vlib.VERIF)
        run.extra["reset_points"] = {"check": pts[0], "checkInternal": pts[1], "check_FileSettings": pts[2]}
        t_ok = True
    except resets.TranslateError as e:
        t_ok = False
        run.violation("translate:resets", "tools/translate/resets.py: " + str(e), {"broken": "translator", "detail": str(e)}, found_input=False)
    ok = run.prove(extra_targets=["theories/Iso/Run.vo"]) if t_ok else False
    if t_ok and not ok:
        run.violation("proof:" + PID, "Properties_C17.vo does not build: " + str(run.proof_error())[:300],
                      {"broken": "proof", "detail": run.proof_error(),
                       "hint": "if Iso/Resets.v fails: the reset points / exits of checkInternal moved; re-read lib/cppcheck.cpp and update Iso/Defs.v + Iso/Resets.v"},
                      found_input=False)
    model = None
    if os.path.exists(os.path.join(vlib.COQ, "theories/Iso/Run.vo")):
        model = vlib.build_model(PID)

    known_histories(run)
    stream_x1(run, model, 14 if quick else 250)
    nl = stream_x1(run, model, 6 if quick else 60, trigger=True, stream="X1k same macro names across files")
    nk = stream_x2(run, 5 if quick else 60)
    stream_xp(run, 8 if quick else 120)
    run.extra["known_leak_cases"] = {"macro": nl, "cached": nk}


if __name__ == "__main__":
    vlib.main(check, PID)
