"""Generators for the C11 check: conditional skeletons and #if expressions."""

NAMES = [b"A", b"B", b"C", b"D", b"E"]
IFK = ["0", "1", "d", "n", "D", "N", "M", "Z"]
ELK = ["0", "1", "D", "N", "M", "Z"]


def cond(rng, kinds, p_err):
    k = rng.choice(kinds)
    if k == "Z" and rng.random() > p_err:
        k = rng.choice("01")
    return k.encode() + (rng.choice(NAMES) if k in "dnDNM" else b"")


def gen_skel(rng, depth, p_err=0.15, top=True):
    out = []
    for _ in range(rng.randint(1 if top else 0, 3)):
        if depth > 0 and rng.random() < 0.6:
            out.append(b"I" + cond(rng, IFK, p_err))
            out += gen_skel(rng, depth - 1, p_err, False)
            while rng.random() < 0.35:
                out.append(b"E" + cond(rng, ELK, p_err))
                out += gen_skel(rng, depth - 1, p_err, False)
            if rng.random() < 0.5:
                out.append(b"e")
                out += gen_skel(rng, depth - 1, p_err, False)
            out.append(b"x")
        else:
            out.append(b"c")
    return out


def number(fields):
    out, i = [], 1
    for f in fields:
        if f == b"c":
            out.append(b"c%d" % i)
            i += 1
        else:
            out.append(f)
    return out


def gen_cond_case(rng):
    f = gen_skel(rng, rng.randint(1, 4), p_err=rng.choice([0, 0, 0.3]))
    r = rng.random()
    if r < 0.12 and f:            # ill-nested: drop or insert a directive
        i = rng.randrange(len(f))
        if rng.random() < 0.5:
            del f[i]
        else:
            f.insert(i, rng.choice([b"e", b"x", b"E1", b"I1"]))
    defs = [m for m in NAMES if rng.random() < 0.4]
    return [b";".join(defs)] + number(f)


def render_cond(fields):
    out = []
    ct = {"0": "0", "1": "1", "D": "defined(%s)", "N": "!defined(%s)", "M": "%s", "Z": "1/0"}
    for f in fields:
        s = f.decode()
        if s[0] == "I":
            if s[1] == "d":
                out.append("#ifdef " + s[2:])
            elif s[1] == "n":
                out.append("#ifndef " + s[2:])
            else:
                out.append("#if " + (ct[s[1]] % s[2:] if "%" in ct[s[1]] else ct[s[1]]))
        elif s[0] == "E":
            out.append("#elif " + (ct[s[1]] % s[2:] if "%" in ct[s[1]] else ct[s[1]]))
        elif s == "e":
            out.append("#else")
        elif s == "x":
            out.append("#endif")
        else:
            out.append("L%s;" % s[1:])
    return "\n".join(out) + "\n"


# ---- expressions: ("L", n, unsigned) | ("1", op, a) | ("2", op, a, b) | ("3", c, a, b)
PREC = {"*": 10, "/": 10, "%": 10, "+": 9, "-": 9, "<<": 8, ">>": 8, "<": 7, "<=": 7, ">": 7, ">=": 7,
        "==": 6, "!=": 6, "&": 5, "^": 4, "|": 3, "&&": 2, "||": 1}
BINOPS = list(PREC)
UNOPS = ["!", "~", "+", "-"]


def gen_expr(rng, depth, p_unsigned=0.1, ops=None, unops=None, p_cond=0.12):
    ops = ops or BINOPS
    unops = unops if unops is not None else UNOPS
    if depth == 0 or rng.random() < 0.25:
        return ("L", rng.choice([0, 0, 1, 1, 2, 3, 5, 7, 8, 12]), rng.random() < p_unsigned)
    r = rng.random()
    if r < p_cond:
        return ("3", gen_expr(rng, depth - 1, p_unsigned, ops, unops, p_cond), gen_expr(rng, depth - 1, p_unsigned, ops, unops, p_cond),
                gen_expr(rng, depth - 1, p_unsigned, ops, unops, p_cond))
    if unops and r < p_cond + 0.2:
        return ("1", rng.choice(unops), gen_expr(rng, depth - 1, p_unsigned, ops, unops, p_cond))
    return ("2", rng.choice(ops), gen_expr(rng, depth - 1, p_unsigned, ops, unops, p_cond), gen_expr(rng, depth - 1, p_unsigned, ops, unops, p_cond))


def paren(b, l):
    return [b"("] + l + [b")"] if b else l


def print_expr(lvl, e):
    """mirror of coq/theories/PP/Eval.v print (the model checks the tokens against its own print)"""
    if e[0] == "L":
        return [b"%d%s" % (e[1], b"u" if e[2] else b"")]
    if e[0] == "1":
        return paren(11 < lvl, [e[1].encode()] + print_expr(11, e[2]))
    if e[0] == "2":
        p = PREC[e[1]]
        return paren(p < lvl, print_expr(p, e[2]) + [e[1].encode()] + print_expr(p + 1, e[3]))
    return paren(0 < lvl, print_expr(1, e[1]) + [b"?"] + print_expr(0, e[2]) + [b":"] + print_expr(0, e[3]))


def ast_fields(e):
    if e[0] == "L":
        return [(b"U" if e[2] else b"L") + b"%d" % e[1]]
    if e[0] == "1":
        return [b"1" + e[1].encode()] + ast_fields(e[2])
    if e[0] == "2":
        return [b"2" + e[1].encode()] + ast_fields(e[2]) + ast_fields(e[3])
    return [b"3"] + ast_fields(e[1]) + ast_fields(e[2]) + ast_fields(e[3])


def expr_case(e):
    t = print_expr(0, e)
    return [b"%d" % len(t)] + t + ast_fields(e)


def skeleton(e):
    """operator skeleton (literals abstracted; unsigned literals marked)"""
    if e[0] == "L":
        return "U" if e[2] else "L"
    if e[0] == "1":
        return "%s(%s)" % (e[1], skeleton(e[2]))
    if e[0] == "2":
        return "(%s %s %s)" % (skeleton(e[2]), e[1], skeleton(e[3]))
    return "(%s ? %s : %s)" % (skeleton(e[1]), skeleton(e[2]), skeleton(e[3]))


def shrink_expr(e):
    """smaller variants"""
    res = []
    if e[0] == "L":
        if e[2]:
            res.append(("L", e[1], False))
        for v in (0, 1, 2):
            if v < e[1]:
                res.append(("L", v, e[2]))
        return res
    kids = list(e[2:]) if e[0] in "12" else list(e[1:])
    res += kids                                  # replace by a child
    for v in (0, 1, 2):
        res.append(("L", v, False))
    for i, k in enumerate(kids):
        for k2 in shrink_expr(k):
            nk = kids[:i] + [k2] + kids[i + 1:]
            res.append((e[0], e[1]) + tuple(nk) if e[0] in "12" else ("3",) + tuple(nk))
    return res


# ---- macro expansion (differential stream: cppcheck -E vs gcc -E)
import re as _re

PFX = ["", "", "L", "u8", "u", "U"]
STR_BODIES = ["abc", "a b", "", "a\\\"b", "x\\\\y", "wide\\\\name", "q\\n", "%d", "a'b"]
CHR_BODIES = ["x", "\\\"", "\\\\", "\\'", "0", "\\n"]
IDS = ["foo", "bar", "x1", "_t", "n"]
NUMS = ["0", "1", "42", "0x1F", "1.5", "1e3", "7u"]
PUNCT = ["+", "-", "*", "/", "<", ">", "==", "&&", "!", "<<", "->", "%", "|", "~", "?", ":"]   # no "=": simplecpp merges "<< =" (known witness)


def lit(rng):
    if rng.random() < 0.6:
        return rng.choice(PFX) + '"' + rng.choice(STR_BODIES) + '"'
    return rng.choice(["", "", "L", "u", "U", "u8"]) + "'" + rng.choice(CHR_BODIES) + "'"


def plain_tok(rng, p_lit=0.25):
    r = rng.random()
    if r < p_lit:
        return lit(rng)
    if r < p_lit + 0.3:
        return rng.choice(IDS)
    if r < p_lit + 0.5:
        return rng.choice(NUMS)
    return rng.choice(PUNCT)


def join_toks(rng, toks):
    """tokens with 0/1 blanks where harmless (never gluing two tokens into one)"""
    out = ""
    for t in toks:
        if out and (rng.random() < 0.6 or _re.match(r"[\w.'\"]", t[0]) and _re.match(r"[\w.]", out[-1])
                    or (out[-1] in "+-<>=&|!*/%:.~?" and t[0] in "+-<>=&|*/%:.>~?!")
                    or (out[-1] in "LuU8" and t[0] in "'\"")
                    or (len(t) > 2 and t[0] in "LuU" and ("'" in t[:3] or '"' in t[:3]))
                    or (out[-1] in ")\"'" and _re.match(r"[\w.'\"]", t[0]))):   # gcc -P glues such neighbours from different contexts
            out += " "
        out += t
    return out


def gen_macros(rng):
    """list of (name, params or None, variadic, body text)"""
    n = rng.randint(3, 7)
    macros = []
    names = []
    pasted = {}            # macro name -> set of parameter indices that reach a ## operand
    for i in range(n):
        fl = rng.random() < 0.7
        name = ("F%d" if fl else "OBJ%d") % i
        if not fl:
            body = []
            for _ in range(rng.randint(0, 4)):
                r = rng.random()
                if names and r < 0.3:
                    body.append(rng.choice(names + [name]))
                else:
                    body.append(plain_tok(rng, 0.1))
            macros.append((name, None, False, join_toks(rng, body)))
        else:
            np = rng.randint(0, 3)
            var = rng.random() < 0.2
            ps = ["p%d" % k for k in range(np)]
            use = ps + (["__VA_ARGS__"] if var else [])
            body = []
            pasted[name] = set()
            def mark(tok):
                if tok in ps:
                    pasted[name].add(ps.index(tok))
            for _ in range(rng.randint(1, 5)):
                r = rng.random()
                if use and r < 0.2:
                    body += ["#", rng.choice(use)]
                elif use and r < 0.35:
                    a = rng.choice(ps + IDS[:2]) if ps else rng.choice(IDS[:2])
                    b = rng.choice(ps + ["1", "x"]) if ps else rng.choice(["1", "x"])
                    body += [a, "##", b]
                    mark(a)
                    mark(b)
                elif use and r < 0.6:
                    body.append(rng.choice(use))
                elif names and r < 0.8:
                    m = rng.choice(names + [name])
                    if m.startswith("F"):
                        ar = next((len(x[1]) + (1 if x[2] else 0) for x in macros if x[0] == m), np)
                        cargs = [(rng.choice(ps) if ps and k in pasted.get(m, ()) else (rng.choice(ps) if ps else rng.choice(IDS))) if (ps or k not in pasted.get(m, ())) else rng.choice(IDS)
                                 for k in range(ar)]
                        for k, ca in enumerate(cargs):
                            if k in pasted.get(m, ()):
                                mark(ca)
                        body += [m, "("] + sum([[ca] + ([","] if k < ar - 1 else []) for k, ca in enumerate(cargs)], []) + [")"]
                    else:
                        body.append(m)
                else:
                    body.append(plain_tok(rng, 0.1))
            macros.append((name, ps, var, join_toks(rng, body), pasted[name]))
        names.append(name)
    return [m if len(m) == 5 else m + (set(),) for m in macros]


def gen_arg(rng, macros, depth):
    toks = []
    for _ in range(rng.choice([0, 1, 1, 2, 3])):
        r = rng.random()
        if depth > 0 and r < 0.3:
            toks.append(gen_call(rng, macros, depth - 1))
        elif r < 0.4:
            toks += ["(", plain_tok(rng), ",", plain_tok(rng), ")"]
        else:
            toks.append(plain_tok(rng, 0.35))
    return join_toks(rng, toks)


def gen_call(rng, macros, depth):
    name, ps, var, _, pst = rng.choice(macros)
    if ps is None:
        return name
    # (a bare function-like name is not generated: when an expansion ends in one and the parentheses follow
    #  inside an argument, simplecpp does not join them - known witness macro:function-name-not-joined-in-argument)
    n = len(ps) + (rng.randint(0, 2) if var else 0)
    args = [rng.choice(IDS + ["7", "x2", ""]) if k in pst else gen_arg(rng, macros, depth) for k in range(n)]
    if len(ps) + (1 if var else 0) == 1 and n == 0:
        args = [""]
    return name + "(" + rng.choice([",", ", "]).join(args) + ")"


def gen_macro_file(rng, nuse=8):
    macros = gen_macros(rng)
    lines = []
    for name, ps, var, body, _ in macros:
        if ps is None:
            lines.append("#define %s %s" % (name, body))
        else:
            lines.append("#define %s(%s) %s" % (name, ", ".join(ps + (["..."] if var else [])), body))
    uses = [gen_call(rng, macros, rng.randint(0, 4)) + " " + join_toks(rng, [plain_tok(rng) for _ in range(rng.randint(0, 2))]) for _ in range(nuse)]
    return lines, uses


def macro_source(defs, uses):
    return "\n".join(defs) + "\n" + "".join("KK%d %s ;\n" % (i, u) for i, u in enumerate(uses))


_TOK = _re.compile(r"""(?:u8|u|U|L)?"(?:\\.|[^"\\\n])*"|(?:u8|u|U|L)?'(?:\\.|[^'\\\n])*'|[A-Za-z_]\w*|\.?\d(?:[eEpP][+-]|[\w.])*|"""
                   r"""<<=|>>=|\.\.\.|->|\+\+|--|<<|>>|<=|>=|==|!=|&&|\|\||\+=|-=|\*=|/=|%=|&=|\^=|\|=|##|\S""")


def pp_tokens(text):
    return _TOK.findall(text)


def split_uses(text, n):
    """token lists per KK<i> marker; None if a marker is missing"""
    toks = pp_tokens(text)
    idx = {}
    for j, t in enumerate(toks):
        m = _re.fullmatch(r"KK(\d+)", t)
        if m and int(m.group(1)) not in idx:
            idx[int(m.group(1))] = j
    if sorted(idx) != list(range(n)):
        return None
    order = sorted(idx.items(), key=lambda kv: kv[1])
    res = {}
    for (i, j), nxt in zip(order, [p for _, p in order[1:]] + [len(toks)]):
        res[i] = toks[j + 1:nxt]
    return [res[i] for i in range(n)]


def norm_apos(toks):
    """\\' -> ' inside string literal tokens (simplecpp escapes apostrophes when stringizing: same denotation)"""
    return [_re.sub(r"\\(.)", lambda m: "'" if m.group(1) == "'" else m.group(0), t) if t.endswith('"') and len(t) > 1 else t for t in toks]


def norm_ws(toks):
    """additionally drop blanks inside string literal tokens (whitespace kept/dropped differently when stringizing)"""
    return [_re.sub(r"[ \t]+", "", t) if t.endswith('"') and len(t) > 1 else t for t in norm_apos(toks)]


# ---- closed #/##-free fragment (three-way: model, cppcheck -E, gcc -E)
MX_SYMS = ["+", "-", "*", "1", "42", "0x1F", "<", "==", "!", ";", "[", "]", "{", "}"]
MX_IDS = ["foo", "bar", "n"]


def mx_items(rng, depth, objs, fns, nparams, maxlen=4):
    """items of a closed sequence: objs/fns = usable macro names [(name, arity)]"""
    out = []
    for _ in range(rng.randint(0, maxlen)):
        r = rng.random()
        if nparams and r < 0.3:
            out.append(("P", rng.randrange(nparams)))
        elif objs and r < 0.45:
            out.append(("I", rng.choice(objs)))
        elif fns and depth > 0 and r < 0.7:
            name, ar = rng.choice(fns)
            out.append(("C", name, [mx_items(rng, depth - 1, objs, fns, nparams, 3) for _ in range(ar)]))
        elif depth > 0 and r < 0.75:
            out.append(("C", rng.choice(MX_IDS), [mx_items(rng, depth - 1, objs, fns, nparams, 2) for _ in range(rng.randint(0, 2))]))
        elif r < 0.85:
            out.append(("I", rng.choice(MX_IDS)))
        else:
            out.append(("S", rng.choice(MX_SYMS)))
    return out


def gen_mx(rng, recursive):
    n = rng.randint(2, 6)
    decl = []
    for i in range(n):
        if rng.random() < 0.35:
            decl.append(("O%d" % i, None))
        else:
            decl.append(("F%d" % i, rng.randint(0, 3)))
    table = []
    for i, (name, ar) in enumerate(decl):
        vis = decl if recursive else decl[:i]
        objs = [m for m, a in vis if a is None]
        fns = [(m, a) for m, a in vis if a is not None]
        table.append((name, ar, mx_items(rng, 2, objs, fns, ar or 0)))
    objs = [m for m, a in decl if a is None]
    fns = [(m, a) for m, a in decl if a is not None]
    uses = []
    tries = 0
    while len(uses) < 6 and tries < 60:
        tries += 1
        u = mx_items(rng, rng.randint(1, 4), objs, fns, 0, 3)
        if not any(x[0] in "IC" and x[1][0] in "OF" for x in u) and fns:
            name, ar = rng.choice(fns)
            u.append(("C", name, [mx_items(rng, 2, objs, fns, 0, 3) for _ in range(ar)]))
        if mx_size(table, u) is None:          # the expansion would be huge (parameters duplicated at every level)
            continue
        uses.append(u)
    while len(uses) < 6:
        uses.append([("I", "foo")])
    return table, uses


class _TooBig(Exception):
    pass


def mx_size(table, use, limit=3000, work=200000):
    """number of tokens of the expansion (hide-set discipline of the model); None if above `limit`
    or if computing it takes more than `work` steps"""
    defs = {name: (ar, body) for name, ar, body in table}
    steps = [0]

    def size(items, env, hs):
        tot = 0
        for x in items:
            steps[0] += 1
            if steps[0] > work:
                raise _TooBig()
            if x[0] == "S":
                tot += 1
            elif x[0] == "P":
                tot += env[x[1]] if x[1] < len(env) else 0
            elif x[0] == "I":
                d = defs.get(x[1])
                if d and d[0] is None and x[1] not in hs:
                    tot += size(d[1], [], hs | {x[1]})
                else:
                    tot += 1
            else:
                ea = [size(a, env, hs) for a in x[2]]
                d = defs.get(x[1])
                if d and d[0] is not None and x[1] not in hs and len(x[2]) == d[0]:
                    tot += size(d[1], ea, hs | {x[1]})
                else:
                    tot += 3 + sum(ea) + max(0, len(ea) - 1)
            if tot > limit:
                raise _TooBig()
        return tot
    try:
        return size(use, [], frozenset())
    except _TooBig:
        return None


def mx_render(items):
    out = []
    for x in items:
        if x[0] == "S" or x[0] == "I":
            out.append(x[1])
        elif x[0] == "P":
            out.append("p%d" % x[1])
        else:
            out.append(x[1] + "(" + ", ".join(mx_render(a) for a in x[2]) + ")")
    return " ".join(out)


def mx_fields(items):
    out = []
    for x in items:
        if x[0] == "S":
            out.append(b"S" + x[1].encode())
        elif x[0] == "I":
            out.append(b"I" + x[1].encode())
        elif x[0] == "P":
            out.append(b"P%d" % x[1])
        else:
            out.append(b"C" + x[1].encode())
            for a in x[2]:
                out += [b"["] + mx_fields(a) + [b"]"]
            out.append(b")")
    return out


def mx_case(table, use):
    f = [b"mx", b"%d" % len(table)]
    for name, ar, body in table:
        f += [name.encode(), b"O" if ar is None else b"F%d" % ar] + mx_fields(body) + [b"]"]
    return f + mx_fields(use)


def mx_defs(table):
    return ["#define %s%s %s" % (name, "" if ar is None else "(" + ", ".join("p%d" % k for k in range(ar)) + ")", mx_render(body))
            for name, ar, body in table]


# ---- # applied to arguments written without white space (tie of the stringizing model)
def gen_hash_arg(rng):
    """tokens that can be written back to back without changing the lexing"""
    pat = rng.choice(["l", "l", "i", "n", "iol", "lon", "noi", "lol", "iolon"])
    out = []
    for k in pat:
        if k == "l":
            out.append(lit(rng))
        elif k == "i":
            out.append(rng.choice(["foo", "x1", "_t"]))      # never a literal prefix
        elif k == "n":
            out.append(rng.choice(["0", "42", "7"]))
        else:
            out.append(rng.choice(["+", "-", "*", "<", "==", "!=", "|"]))
    return out
