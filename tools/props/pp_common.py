"""Generators for the C11 check: conditional skeletons and #if expressions."""

NAMES = [b"A", b"B", b"C", b"D", b"E"]
IFK = ["0", "1", "d", "n", "D", "N", "M", "Z"]
ELK = ["0", "1", "D", "N", "M", "Z"]


def cond(rng, kinds, p_err):
    k = rng.choice(kinds)
    if k == "Z" and rng.random() > p_err:
        k = rng.choice("01")
    return k.encode() + (rng.choice(NAMES) if k in "dnDNM" else b"")


def gen_skel(rng, depth, p_err=0.15, top=True):
    out = []
    for _ in range(rng.randint(1 if top else 0, 3)):
        if depth > 0 and rng.random() < 0.6:
            out.append(b"I" + cond(rng, IFK, p_err))
            out += gen_skel(rng, depth - 1, p_err, False)
            while rng.random() < 0.35:
                out.append(b"E" + cond(rng, ELK, p_err))
                out += gen_skel(rng, depth - 1, p_err, False)
            if rng.random() < 0.5:
                out.append(b"e")
                out += gen_skel(rng, depth - 1, p_err, False)
            out.append(b"x")
        else:
            out.append(b"c")
    return out


def number(fields):
    out, i = [], 1
    for f in fields:
        if f == b"c":
            out.append(b"c%d" % i)
            i += 1
        else:
            out.append(f)
    return out


def gen_cond_case(rng):
    f = gen_skel(rng, rng.randint(1, 4), p_err=rng.choice([0, 0, 0.3]))
    r = rng.random()
    if r < 0.12 and f:            # ill-nested: drop or insert a directive
        i = rng.randrange(len(f))
        if rng.random() < 0.5:
            del f[i]
        else:
            f.insert(i, rng.choice([b"e", b"x", b"E1", b"I1"]))
    defs = [m for m in NAMES if rng.random() < 0.4]
    return [b";".join(defs)] + number(f)


def render_cond(fields):
    out = []
    ct = {"0": "0", "1": "1", "D": "defined(%s)", "N": "!defined(%s)", "M": "%s", "Z": "1/0"}
    for f in fields:
        s = f.decode()
        if s[0] == "I":
            if s[1] == "d":
                out.append("#ifdef " + s[2:])
            elif s[1] == "n":
                out.append("#ifndef " + s[2:])
            else:
                out.append("#if " + (ct[s[1]] % s[2:] if "%" in ct[s[1]] else ct[s[1]]))
        elif s[0] == "E":
            out.append("#elif " + (ct[s[1]] % s[2:] if "%" in ct[s[1]] else ct[s[1]]))
        elif s == "e":
            out.append("#else")
        elif s == "x":
            out.append("#endif")
        else:
            out.append("L%s;" % s[1:])
    return "\n".join(out) + "\n"


# ---- expressions: ("L", n, unsigned) | ("1", op, a) | ("2", op, a, b) | ("3", c, a, b)
PREC = {"*": 10, "/": 10, "%": 10, "+": 9, "-": 9, "<<": 8, ">>": 8, "<": 7, "<=": 7, ">": 7, ">=": 7,
        "==": 6, "!=": 6, "&": 5, "^": 4, "|": 3, "&&": 2, "||": 1}
BINOPS = list(PREC)
UNOPS = ["!", "~", "+", "-"]


def gen_expr(rng, depth, p_unsigned=0.1, ops=None, unops=None, p_cond=0.12):
    ops = ops or BINOPS
    unops = unops if unops is not None else UNOPS
    if depth == 0 or rng.random() < 0.25:
        return ("L", rng.choice([0, 0, 1, 1, 2, 3, 5, 7, 8, 12]), rng.random() < p_unsigned)
    r = rng.random()
    if r < p_cond:
        return ("3", gen_expr(rng, depth - 1, p_unsigned, ops, unops, p_cond), gen_expr(rng, depth - 1, p_unsigned, ops, unops, p_cond),
                gen_expr(rng, depth - 1, p_unsigned, ops, unops, p_cond))
    if unops and r < p_cond + 0.2:
        return ("1", rng.choice(unops), gen_expr(rng, depth - 1, p_unsigned, ops, unops, p_cond))
    return ("2", rng.choice(ops), gen_expr(rng, depth - 1, p_unsigned, ops, unops, p_cond), gen_expr(rng, depth - 1, p_unsigned, ops, unops, p_cond))


def paren(b, l):
    return [b"("] + l + [b")"] if b else l


def print_expr(lvl, e):
    """mirror of coq/theories/PP/Eval.v print (the model checks the tokens against its own print)"""
    if e[0] == "L":
        return [b"%d%s" % (e[1], b"u" if e[2] else b"")]
    if e[0] == "1":
        return paren(11 < lvl, [e[1].encode()] + print_expr(11, e[2]))
    if e[0] == "2":
        p = PREC[e[1]]
        return paren(p < lvl, print_expr(p, e[2]) + [e[1].encode()] + print_expr(p + 1, e[3]))
    return paren(0 < lvl, print_expr(1, e[1]) + [b"?"] + print_expr(0, e[2]) + [b":"] + print_expr(0, e[3]))


def ast_fields(e):
    if e[0] == "L":
        return [(b"U" if e[2] else b"L") + b"%d" % e[1]]
    if e[0] == "1":
        return [b"1" + e[1].encode()] + ast_fields(e[2])
    if e[0] == "2":
        return [b"2" + e[1].encode()] + ast_fields(e[2]) + ast_fields(e[3])
    return [b"3"] + ast_fields(e[1]) + ast_fields(e[2]) + ast_fields(e[3])


def expr_case(e):
    t = print_expr(0, e)
    return [b"%d" % len(t)] + t + ast_fields(e)


def skeleton(e):
    """operator skeleton (literals abstracted; unsigned literals marked)"""
    if e[0] == "L":
        return "U" if e[2] else "L"
    if e[0] == "1":
        return "%s(%s)" % (e[1], skeleton(e[2]))
    if e[0] == "2":
        return "(%s %s %s)" % (skeleton(e[2]), e[1], skeleton(e[3]))
    return "(%s ? %s : %s)" % (skeleton(e[1]), skeleton(e[2]), skeleton(e[3]))


def shrink_expr(e):
    """smaller variants"""
    res = []
    if e[0] == "L":
        if e[2]:
            res.append(("L", e[1], False))
        for v in (0, 1, 2):
            if v < e[1]:
                res.append(("L", v, e[2]))
        return res
    kids = list(e[2:]) if e[0] in "12" else list(e[1:])
    res += kids                                  # replace by a child
    for v in (0, 1, 2):
        res.append(("L", v, False))
    for i, k in enumerate(kids):
        for k2 in shrink_expr(k):
            nk = kids[:i] + [k2] + kids[i + 1:]
            res.append((e[0], e[1]) + tuple(nk) if e[0] in "12" else ("3",) + tuple(nk))
    return res
