#!/usr/bin/env python3
"""C36  The HTML report lists every reported finding.

prove:      coq/theories/Properties_C36.v (html_escape safe and invertible; the index rows are a
            permutation of the findings; groups sorted by line, stably)
tie:        T  the escape table is read out of htmlreport/cppcheck-htmlreport (text) and compared with the model's;
            X1 the script's own html_escape (module loaded from the file, real pygments) vs the model;
            X2 generated XML v2 result files + source trees -> the real script (subprocess) -> index.html parsed
               with html.parser -> rows vs the extracted model's index_rows, and vs the property itself
               (every finding once, with file, line, id, severity, escaped message)
"""
import hashlib
import html.parser
import importlib.machinery
import importlib.util
import os
import re
import shutil
import subprocess
import sys
import tempfile

sys.path.insert(0, os.path.dirname(os.path.dirname(os.path.abspath(__file__))))
import vlib

PID = "C36"
SCRIPT = os.path.join(vlib.REPO, "htmlreport", "cppcheck-htmlreport")


def load_script():
    loader = importlib.machinery.SourceFileLoader("cppcheck_htmlreport_under_test", SCRIPT)
    spec = importlib.util.spec_from_loader(loader.name, loader)
    mod = importlib.util.module_from_spec(spec)
    loader.exec_module(mod)
    return mod


def escape_table_from_text():
    """the characters the script escapes, read from its text: saxutils.escape (& < >) plus html_escape_table"""
    src = open(SCRIPT, encoding="utf-8").read()
    m = re.search(r"html_escape_table\s*=\s*\{(.*?)\}", src, re.S)
    if not m:
        raise ValueError("html_escape_table not found in " + SCRIPT)
    tab = dict(re.findall(r"""(?:'([^'])'|"([^"])")\s*:\s*"([^"]*)\"""", m.group(1)) and
               [((a or b), c) for a, b, c in re.findall(r"""(?:'([^'])'|"([^"])")\s*:\s*"([^"]*)\"""", m.group(1))])
    if not re.search(r"def html_escape\(text\):\s*\n\s*return escape\(text, html_escape_table\)", src):
        raise ValueError("html_escape is no longer `escape(text, html_escape_table)`")
    if "from xml.sax.saxutils import escape" not in src:
        raise ValueError("escape is no longer xml.sax.saxutils.escape")
    tab.update({"&": "&amp;", "<": "&lt;", ">": "&gt;"})
    return tab


class IndexParser(html.parser.HTMLParser):
    """rows of the summary table: ('file', text) and ('issue', [cells])"""

    def __init__(self):
        super().__init__(convert_charrefs=True)
        self.rows, self.in_table, self.cell, self.cur, self.kind = [], False, None, None, None

    def handle_starttag(self, tag, attrs):
        a = dict(attrs)
        if tag == "table" and a.get("class") == "summaryTable":
            self.in_table = True
        if not self.in_table:
            return
        if tag == "tr":
            self.cur, self.kind = [], ("issue" if "issue" in (a.get("class") or "").split() else "other")
        elif tag in ("td", "th") and self.cur is not None:
            self.cell = ""
            if a.get("colspan") == "6":
                self.kind = "file"

    def handle_endtag(self, tag):
        if not self.in_table:
            return
        if tag in ("td", "th") and self.cell is not None and self.cur is not None:
            self.cur.append(self.cell)
            self.cell = None
        elif tag == "tr" and self.cur is not None:
            self.rows.append((self.kind, self.cur))
            self.cur = None
        elif tag == "table":
            self.in_table = False

    def handle_data(self, data):
        if self.cell is not None:
            self.cell += data


def parsed_rows(index_html):
    p = IndexParser()
    p.feed(index_html)
    out, cur = [], None
    for kind, cells in p.rows:
        if kind == "file" and cells and cells[0] != "Could not generated due to UnicodeDecodeError":
            cur = cells[0]
        elif kind == "issue":
            out.append((cur, cells))
    return out


RAW_FILE = re.compile(r'<tr><td colspan="6">(?:<a href="[^"]*">)?([^<]*)(?:</a>)?</td></tr>')
RAW_MSG = re.compile(r'<tr class="[^"]*issue">(?:<td>(?:<a [^>]*>)?[^<]*(?:</a>)?</td>){4}<td(?: class="[^"]*")?>([^<]*)</td>')

ALPH = ["a", "b", "x", " ", "<", ">", "&", '"', "'", "ä", "中", "{", "}", ";", "#", "&lt;", "&amp;", "&#60;", "\\", "/", "%s", "="]
IDS = ["nullPointer", "uninitvar", "clang-tidy-x", "misra-c2012-1.1", "a", "unmatchedSuppression"]
SEVS = ["error", "warning", "style", "performance", "portability", "information"]


def xattr(s):
    return s.replace("&", "&amp;").replace("<", "&lt;").replace(">", "&gt;").replace('"', "&quot;")


def rtext(rng, n=8):
    return "".join(rng.choice(ALPH) for _ in range(rng.randint(0, n)))


def gen_report(rng, hostile):
    """returns (errors, sources): errors = list of dicts; sources = {name: bytes or None (missing)}"""
    files = ["a.c", "dir/b.c", "z.h", "sp ace.c", "uä.c", "lat.c", "gone.c", "star*"]
    if hostile:
        files += ["a<b.c", "amp&c.c", "q\"uote.c", "x&lt;y.c"]
    sources = {}
    for f in files:
        if f == "gone.c" or f == "star*":
            sources[f] = None
        elif f == "lat.c":
            sources[f] = b"int l; // \xe4\n" * 5
        else:
            sources[f] = ("int v%d;\n" % rng.randint(0, 9)).encode() * rng.randint(1, 12)
    errs = []
    for _ in range(rng.randint(0, 14)):
        nloc = rng.choice([0, 1, 1, 1, 2, 3])
        locs = [(rng.choice(files), rng.choice([0, 1, 1, 2, 3, 5, 7, 12])) for _ in range(nloc)]
        eid = rng.choice(IDS) if not hostile or rng.random() < 0.7 else rng.choice(["id<b>", "a&b", "i&lt;d"])
        errs.append({"id": eid, "severity": rng.choice(SEVS), "msg": rtext(rng), "verbose": rtext(rng),
                     "inconclusive": rng.random() < 0.3, "cwe": rng.choice([None, "398", "476"]), "locs": locs})
    return errs, sources


def write_report(path, errs):
    with open(path, "w", encoding="utf-8") as f:
        f.write('<?xml version="1.0" encoding="UTF-8"?>\n<results version="2">\n    <cppcheck version="2.21 dev"/>\n    <errors>\n')
        for e in errs:
            f.write('        <error id="%s" severity="%s" msg="%s" verbose="%s"%s%s>\n' % (
                xattr(e["id"]), e["severity"], xattr(e["msg"]), xattr(e["verbose"]),
                ' cwe="%s"' % e["cwe"] if e["cwe"] else "", ' inconclusive="true"' if e["inconclusive"] else ""))
            for fn, ln in e["locs"]:
                f.write('            <location file="%s" line="%d" column="1"/>\n' % (xattr(fn), ln))
            f.write("        </error>\n")
        f.write("    </errors>\n</results>\n")


def check(run, replay):
    quick = run.tier == "quick"
    rng = run.rng
    run.trusted_base += [
        "Coq 8.16.1 kernel; extraction with ExtrOcamlBasic only; ocaml/driver.ml",
        "the script runs under the installed python3 with the real pygments %s (nothing is stubbed); xml.sax reads the generated result files" % __import__("pygments").__version__,
        "html.parser (convert_charrefs=True) stands for the HTML reader when the index is read back; the raw message cell is taken by a regular expression on the row",
        "modelled, not verified: htmlreport/cppcheck-htmlreport html_escape, CppCheckHandler.handleVersion2 (file/line of the first location), main(): grouping by file, sorted(files.items()), sorted(errors, key=line), the cells of tr_str for line/id/severity/message, html_escape on the file header and id cells, the line cell (blank for '' / names ending in '*')",
        "not modelled: per-file pages (pygments output), stats.html, CWE links, author/blame columns, version-1 result files, remote --source-dir",
    ]
    run.assumptions += ["file names compare by code point in Python and by UTF-8 byte in the model (same order)"]
    run.extra["rule"] = ("result files with 0-14 findings over 8 (12 with hostile names) file names incl. missing, non-UTF-8 and '*'-terminated sources, 0-3 locations each, "
                         "texts over an alphabet of letters, HTML/XML specials, pre-escaped references, non-ASCII; --source-dir=. or an absolute path. "
                         "non-trivial = a finding row (distinct per report/finding); escape stream: a string with at least one of & < > \" '")
    ok = run.prove(extra_targets=["theories/Html/Run.vo"])
    if not ok:
        run.violation("proof:" + PID, "Properties_C36.vo does not build: " + str(run.proof_error())[:300],
                      {"broken": "proof", "detail": run.proof_error()}, found_input=False)
    if not os.path.exists(os.path.join(vlib.COQ, "theories/Html/Run.vo")):
        return
    model = vlib.build_model(PID)

    def model_eval(tag, cases):
        _, out, _ = vlib.run_lines([model], [vlib.enc_case([tag] + list(c)) for c in cases])
        return [vlib.dec_line(o) for o in out]

    # ---- T: the escape table in the script text
    try:
        tab = escape_table_from_text()
        run.extra["escape_table_from_script"] = tab
        chars = [chr(c) for c in range(1, 128)]
        for ch, got in zip(chars, model_eval("esc", [[ch.encode()] for ch in chars])):
            want = tab.get(ch, ch).encode()
            got = got[0] if got else b""
            if got != want:
                run.violation("table:%02x" % ord(ch), "the script escapes %r as %r, the model as %r" % (ch, want, got), {"char": ch}, found_input=False)
    except Exception as e:
        run.violation("translate:" + type(e).__name__, "escape table extraction failed: %s" % e, {"broken": "translator", "detail": str(e)}, found_input=False)

    # ---- X1: the script's html_escape function
    try:
        mod = load_script()
    except Exception as e:
        run.violation("load:" + type(e).__name__, "cannot load the script as a module: %s" % e, {"broken": "load", "detail": str(e)}, found_input=False)
        return
    st = run.stream("html_escape")
    texts = [rtext(rng, 14) for _ in range(3000 if quick else 60000)] + ["".join(chr(c) for c in range(1, 128))]
    outs = model_eval("esc", [[t.encode("utf-8")] for t in texts])
    back = model_eval("unesc", [[(o[0] if o else b"")] for o in outs])
    for t, o, b in zip(texts, outs, back):
        st["evaluations"] += 1
        got = mod.html_escape(t).encode("utf-8")
        mo = o[0] if o else b""
        if any(ch in t for ch in "&<>\"'"):
            st["nontrivial"].add(t)
        st["hist"]["special" if mo != t.encode("utf-8") else "plain"] = st["hist"].get("special" if mo != t.encode("utf-8") else "plain", 0) + 1
        if got != mo:
            st["disagreements"] += 1
            run.violation("esc:" + hashlib.sha1(t.encode()).hexdigest()[:10], "html_escape(%r) = %r, model %r" % (t, got, mo), {"text": t}, found_input=False)
        if any(c in got for c in b"<>\"'") or __import__("html").unescape(got.decode("utf-8")) != t and "&" not in t:
            run.violation("escsafe:" + hashlib.sha1(t.encode()).hexdigest()[:10], "html_escape(%r) = %r is not safe / not invertible" % (t, got), {"text": t})
        if (b[0] if b else b"") != t.encode("utf-8"):
            run.violation("unesc:" + hashlib.sha1(t.encode()).hexdigest()[:10], "model: unescape(escape(t)) != t", {"text": t}, found_input=False)
    if len(run.samples) < 3:
        run.samples.append({"stream": "html_escape", "case": texts[0], "model": vlib.show(outs[0])})

    # ---- X2: the real script on generated reports
    st = run.stream("index.html")
    scratch = tempfile.mkdtemp(prefix="c36_", dir="/tmp")
    known = {}
    try:
        nrep = 40 if quick else 500
        for k in range(nrep):
            hostile = rng.random() < 0.3
            dot = rng.random() < 0.5
            errs, sources = gen_report(rng, hostile)
            d = os.path.join(scratch, "r%d" % k)
            src = os.path.join(d, "src")
            os.makedirs(src)
            for fn, content in sources.items():
                if content is not None:
                    os.makedirs(os.path.dirname(os.path.join(src, fn)) or src, exist_ok=True)
                    with open(os.path.join(src, fn), "wb") as f:
                        f.write(content)
            write_report(os.path.join(d, "r.xml"), errs)
            p = subprocess.run([sys.executable, SCRIPT, "--file=" + os.path.join(d, "r.xml"), "--report-dir=" + os.path.join(d, "out"),
                                "--source-dir=" + ("." if dot else src)], cwd=src, stdout=subprocess.PIPE, stderr=subprocess.PIPE, timeout=120)
            if p.returncode != 0 or not os.path.exists(os.path.join(d, "out", "index.html")):
                run.violation("crash:" + hashlib.sha1(open(os.path.join(d, "r.xml"), "rb").read()).hexdigest()[:10],
                              "cppcheck-htmlreport fails on a well-formed version-2 results file (rc %s): %s" % (p.returncode, p.stderr.decode("utf-8", "replace")[-300:]),
                              {"results_xml": open(os.path.join(d, "r.xml"), encoding="utf-8").read(), "source_dir": "." if dot else "absolute", "stderr": p.stderr.decode("utf-8", "replace")[-1500:]})
                continue
            html_text = open(os.path.join(d, "out", "index.html"), encoding="utf-8").read()
            rows = parsed_rows(html_text)
            raw_msgs = RAW_MSG.findall(html_text)
            # the model's rows for the same report
            flat = []
            for e in errs:
                fn, ln = e["locs"][0] if e["locs"] else ("", 0)
                flat += [fn.encode("utf-8"), ln, e["id"].encode("utf-8"), e["severity"].encode(), e["msg"].encode("utf-8"), e["inconclusive"]]
            mo = model_eval("index", [flat])[0] if flat else []
            mrows = [tuple(x.decode("utf-8") for x in mo[i:i + 5]) for i in range(0, len(mo), 5)]
            hostile_used = any(any(ch in v for ch in "<&") for e in errs for v in [e["id"]] + [l[0] for l in e["locs"][:1]])
            import html as _html
            got = [(f or "", c[0], c[1], c[3], c[4]) for f, c in rows if len(c) >= 5]
            # the model's cells are the raw (escaped) ones; an HTML reader decodes file, id and message
            want_m = [(_html.unescape(r[0]), r[1], _html.unescape(r[2]), r[3], _html.unescape(r[4])) for r in mrows]
            for e in errs:
                st["evaluations"] += 1
                st["nontrivial"].add((k, id(e)))
            b = ("hostile-names," if hostile_used else "") + ("dot" if dot else "abs")
            st["hist"][b] = st["hist"].get(b, 0) + 1
            rep = {"results_xml": open(os.path.join(d, "r.xml"), encoding="utf-8").read(), "source_dir": "." if dot else "absolute",
                   "how": "write the results file, create src/ with the named files, run python3 htmlreport/cppcheck-htmlreport --file=r.xml --report-dir=out --source-dir=%s in src/" % ("." if dot else "<abs src>")}
            if got != want_m:
                st["disagreements"] += 1
                bad = [(g, w) for g, w in zip(got, want_m) if g != w][:2] or [("count", len(got), len(want_m))]
                run.violation("index:" + hashlib.sha1(rep["results_xml"].encode()).hexdigest()[:10],
                              "index.html rows differ from the model's index_rows: %s" % (bad,), dict(rep, script_rows=got[:30], model_rows=want_m[:30]),
                              found_input=False)
            elif len(raw_msgs) == len(mrows) and raw_msgs != [r[4] for r in mrows]:
                run.violation("rawmsg:" + hashlib.sha1(rep["results_xml"].encode()).hexdigest()[:10],
                              "message cells are not html_escape(msg) as in the model", dict(rep, raw=raw_msgs[:10], model=[r[4] for r in mrows][:10]), found_input=False)
            raw_files = [x for x in RAW_FILE.findall(html_text) if x != "Could not generated due to UnicodeDecodeError"]
            if sorted(set(raw_files)) != sorted(set(r[0] for r in mrows)):
                run.violation("rawfile:" + hashlib.sha1(rep["results_xml"].encode()).hexdigest()[:10],
                              "file header cells are not html_escape(file) as in the model", dict(rep, raw=raw_files[:10], model=sorted(set(r[0] for r in mrows))[:10]), found_input=False)
            # the property itself: every finding exactly once with file, line, id, severity, message
            def pline(e):
                if not e["locs"] or e["locs"][0][0].endswith("*"):
                    return ""      # no location / the script's own "not a real file" convention
                return str(e["locs"][0][1])
            want_p = sorted((e["locs"][0][0] if e["locs"] else "", pline(e), e["id"],
                             e["severity"] + (", inconcl." if e["inconclusive"] else ""), e["msg"]) for e in errs)
            if sorted(got) != want_p:
                missing = [w for w in want_p if w not in got]
                for w in missing[:3]:
                    run.violation("prop:" + hashlib.sha1((rep["results_xml"] + repr(w)).encode()).hexdigest()[:10],
                                  "index.html does not list finding %r once with its file, line, id, severity and message" % (w,), dict(rep, rows=got[:40]))
                if not missing:
                    run.violation("prop-count:" + hashlib.sha1(rep["results_xml"].encode()).hexdigest()[:10],
                                  "index.html has %d finding rows for %d findings" % (len(got), len(want_p)), dict(rep, rows=got[:40]))
            if len(run.samples) < 6 and errs:
                run.samples.append({"stream": "index.html", "case": {"findings": len(errs), "first": {k2: v for k2, v in errs[0].items()}, "source_dir": "." if dot else "abs"},
                                    "model": list(mrows[0]) if mrows else []})
    finally:
        shutil.rmtree(scratch, ignore_errors=True)


if __name__ == "__main__":
    vlib.main(check, PID)
