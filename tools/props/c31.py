#!/usr/bin/env python3
"""C31  File selection and path matching follow the documented rules.

prove:      coq/theories/Properties_C31.v (PathMatch::match loop = documented pattern language; iterator facts; file lister = sorted set of selected files,
            independent of the enumeration order)
correspond: extracted model (Path/Run.v) vs harness/vh_c31.cpp on PathMatch::match, PathIterator::read,
            Path::simplifyPath, Path::acceptFile, Path::identify, FileLister::recursiveAddFiles (real file
            system, scratch tree under /tmp) and vs the real cppcheck binary ('Checking <file> ...' lines)
search:     the specification itself (pathmatch_spec_b, proved equal to the documented language; canon for
            the iterator) is evaluated against the implementation on every generated case.
"""
import hashlib
import os
import re
import shutil
import subprocess
import sys
import tempfile
import time

sys.path.insert(0, os.path.dirname(os.path.dirname(os.path.abspath(__file__))))
import vlib
from props import path_common as G

PID = "C31"

CORPUS_PM = [[p, t, b, m, b"u"] for p, t, b, m in [
    (b"?*a", b"ba", b"", b"f"), (b"a*?", b"ab", b"", b"f"), (b"?*.c", b"xy.c", b"", b"f"), (b"a***", b"ab", b"", b"f"),
    (b"src/", b"src/a.c", b"", b"f"), (b"src/", b"src", b"", b"f"), (b"src/", b"src", b"", b"d"), (b"src", b"/r/src/a.c", b"", b"f"),
    (b"./src", b"src/a.c", b"/r", b"f"), (b"../x", b"/r/x/a.c", b"/r/s", b"f"), (b"/r/s*", b"/r/src/a", b"", b"f"),
    (b"*.c", b"a/b.c", b"", b"f"), (b"**.c", b"a/b.c", b"", b"f"), (b"a/**/b", b"a/x/y/b", b"", b"f"), (b"a/*/b", b"a/x/y/b", b"", b"f"),
    (b"a/b", b"a//b", b"", b"f"), (b"/a", b"/../a", b"", b"f"), (b"", b"", b"", b"f"), (b"*", b"", b"", b"f"), (b"**/", b"ab", b"", b"f"),
    (b"x/**/", b"x/ab", b"", b"f"), (b"a/..", b"b", b"", b"f"), (b".", b"a", b"/r", b"f"), (b"/", b"/a", b"", b"f"), (b"a\x00b", b"a", b"", b"f")]]
CORPUS_ITER = [[a, b, b"u"] for a, b in [
    (b"/hello/universe/.", b"../world//"), (b"//./..//.///.", b"../../..///"), (b"a//b", b""), (b"/../a", b""), (b"//a", b""),
    (b"/..", b""), (b"../a", b""), (b"a/../../b", b""), (b"/r/", b"./b"), (b"", b""), (b".", b""), (b"/", b""), (b"a/./b/../c/", b"")]]


def classify_iter(raw):
    """which documented-rule deviation class a raw path falls in (keys only; the spec value comes from the model)"""
    rooted = raw.startswith(b"/")
    comps = raw.split(b"/")
    body = comps[1:] if rooted else comps
    while body and body[-1] == b"":
        body = body[:-1]
    lead = 0
    while lead < len(body) and body[lead] == b"":
        lead += 1
    inner_empty = b"" in body[lead:]
    depth, under = 0, False
    for c in body:
        if c in (b"", b"."):
            continue
        if c == b"..":
            if depth == 0:
                under = True
            else:
                depth -= 1
        else:
            depth += 1
    return rooted, inner_empty or (rooted and lead > 0), under


def check(run, replay):
    quick = run.tier == "quick"
    rng = run.rng
    run.trusted_base += [
        "Coq 8.16.1 kernel (coqc); vm_compute only in the refutation witness and the non-vacuity Examples",
        "extraction: Require Extraction + ExtrOcamlBasic only",
        "ocaml/driver.ml (I/O), harness/vh_common.h + vh_c31.cpp (decode a case, call PathMatch::match / PathIterator::read / Path::simplifyPath / Path::acceptFile / Path::identify / FileLister::recursiveAddFiles)",
        "modelled, not verified: lib/pathmatch.cpp PathMatch::match, lib/pathmatch.h PathIterator (unix syntax; a position is the list of raw characters still to be read), lib/path.cpp acceptFile/identify/getFilenameExtension (case sensitive file system), simplecpp::simplifyPath, cli/filelister.cpp addFiles/addFiles2 (POSIX branch), the path-name part of CmdLineParser::fillSettingsFromArgs (concatenate, --file-filter, de-duplicate)",
        "termination of the match loop is not proved: theorems read `if the loop answers within its fuel ...`; fuel exhaustion is a distinct result, counted, never compared",
        "file system: stat/opendir/readdir are represented by a tree value whose children lists stand for the readdir order; no symlinks, no unreadable directories",
    ]
    run.assumptions += ["g++ compiles /repo faithfully", "strings contain no NUL beyond what cstr models; windows syntax is modelled as compiled on this (non-Windows) build: Path::isAbsolute is the unix one; ASCII only (std::tolower in the C locale)"]
    run.extra["rule"] = ("pm: patterns from tokens {a,b,ab,.,..,/,a.c,*,**,?,?*,*?,***,*.c,...} (0-6 tokens, 3% arbitrary byte), half of the paths "
                         "instantiated from the pattern (+ prefix/suffix components), 9 base paths, 30% directory mode; thorough adds all patterns "
                         "over {a,b,.,/,*,?} len<=4 x all paths over {a,b,.,/} len<=4 and patterns len<=5 x paths len<=3; non-trivial = distinct case whose pattern has a wildcard or "
                         "separator and that reaches the loop (no fast path). iter: distinct (a,b). select/lister: distinct (tree, patterns, inputs) "
                         "with at least one pattern. accept/identify/simplify: distinct input.")

    vlib.ensure_repo_build()
    ok = run.prove()
    model = vlib.build_model(PID) if ok or os.path.exists(os.path.join(vlib.COQ, "theories/Path/Run.vo")) else None
    if not ok:
        run.violation("proof:" + PID, "Properties_C31.vo does not build: " + str(run.proof_error())[:300],
                      {"broken": "proof", "detail": run.proof_error()}, found_input=False)
    if model is None:
        return
    vh = vlib.build_harness(PID)

    def model_eval(tag, cases):
        rc, out, err = vlib.run_lines([model], [vlib.enc_case([tag] + list(c)) for c in cases])
        if rc != 0 or len(out) != len(cases):
            raise vlib.BuildError("model run failed (%s): %s" % (tag, err[-500:]))
        return [vlib.dec_line(o) for o in out]

    def impl_eval(cmd, cases):
        rc, out, err = vlib.run_lines([vh, cmd], [vlib.enc_case(c) for c in cases])
        if len(out) != len(cases):
            raise vlib.BuildError("harness died (%s) rc=%s: %s" % (cmd, rc, err[-500:]))
        return [vlib.dec_line(o) for o in out]

    def tie_broken(stream, diffs, fields):
        for c, m, i in sorted(diffs, key=lambda d: sum(len(f) for f in d[0]))[:2]:
            if m == [b"F"]:
                continue
            key = "%s:%s" % (stream, hashlib.sha1(vlib.enc_case(c).encode()).hexdigest()[:12])
            run.violation(key, "model and implementation disagree on %s%s: model %s, implementation %s" % (stream, vlib.show(c), vlib.show(m), vlib.show(i)),
                          {"broken": "correspondence " + stream, "input": dict(zip(fields, vlib.show(c))), "model": vlib.show(m), "impl": vlib.show(i),
                           "how": "echo '%s' | build/harness/vh_c31 %s" % (vlib.enc_case(c), stream)}, found_input=False)

    # ---- stream 1: the iterator (tie) and the documented canonical form (property)
    n = 4000 if quick else 150000
    cases = list(CORPUS_ITER) + [G.gen_iter_case(rng) for _ in range(n)] + \
        [[a, b"", b"u"] for a in G.exhaustive_strings(G.PALPHA, 5 if quick else 8)]
    cases = [list(c) for c in dict.fromkeys(tuple(c) for c in cases)]
    diffs = vlib.correspond(run, "iterraw", model, [vh, "iterraw"], cases, tag="iterraw",
                            nontrivial=lambda c, m, i: (c[0], c[1]),
                            bucket=lambda c, m, i: "unchanged" if m and m[0] == G_join(c) else "canonicalised")
    tie_broken("iterraw", diffs, ["a", "b", "syntax"])
    impl = impl_eval("iterraw", cases)
    spec = model_eval("canon", [c[:2] for c in cases])
    seen_classes = {}
    for c, i, s in zip(cases, impl, spec):
        if b"\x00" in c[0] or b"\x00" in c[1]:
            continue
        raw = G_join(c)
        # outside C31_iterator_reads_canon (canon_ok): not rooted and the first component is ".."
        if not raw.startswith(b"/") and raw.split(b"/")[0] == b"..":
            run.count("iter-vs-canon", None, bucket="unspecified(relative, begins with '..')")
            continue
        run.count("iter-vs-canon", None, nontrivial=(c[0], c[1]), bucket="agree" if i == s else "differ")
        if i != s:
            run.stream("iter-vs-canon")["disagreements"] += 1
            key = "iter:%s:%s" % (c[0].hex(), c[1].hex())
            if key not in seen_classes or len(raw) < len(seen_classes[key][0]):
                seen_classes[key] = (raw, c, i, s)
    unclassified = sorted(seen_classes, key=lambda k: (len(seen_classes[k][0]), k))
    for k in unclassified[3:]:
        del seen_classes[k]
    for key, (raw, c, i, s) in sorted(seen_classes.items()):
        run.violation(key, "PathIterator(%r, %r).read() = %s but the documented canonical form is %s" % (c[0], c[1], vlib.show(i), vlib.show(s)),
                      {"input": {"a": vlib.show(c[0]), "b": vlib.show(c[1])}, "impl": vlib.show(i), "spec": vlib.show(s),
                       "how": "echo '%s' | build/harness/vh_c31 iterraw" % vlib.enc_case(c)})

    for cmd in ("iterpat", "iterpath"):
        cs = [[G.gen_str(rng, cmd == "iterpat", 4), rng.choice(G.BASES), b"u"] for _ in range(1500 if quick else 30000)]
        diffs = vlib.correspond(run, cmd, model, [vh, cmd], cs, tag=cmd, nontrivial=lambda c, m, i: (c[0], c[1]),
                                bucket=lambda c, m, i: "rel" if c[0][:1] == b"." else ("abs" if c[0][:1] == b"/" else "plain"))
        tie_broken(cmd, diffs, ["path", "base", "syntax"])

    # ---- stream 2: PathMatch::match (tie) and the documented rules (property)
    n = 12000 if quick else 400000
    cases = list(CORPUS_PM) + [G.gen_pm_case(rng) for _ in range(n)]
    cases += list(G.exhaustive_pm(3, 3)) if quick else list(G.exhaustive_pm(4, 4)) + list(G.exhaustive_pm(5, 3))
    cases = [list(c) for c in dict.fromkeys(tuple(c) for c in cases)]

    def pm_nt(c, m, i):
        if m == [b"F"]:
            return None
        p = c[0]
        fast = p in (b"", b"*", b"**") or (p == c[1] and not (p.endswith(b"/") and c[3] != b"d"))
        return (c[0], c[1], c[2], c[3]) if not fast and any(x in p for x in b"*?/") else None

    def pm_bucket(c, m, i):
        if m == [b"F"]:
            return "fuel"
        p = c[0]
        kind = "abs" if p[:1] == b"/" else ("rel" if p in (b".", b"..") or p[:2] == b"./" or p[:3] == b"../" else "plain")
        return ("match" if m == [b"1"] else "nomatch") + "," + kind + (",wild" if (b"*" in p or b"?" in p) else ",lit") + (",dironly" if p.endswith(b"/") else "")

    diffs = vlib.correspond(run, "pm", model, [vh, "pm"], cases, tag="pm", nontrivial=pm_nt, bucket=pm_bucket)
    tie_broken("pm", diffs, ["pattern", "path", "base", "mode", "syntax"])
    # property: the implementation against the documented rules (strings without NUL)
    pcases = [c for c in cases if b"\x00" not in c[0] + c[1] + c[2]]
    impl = impl_eval("pm", pcases)
    spec = model_eval("pmspec", pcases)
    bad = [(c, i, s) for c, i, s in zip(pcases, impl, spec) if i != s]
    for c, i, s in zip(pcases, impl, spec):
        run.count("pm-vs-spec", None, nontrivial=pm_nt(c, i, i), bucket="agree" if i == s else "differ")
    run.stream("pm-vs-spec")["disagreements"] += len(bad)
    dom = model_eval("readscanon", [[c[0], c[1], c[2]] for c in pcases])
    run.extra["pm_cases_in_theorem_domain"] = sum(1 for d in dom if d[3] == b"1")
    run.extra["pm_cases_outside_theorem_domain"] = sum(1 for d in dom if d[3] != b"1")
    if bad:
        rcn = model_eval("readscanon", [[c[0], c[1], c[2]] for c, _, _ in bad])
        size = lambda d: (len(d[0][0]) + len(d[0][1]) + len(d[0][2]), d[0])
        classes = {}
        for (c, i, s), rc2 in zip(bad, rcn):
            if rc2[3] != b"1":
                # outside the domain of C31_pathmatch_total: relative string beginning with '..', or a plain
                # pattern with empty canonical form ("x/..") - the documentation does not say what these mean
                run.count("pm-vs-spec", None, bucket="differ,outside theorem domain (unspecified)")
                continue
            key = ("pmcanon:%s:%s:%s" if rc2[:2] != [b"1", b"1"] else "pmspec:%s:%s:%s") % (c[0].hex(), c[1].hex(), c[2].hex()) + ":" + c[3].decode()
            classes.setdefault(key, []).append((c, i, s))
        # the smallest inputs first
        order = sorted(classes.items(), key=lambda kv: size(min(kv[1], key=size)))
        for key, lst in order[:6]:
            c, i, s = min(lst, key=size)
            why = " (the iterator does not read the canonical form)" if key.startswith("pmcanon:") else ""
            run.violation(key, "PathMatch::match(%r, %r, base %r, %s) = %s but the documented rules say %s%s"
                          % (c[0], c[1], c[2], c[3].decode(), vlib.show(i), vlib.show(s), why),
                          {"input": dict(zip(["pattern", "path", "base", "mode", "syntax"], vlib.show(c))), "impl": vlib.show(i), "spec": vlib.show(s),
                           "count_in_this_run": len(lst),
                           "how": "echo '%s' | build/harness/vh_c31 pm ; end to end: cppcheck -i<pattern> <dir>"
                                  % vlib.enc_case(c)})

    # ---- stream 2w: Syntax::windows (tie only: iterator and matcher)
    W = [b"a", b"B", b".", b"/", b"\\", b":", b"c"]
    cs = [G.gen_witer_case(rng) for _ in range(3000 if quick else 100000)] + [[a, b"", b"w"] for a in G.exhaustive_strings(W, 4 if quick else 6)]
    cs = [list(c) for c in dict.fromkeys(tuple(c) for c in cs)]
    diffs = vlib.correspond(run, "iterraw(windows)", model, [vh, "iterraw"], cs, tag="iterraw", nontrivial=lambda c, m, i: (c[0], c[1]),
                            bucket=lambda c, m, i: "unchanged" if m and m[0] == G_join(c) else "canonicalised")
    tie_broken("iterraw", diffs, ["a", "b", "syntax"])
    # property: the windows iterator against the windows canonical form, inside the domain of C31_iterator_reads_canon_windows
    impl = impl_eval("iterraw", cs)
    specw = model_eval("canonw", [c[:2] for c in cs])
    shown = 0
    for c, i, sw in sorted(zip(cs, impl, specw), key=lambda x: len(x[0][0]) + len(x[0][1])):
        if sw[1] != b"1":
            run.count("iter-vs-canon(windows)", None, bucket="outside theorem domain (drive-relative, '//?x', leading '..', empty)")
            continue
        run.count("iter-vs-canon(windows)", None, nontrivial=(c[0], c[1]), bucket="agree" if i == [sw[0]] or (not i and not sw[0]) else "differ")
        if not (i == [sw[0]] or (not i and not sw[0])):
            run.stream("iter-vs-canon(windows)")["disagreements"] += 1
            if shown < 3:
                shown += 1
                run.violation("iterw:%s:%s" % (c[0].hex(), c[1].hex()),
                              "PathIterator(%r, %r, windows).read() = %s but the windows canonical form is %s" % (c[0], c[1], vlib.show(i), vlib.show(sw[0])),
                              {"input": {"a": vlib.show(c[0]), "b": vlib.show(c[1])}, "impl": vlib.show(i), "spec": vlib.show(sw[0]),
                               "how": "echo '%s' | build/harness/vh_c31 iterraw" % vlib.enc_case(c)})
    cs = [G.gen_wpm_case(rng) for _ in range(8000 if quick else 200000)]
    cs = [list(c) for c in dict.fromkeys(tuple(c) for c in cs)]
    diffs = vlib.correspond(run, "pm(windows)", model, [vh, "pm"], cs, tag="pm", nontrivial=pm_nt, bucket=pm_bucket)
    tie_broken("pm", diffs, ["pattern", "path", "base", "mode", "syntax"])

    # ---- stream 3: Path::simplifyPath / acceptFile / identify (tie)
    n = 4000 if quick else 100000
    cs = [G.gen_simplify_case(rng) for _ in range(n)] + [[a] for a in G.exhaustive_strings(G.PALPHA + [b"\\"], 4 if quick else 7)]
    cs = [list(c) for c in dict.fromkeys(tuple(c) for c in cs)]
    diffs = vlib.correspond(run, "simplify", model, [vh, "simplify"], cs, tag="simplify", nontrivial=lambda c, m, i: c[0],
                            bucket=lambda c, m, i: "unchanged" if m == [c[0]] or (not c[0] and not m) else "changed")
    tie_broken("simplify", diffs, ["path"])
    cs = [G.gen_accept_case(rng) for _ in range(3000 if quick else 50000)]
    diffs = vlib.correspond(run, "accept", model, [vh, "accept"], cs, tag="accept", nontrivial=lambda c, m, i: tuple(c),
                            bucket=lambda c, m, i: b",".join(m).decode("latin-1"))
    tie_broken("accept", diffs, ["path", "nextra"])
    cs = [c[:1] for c in cs]
    diffs = vlib.correspond(run, "identify", model, [vh, "identify"], cs, tag="identify", nontrivial=lambda c, m, i: c[0],
                            bucket=lambda c, m, i: b",".join(m).decode("latin-1"))
    tie_broken("identify", diffs, ["path"])

    # ---- stream 4: file selection on real directory trees
    scratch = os.path.realpath(tempfile.mkdtemp(prefix="c31_"))
    try:
        select_stream(run, rng, model, vh, scratch, 25 if quick else 250, 8 if quick else 12)
    finally:
        shutil.rmtree(scratch, ignore_errors=True)


def G_join(c):
    a, b = c[0].split(b"\x00")[0], c[1].split(b"\x00")[0]
    return a + b"/" + b if a and b else a + b


CHECKING = re.compile(rb"^Checking (.*) \.\.\.$")


def select_stream(run, rng, model, vh, scratch, ntrees, per_tree):
    base = scratch.encode()
    lister_cases = []
    e2e = []
    for k in range(ntrees):
        root = os.path.join(scratch, "t%d" % k)
        os.makedirs(root)
        tree = G.gen_tree(rng)
        G.materialise(tree, root)
        paths = G.all_paths(tree)
        dirs = [p for p, d in paths if d]
        cwd = root.encode()
        for _ in range(per_tree):
            nign = rng.choice([0, 1, 1, 2, 3])
            ign = [G.gen_pattern_for(rng, paths) for _ in range(nign)]
            # harness: FileLister::recursiveAddFiles(abs path, PathMatch(ign, cwd))
            d = b"top" if rng.random() < 0.6 else rng.choice(dirs)
            node = G.subtree(tree, d.split(b"/")[1:])
            form = rng.choice([b"%s", b"%s/", b"%s//", b"%s/."])
            lister_cases.append([cwd + b"/" + (form % d)] + G.tree_fields(node) + [cwd, str(len(ign)).encode()] + ign)
            # binary: relative input paths, optional --file-filter, several inputs
            nin = rng.choice([1, 1, 1, 2])
            inputs = []
            for _ in range(nin):
                p, isdir = rng.choice(paths) if rng.random() < 0.25 else ((b"top" if rng.random() < 0.6 else rng.choice(dirs)), True)
                if not isdir and not G_accepted(p):
                    continue
                f = rng.choice([b"%s", b"%s", b"./%s", b"%s/"]) if isdir else rng.choice([b"%s", b"./%s"])
                inputs.append((f % p, G.subtree(tree, p.split(b"/")[1:])))
            if not inputs:
                inputs = [(b"top", tree)]
            filt = [G.gen_pattern_for(rng, paths) for _ in range(rng.choice([0, 0, 1, 2]))]
            e2e.append((root, inputs, ign, filt))

    diffs = vlib.correspond(run, "lister", model, [vh, "lister"], lister_cases, tag="lister",
                            nontrivial=lambda c, m, i: tuple(c),
                            bucket=lambda c, m, i: "fuel" if m == [b"F"] else "files%d" % min(len(m) - 1, 6))
    for c, m, i in sorted(diffs, key=lambda d: len(d[0]))[:2]:
        if m == [b"F"]:
            continue
        key = "lister:" + hashlib.sha1(vlib.enc_case(c).encode()).hexdigest()[:12]
        run.violation(key, "FileLister::recursiveAddFiles(%r) lists %s; the selected set is %s" % (c[0], vlib.show(i[1:]), vlib.show(m[1:])),
                      {"case_line": vlib.enc_case(c), "path": vlib.show(c[0]), "impl": vlib.show(i), "model": vlib.show(m),
                       "how": "the scratch tree is removed after the run; re-run with VERIF_SEED=%s to rebuild it" % run.seed})

    lines = []
    for root, inputs, ign, filt in e2e:
        fields = [root.encode(), str(len(inputs)).encode()]
        for p, node in inputs:
            fields += [p] + G.tree_fields(node)
        fields += [str(len(ign)).encode()] + ign + [str(len(filt)).encode()] + filt
        lines.append(vlib.enc_case([b"select"] + fields))
    rc, out, err = vlib.run_lines([model], lines)
    if rc != 0 or len(out) != len(lines):
        raise vlib.BuildError("model run failed (select): " + err[-500:])
    shown = 0
    for (root, inputs, ign, filt), o in zip(e2e, out):
        m = vlib.dec_line(o)
        args = [vlib.CPPCHECK] + ["-i" + os.fsdecode(p) for p in ign] + ["--file-filter=" + os.fsdecode(p) for p in filt] + \
               [os.fsdecode(p) for p, _ in inputs]
        for attempt in range(8):
            # the shared build directory may be re-linked / its cfg files re-copied by a concurrent check
            try:
                pr = subprocess.run(args, cwd=root, stdout=subprocess.PIPE, stderr=subprocess.STDOUT, timeout=300)
                last = pr.stdout.decode("utf-8", "replace")[-300:]
                if b"installation is broken" not in pr.stdout and pr.returncode >= 0:
                    break
            except OSError as ex:
                last = str(ex)
            time.sleep(10)
        else:
            raise vlib.BuildError("cppcheck binary not usable (concurrent rebuild?): " + last)
        got = [mm.group(1) for mm in (CHECKING.match(l) for l in pr.stdout.split(b"\n")) if mm]
        if m == [b"F"]:
            run.count("select(e2e)", None, bucket="fuel")
            continue
        want = m[1:]
        run.count("select(e2e)", None, nontrivial=(root, tuple(p for p, _ in inputs), tuple(ign), tuple(filt)) if (ign or filt) else None,
                  bucket="files%d,ign%d,filt%d" % (min(len(want), 5), len(ign), len(filt)))
        if got != want:
            run.stream("select(e2e)")["disagreements"] += 1
            if shown < 2:
                shown += 1
                key = "select:" + hashlib.sha1(repr((inputs, ign, filt)).encode()).hexdigest()[:12]
                run.violation(key, "cppcheck %s analyses %s; the documented selection is %s" % (" ".join(args[1:]), vlib.show(got), vlib.show(want)),
                              {"args": args[1:], "tree": [vlib.show(p) for p, _ in G.all_paths(inputs[0][1])], "impl": vlib.show(got), "spec_model": vlib.show(want),
                               "output": pr.stdout.decode("utf-8", "replace")[-1500:],
                               "how": "recreate the tree (files may be empty) and run cppcheck with these arguments in its parent directory"})
    if len(run.samples) < 12 and e2e:
        run.samples.append({"stream": "select(e2e)", "args": ["-i" + vlib.show(p) if isinstance(vlib.show(p), str) else str(p) for p in e2e[0][2]],
                            "inputs": [vlib.show(p) for p, _ in e2e[0][1]], "model": vlib.show(vlib.dec_line(out[0]))})


def G_relpat(p):
    return p in (b".", b"..") or p[:2] in (b"./", b".\\") or p[:3] in (b"../", b"..\\")


def G_accepted(p):
    ext = p[p.rfind(b"."):] if b"." in p else b""
    return ext in (b".c", b".cpp", b".C", b".cl", b".cc", b".c++", b".cxx", b".tpp", b".txx", b".ipp", b".ixx") or ext.lower() in (b".cpp", b".cc", b".c++", b".cxx", b".tpp", b".txx", b".ipp", b".ixx")


if __name__ == "__main__":
    vlib.main(check, PID)
