"""Case generators for the compilation-database import model (C32).

All random choices come from run.rng (seeded by VERIF_SEED). Generators aim at the case
splits of Import/Proofs*.v: quote state x character class in collectArgs; for parseArgs every
recognised prefix joined/separate/bare/last, option-like operands, empty words; for
fsSetDefines the ';' list shapes; for fsSetIncludePaths absolute/relative/drive/duplicate/
trailing-slash/dot components.
"""
import json
import shlex

MACROS = [b"X", b"Y", b"NDEBUG", b"_F", b"FN(a)", b"A1"]
VALUES = [b"", b"", b"=1", b"=2", b"=abc", b"=", b"=0"]
SPICY_DEFS = [b"S=\"a b\"", b"P=a\\b", b"Q=$x", b"R=a;b", b"T='q'", b"W=a b", b"V=`x`", b"Z=f(x)", b"K=a\\\\b", b"%(x)",
              b"M=a\tb", b"E=\\", b"N=\"x\\\"y\""]
INCDIRS = [b"inc", b"inc2", b"../up", b"/abs/i", b"sub/dir", b"./inc", b"inc/", b"a b", b"sub\\win", b"c:/w", b"%(d)", b"..",
           b".", b"sub/../inc", b"/abs//i/"]
FILES = [b"a.c", b"src/b.cpp", b"/abs/c.c", b"-Dgen.c", b"/Data/d.c", b"/Users/u.c", b"/Include/i.c", b"./a.c", b"../p/a.c", b"sub//x.c"]
COMPILERS = [b"gcc", b"/usr/bin/cc", b"clang++", b"/Developer/usr/bin/gcc", b"/Users/me/bin/cc", b"cc"]
FLAGS = [b"-c", b"-O2", b"-Wall", b"-g", b"-fPIC", b"-fpic", b"-fPIE", b"-fpie", b"-fno-common", b"-m64", b"-municode", b"-MD",
         b"-pthread", b"-pipe", b"-f", b"-m", b"-", b"--", b"-w"]
TWO = [(b"-o", [b"out.o", b"-Dx.o", b"/Data/o.o", b"/Users/o.o", b"-Ibuild/x.o"]), (b"-MF", [b"dep.d", b"-Ux.d"]), (b"-MT", [b"tgt", b"-DT"]),
       (b"-include", [b"pre.h", b"-Ifoo.h"]), (b"-x", [b"c", b"c++"]), (b"-isysroot", [b"/sdk"]), (b"-Xpreprocessor", [b"-DXP"]),
       (b"-arch", [b"x86_64"])]
STDS = [b"c99", b"c11", b"gnu11", b"c++17", b"gnu++14", b"c89", b"c++03", b"bogus"]


def gen_args(rng, wild=0.15):
    """A GCC-style argument vector. `wild` = probability of each kind of irregularity."""
    args = [rng.choice(COMPILERS[:3]) if rng.random() > wild else rng.choice(COMPILERS)]
    n = rng.randint(0, 8)
    for _ in range(n):
        k = rng.random()
        if k < 0.28:
            m = rng.choice(MACROS) + rng.choice(VALUES) if rng.random() > wild else rng.choice(SPICY_DEFS)
            pre = b"-D" if rng.random() > wild / 3 else b"/D"
            args += [pre + m] if rng.random() < 0.7 else [pre, m]
        elif k < 0.40:
            m = rng.choice(MACROS[:4])
            pre = b"-U" if rng.random() > wild / 3 else b"/U"
            args += [pre + m] if rng.random() < 0.7 else [pre, m]
        elif k < 0.60:
            d = rng.choice(INCDIRS[:5]) if rng.random() > wild else rng.choice(INCDIRS)
            pre = b"-I" if rng.random() > wild / 3 else b"/I"
            args += [pre + d] if rng.random() < 0.6 else [pre, d]
        elif k < 0.66:
            d = rng.choice(INCDIRS[:5])
            args += [b"-isystem" + d] if rng.random() < 0.3 else [b"-isystem", d]
        elif k < 0.74:
            s = rng.choice(STDS)
            args += [rng.choice([b"-std=", b"-std=", b"/std:"]) + s] if rng.random() < 0.9 else [b"-std=", s]
        elif k < 0.86:
            args.append(rng.choice(FLAGS[:12]) if rng.random() > wild else rng.choice(FLAGS))
        elif k < 0.94:
            o, vs = rng.choice(TWO)
            args += [o, vs[0] if rng.random() > wild else rng.choice(vs)]
        else:
            args.append(rng.choice(FILES[:3]) if rng.random() > wild else rng.choice(FILES))
    if rng.random() < wild / 2:
        args.append(rng.choice([b"-I", b"-D", b"-U", b"-isystem", b"-std=", b"-f", b"-m", b"/I", b"/D", b"/U", b"/std:"]))
    if rng.random() < wild / 2 and len(args) > 1:
        args.insert(rng.randrange(1, len(args)), b"")
    return args


def is_clean_arg(a):
    return bool(a) and all(32 <= c < 127 for c in a)


def cmake_quote(a):
    if not a:
        return b'""'
    e = b""
    for c in a:
        if c in b'"`\\$':
            e += b"\\"
        e += bytes([c])
    if any(c in b" \t'`;#&$()~<>|*^\\" for c in a):
        return b'"' + e + b'"'
    return e


def dq_quote(a):
    return b'"' + a.replace(b"\\", b"\\\\").replace(b'"', b'\\"') + b'"'


def bs_quote(a):
    if not a:
        return b"''"
    out = b""
    for c in a:
        if c in b" \"'\\":
            out += b"\\"
        out += bytes([c])
    return out


def join_args(args, style, rng=None):
    if style == "shlex":
        return b" ".join(shlex.quote(a.decode("latin-1")).encode("latin-1") for a in args)
    if style == "cmake":
        return b" ".join(cmake_quote(a) for a in args)
    if style == "dq":
        return b" ".join(dq_quote(a) for a in args)
    if style == "bs":
        return b" ".join(bs_quote(a) for a in args)
    # mixed, with irregular spacing
    parts = []
    for a in args:
        q = rng.choice([cmake_quote, dq_quote, bs_quote, lambda x: shlex.quote(x.decode("latin-1")).encode("latin-1")])
        parts.append(q(a))
    sep = [b" ", b"  ", b" ", b"   "]
    s = rng.choice([b"", b" "])
    for p in parts:
        s += p + rng.choice(sep)
    return s if rng.random() < 0.5 else s.rstrip(b" ")


STYLES = ["shlex", "cmake", "dq", "bs", "mixed"]
RAW_ALPHA = b"ab \"'\\-DI$\t\n`;x" + b"\x00"
RAW_W = [4, 3, 5, 4, 4, 4, 2, 1, 1, 1, 1, 1, 1, 1, 2, 1]


def gen_command(rng):
    k = rng.random()
    if k < 0.55:
        args = gen_args(rng)
        return join_args(args, rng.choice(STYLES), rng)
    if k < 0.65:
        # one mutation of a produced command
        s = bytearray(join_args(gen_args(rng), rng.choice(STYLES), rng))
        if s:
            i = rng.randrange(len(s))
            m = rng.random()
            if m < 0.4:
                del s[i]
            elif m < 0.8:
                s.insert(i, rng.choice(RAW_ALPHA))
            else:
                s[i] = rng.choice(RAW_ALPHA)
        return bytes(s)
    return bytes(rng.choices(RAW_ALPHA, weights=RAW_W, k=rng.randint(0, 10)))


def gen_defs(rng):
    alpha = b"AB=(;%1)x"
    w = [4, 3, 3, 2, 5, 2, 2, 1, 1]
    if rng.random() < 0.3:
        parts = [rng.choice(MACROS + SPICY_DEFS + [b"", b"%(x)", b"=", b"(", b"A=", b"=B"]) + rng.choice(VALUES) for _ in range(rng.randint(0, 5))]
        return b";".join(parts) + rng.choice([b"", b";", b";;"])
    return bytes(rng.choices(alpha, weights=w, k=rng.randint(0, 12)))


COMPONENTS = [b"a", b"b", b"..", b".", b"", b"a.", b".b", b"..c", b"c:", b"$(V)", b"%(x"]
CW = [6, 5, 4, 3, 2, 1, 1, 1, 1, 0.3, 0.3]


def gen_path(rng, maxc=6):
    n = rng.randint(0, maxc)
    comps = rng.choices(COMPONENTS, weights=CW, k=n)
    sep = b"\\" if rng.random() < 0.1 else b"/"
    p = sep.join(comps)
    if rng.random() < 0.35:
        p = sep + p
    if rng.random() < 0.2:
        p += sep
    return p


def gen_incs(rng):
    base = rng.choice([b"/base/", b"/b/c/", b"/", b"", b"rel/", b"/x/../y/"])
    n = rng.randint(0, 5)
    l = [gen_path(rng, 4) for _ in range(n)]
    if l and rng.random() < 0.3:
        l.append(rng.choice(l))
    if l and rng.random() < 0.2:
        l.append(rng.choice(l) + b"/")
    return [base] + l


def entry_json(directory, file, kind, payload):
    """One-entry compilation database as text (latin-1 bytes -> JSON string escapes)."""
    d = {"directory": directory.decode("latin-1"), "file": file.decode("latin-1")}
    if kind == "c":
        d["command"] = payload[0].decode("latin-1")
    else:
        d["arguments"] = [a.decode("latin-1") for a in payload]
    return json.dumps([d], ensure_ascii=True).encode("ascii")


def json_safe(b):
    # picojson decodes \\uXXXX to UTF-8; stay within ASCII so that bytes = characters
    return all(c < 128 for c in b)


def gen_entry(rng):
    directory = rng.choice([b"/proj", b"/proj/", b"/p/build", b"/p/../q", b"C:\\w", b"/"])
    file = rng.choice([b"a.c", b"src/b.cpp", b"/abs/c.c", b"./a.c", b"../p/a.c", b"sub//x.c", b"-Dgen.c", b"/Data/d.c"])
    args = gen_args(rng)
    if rng.random() < 0.5:
        return directory, file, "a", args
    return directory, file, "c", [join_args(args, rng.choice(STYLES), rng) if rng.random() < 0.9 else gen_command(rng)]


# ------------------------------------------------------------------ end-to-end (X2) material
PROBE_MACROS = [b"X", b"Y", b"NDEBUG", b"_F", b"A1", b"b", b"R", b"T", b"__PIC__", b"__pic__", b"UNICODE"]
PROBE_DIRS = [b"inc", b"inc2", b"sub/dir", b"../up"]


def probe_source(i):
    s = "int vmark_%d ;\n" % i
    for m in PROBE_MACROS:
        n = m.decode()
        s += "#ifdef %s\nint probe_%s = %s ;\n#endif\n" % (n, n, n)
    s += "#ifdef FN\nint probe_FN = FN(7) ;\n#endif\n"
    s += "#ifdef __STDC_VERSION__\nint probe_STDCV = __STDC_VERSION__ ;\n#endif\n"
    for k in range(len(PROBE_DIRS)):
        s += "#include \"vprobe_%d.h\"\n" % k
    return s


def gen_e2e_args(rng, src, wild=0.05):
    """Argument vector for an entry whose source file exists; printable ASCII only.
    Macro bodies name no probed macro (the probes show expansions)."""
    args = [rng.choice(COMPILERS[:2])]
    for _ in range(rng.randint(0, 7)):
        k = rng.random()
        if k < 0.34:
            m = rng.choice(MACROS) + rng.choice(VALUES) if rng.random() > wild else rng.choice([b"S=\"p q\"", b"Q=$x", b"R=a;b", b"T=p\\q", b"W=p q", b"T=p$q"])
            args += [b"-D" + m] if rng.random() < 0.7 else [b"-D", m]
        elif k < 0.48:
            m = rng.choice(MACROS[:4])
            args += [b"-U" + m] if rng.random() < 0.7 else [b"-U", m]
        elif k < 0.68:
            d = rng.choice(PROBE_DIRS + [b"inc/", b"./inc", b"nonexistent", b"sub/../inc2"])
            args += [b"-I" + d] if rng.random() < 0.6 else [b"-I", d]
        elif k < 0.73:
            args += [b"-isystem", rng.choice(PROBE_DIRS)]
        elif k < 0.80:
            args.append(b"-std=" + rng.choice([b"c99", b"c11", b"gnu11", b"gnu99", b"c17"]))
        elif k < 0.92:
            args.append(rng.choice([b"-O2", b"-Wall", b"-g", b"-fno-common", b"-m64", b"-pipe", b"-pthread", b"-w", b"-fPIC", b"-fpic"]
                                   if rng.random() > wild else [b"-fPIC", b"-municode"]))
        else:
            args += rng.choice([[b"-o", b"out.o"], [b"-MF", b"dep.d"], [b"-MT", b"tgt"], [b"-MD"]])
    if rng.random() < wild:
        args += [b"-o", rng.choice([b"/Data/o.o", b"-Dx.o", b"/Users/u.o"])]
    args += [b"-c", src]
    return args
